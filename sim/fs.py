"""SimFS: an in-memory filesystem behind the module-level `open` / `os` names of MPF's file code.

Crash model: process crash - the effect of every completed call survives, an interrupted write may leave
any prefix of its data.  Faults: OSError on the n-th open-for-write / write / replace (a failing write
leaves a prefix, like a full disk).
"""
import errno
import io
import os as _real_os


def _io_error(fault, path):
    """The injected I/O error: an OSError with an errno, or (fault == -1) one without - as raised e.g. by wrappers
    around the OS call ('OSError("short write")')."""
    if fault == -1:
        return OSError("simulated I/O error without errno on %s" % _real_os.path.basename(path))
    return OSError(fault, _real_os.strerror(fault), path)


class SimFile:

    def __init__(self, fs, path, mode):
        self.fs = fs
        self.path = path
        self.mode = mode
        self.closed = False
        self.encoding = "utf-8"      # ruamel's C emitter writes str only to streams that declare an encoding

    def write(self, s):
        fs = self.fs
        if isinstance(s, bytes):
            s = s.decode("utf-8")
        if self.closed:
            raise ValueError("I/O operation on closed file.")
        if fs.frozen:
            return len(s)
        fs.op("write", self.path)
        fault = fs.take_fault("write")
        if fault:
            cut = len(s) // 2
            fs.files[self.path] = fs.files.get(self.path, "") + s[:cut]
            fs.note_change(self.path)
            raise _io_error(fault, self.path)
        if fs.crash_mid_write is not None and fs.crash_mid_write():
            cut = fs.ch.randint("crash_cut", 0, len(s))
            fs.files[self.path] = fs.files.get(self.path, "") + s[:cut]
            fs.note_change(self.path)
            fs.do_crash("mid-write %s" % _real_os.path.basename(self.path))
        fs.files[self.path] = fs.files.get(self.path, "") + s
        fs.note_change(self.path)
        return len(s)

    def flush(self):
        pass

    def close(self):
        if self.closed:
            return
        self.closed = True
        self.fs.open_write_files.discard(self)
        if not self.fs.frozen:
            self.fs.op("close", self.path)

    def __enter__(self):
        return self

    def __exit__(self, *exc):
        self.close()
        return False


class SimFS:

    def __init__(self, chooser, root):
        self.ch = chooser.sub("fs")
        self.root = root
        self.files = {}         # path -> text
        self.dirs = set()
        self.frozen = False     # after a crash nothing reaches the disk any more
        self.ops = 0
        self.op_log = []
        self.on_op = None       # callback(kind, path): scheduler yield point + crash decisions
        self.on_change = None   # callback(path)
        self.faults = {}        # kind -> set of occurrence numbers that fail
        self.fault_errno = errno.ENOSPC
        self.kind_count = {}
        self.fired_faults = []
        self.crash_mid_write = None
        self.do_crash = None
        self.open_write_files = set()

    # -- plumbing -------------------------------------------------------------------------
    def inside(self, path):
        return isinstance(path, str) and path.startswith(self.root)

    def op(self, kind, path):
        self.ops += 1
        self.op_log.append((kind, _real_os.path.basename(path)))
        if self.on_op is not None:
            self.on_op(kind, path)

    def note_change(self, path):
        if self.on_change is not None:
            self.on_change(path)

    def take_fault(self, kind):
        n = self.kind_count.get(kind, 0) + 1
        self.kind_count[kind] = n
        if n in self.faults.get(kind, ()):
            self.fired_faults.append((kind, n))
            return self.fault_errno
        return 0

    # -- the API MPF sees -----------------------------------------------------------------
    def open(self, path, mode="r", *args, **kwargs):
        if not self.inside(path):
            return io.open(path, mode, *args, **kwargs)
        if "w" in mode:
            if self.frozen:
                return SimFile(self, path, mode)
            self.op("open_w", path)
            fault = self.take_fault("open_w")
            if fault:
                raise _io_error(fault, path)
            self.files[path] = ""
            self.note_change(path)
            f = SimFile(self, path, mode)
            self.open_write_files.add(f)
            return f
        if path not in self.files:
            raise FileNotFoundError(errno.ENOENT, "No such file", path)
        return io.StringIO(self.files[path])

    def replace(self, src, dst):
        if not self.inside(src):
            return _real_os.replace(src, dst)
        if self.frozen:
            return None
        self.op("replace", dst)
        fault = self.take_fault("replace")
        if fault:
            raise _io_error(fault, src)
        if src not in self.files:
            raise FileNotFoundError(errno.ENOENT, "No such file", src)
        self.files[dst] = self.files.pop(src)
        self.note_change(dst)
        return None

    def isfile(self, path):
        if not self.inside(path):
            return _real_os.path.isfile(path)
        return path in self.files

    def makedirs(self, path, *a, **k):
        if not self.inside(path):
            return _real_os.makedirs(path, *a, **k)
        if path in self.dirs:
            raise FileExistsError(errno.EEXIST, "exists", path)
        self.dirs.add(path)
        return None

    def os_shim(self):
        return _OsShim(self)


class _PathShim:

    def __init__(self, fs):
        self._fs = fs

    def isfile(self, p):
        return self._fs.isfile(p)

    def exists(self, p):
        if self._fs.inside(p):
            return p in self._fs.files or p in self._fs.dirs
        return _real_os.path.exists(p)

    def __getattr__(self, name):
        return getattr(_real_os.path, name)


class _OsShim:

    def __init__(self, fs):
        self._fs = fs
        self.path = _PathShim(fs)

    def replace(self, a, b):
        return self._fs.replace(a, b)

    def makedirs(self, p, *a, **k):
        return self._fs.makedirs(p, *a, **k)

    def __getattr__(self, name):
        return getattr(_real_os, name)
