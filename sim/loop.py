"""SimLoop: a virtual-time asyncio event loop whose scheduling decisions come from the tape.

Decision points (all drawn from the chooser, tag prefix "loop."):
  * stall   - when the loop is idle and jumps to the next deadline it may land late
              (a busy host); every timer that became due meanwhile runs in deadline order.
  * tie     - timers with an identical deadline are run in a tape-chosen permutation.
  * I/O     - simulated endpoints (serial ports) become readable at scheduled instants.
Deliberately not perturbed: FIFO order of call_soon callbacks.
"""
import asyncio
import heapq
from asyncio import base_events, events

_MIN_SCHEDULED_TIMER_HANDLES = 100
_MIN_CANCELLED_TIMER_HANDLES_FRACTION = 0.5


class SimDeadlock(Exception):
    """Nothing is runnable, nothing is scheduled, and somebody is still waiting."""


class StepLimit(Exception):
    """The run exceeded its step budget (harness error, never a pass)."""


class SimLoop(base_events.BaseEventLoop):

    STALLS = (1e-6, 1e-3, 0.01, 0.05, 0.2, 0.5, 1.0, 3.0)

    def __init__(self, chooser=None, start_time=0.0):
        super().__init__()
        self._time = float(start_time)
        self._clock_resolution = 1e-9
        self.ch = chooser.sub("loop") if chooser is not None else None
        self.p_stall = 0.0
        self.max_stall_index = len(self.STALLS) - 1
        self.shuffle_ties = False
        self.stall_enabled = True        # scenarios can switch stalls off for a phase
        self.steps = 0
        self.max_steps = 2_000_000
        self.stat_stalls = 0
        self.stat_ties = 0
        self.stat_timers = 0
        self.stat_callbacks = 0
        self._endpoints = {}             # fd object -> [reader handle, writer handle]
        self.on_idle_deadlock = None
        self.after_callback = None       # invariant hook: called after every callback (what any observer can see)
        self.last_stall = 0.0            # size of the stall applied in the current iteration
        self.stall_log = []              # (nominal time, landed time)

    # -- time ---------------------------------------------------------------------
    def time(self):
        return self._time

    # -- I/O registration (objects act as their own "fd") -----------------------
    def add_reader(self, fd, callback, *args):
        self._check_closed()
        h = events.Handle(callback, args, self)
        ent = self._endpoints.setdefault(fd, [None, None])
        if ent[0] is not None:
            ent[0].cancel()
        ent[0] = h

    _add_reader = add_reader

    def remove_reader(self, fd):
        ent = self._endpoints.get(fd)
        if not ent or ent[0] is None:
            return False
        ent[0].cancel()
        ent[0] = None
        if ent[1] is None:
            del self._endpoints[fd]
        return True

    _remove_reader = remove_reader

    def add_writer(self, fd, callback, *args):
        self._check_closed()
        h = events.Handle(callback, args, self)
        ent = self._endpoints.setdefault(fd, [None, None])
        if ent[1] is not None:
            ent[1].cancel()
        ent[1] = h

    _add_writer = add_writer

    def remove_writer(self, fd):
        ent = self._endpoints.get(fd)
        if not ent or ent[1] is None:
            return False
        ent[1].cancel()
        ent[1] = None
        if ent[0] is None:
            del self._endpoints[fd]
        return True

    _remove_writer = remove_writer

    def _poll_io(self):
        if not self._endpoints:
            return
        now = self._time
        for fd, (rd, wr) in list(self._endpoints.items()):
            if rd is not None and not rd._cancelled and fd.sim_read_ready(now):
                self._ready.append(rd)
            if wr is not None and not wr._cancelled and fd.sim_write_ready(now):
                self._ready.append(wr)

    def _next_io_time(self):
        best = None
        for fd, (rd, wr) in self._endpoints.items():
            if rd is None:
                continue
            t = fd.sim_next_event_time()
            if t is not None and (best is None or t < best):
                best = t
        return best

    # -- things BaseEventLoop expects ---------------------------------------------
    def _write_to_self(self):
        pass

    def _process_events(self, event_list):
        pass

    def _timer_handle_cancelled(self, handle):
        if handle._scheduled:
            self._timer_cancelled_count += 1

    # -- the scheduler ------------------------------------------------------------
    def _run_once(self):
        self.steps += 1
        if self.steps > self.max_steps:
            raise StepLimit("more than %d loop iterations" % self.max_steps)
        sched = self._scheduled
        sched_count = len(sched)
        if (sched_count > _MIN_SCHEDULED_TIMER_HANDLES and
                self._timer_cancelled_count / sched_count > _MIN_CANCELLED_TIMER_HANDLES_FRACTION):
            new = []
            for h in sched:
                if h._cancelled:
                    h._scheduled = False
                else:
                    new.append(h)
            heapq.heapify(new)
            self._scheduled = sched = new
            self._timer_cancelled_count = 0
        else:
            while sched and sched[0]._cancelled:
                self._timer_cancelled_count -= 1
                h = heapq.heappop(sched)
                h._scheduled = False

        self._poll_io()
        self.last_stall = 0.0
        if not self._ready and not self._stopping:
            nxt = sched[0]._when if sched else None
            io_t = self._next_io_time()
            if io_t is not None and (nxt is None or io_t < nxt):
                nxt = io_t
            if nxt is None:
                if self.on_idle_deadlock is not None:
                    self.on_idle_deadlock()
                raise SimDeadlock("nothing ready and nothing scheduled at t=%r" % self._time)
            target = nxt
            ch = self.ch
            if ch is not None and self.stall_enabled and self.p_stall > 0 and ch.flag("stall", self.p_stall):
                d = self.STALLS[ch.choice("stall_len", self.max_stall_index + 1)]
                target = max(nxt, self._time) + d
                self.last_stall = d
                self.stat_stalls += 1
                self.stall_log.append((nxt, target))
            if target > self._time:
                self._time = target
            self._poll_io()

        end_time = self._time + self._clock_resolution
        due = None
        while sched:
            h = sched[0]
            if h._when >= end_time:
                break
            heapq.heappop(sched)
            h._scheduled = False
            if h._cancelled:
                self._timer_cancelled_count -= 1
                continue
            if due is None:
                due = []
            due.append(h)
        if due:
            self.stat_timers += len(due)
            if self.shuffle_ties and self.ch is not None and len(due) > 1:
                due = self._shuffle_ties(due)
            self._ready.extend(due)

        ntodo = len(self._ready)
        for _ in range(ntodo):
            h = self._ready.popleft()
            if h._cancelled:
                continue
            self.stat_callbacks += 1
            # a timer popped because it is due within the clock resolution must never observe a clock
            # reading before its own deadline (in real time the clock has moved on by then)
            w = getattr(h, "_when", None)
            if w is not None and w > self._time:
                self._time = w
            h._run()
            if self.after_callback is not None:
                self.after_callback()
        h = None

    def _shuffle_ties(self, due):
        out = []
        i = 0
        n = len(due)
        while i < n:
            j = i + 1
            w = due[i]._when
            while j < n and due[j]._when == w:
                j += 1
            if j - i > 1:
                grp = due[i:j]
                perm = self.ch.shuffle_perm("tie", len(grp))
                if perm != list(range(len(grp))):
                    self.stat_ties += 1
                out.extend(grp[k] for k in perm)
            else:
                out.append(due[i])
            i = j
        return out

    # -- helpers for drivers --------------------------------------------------------
    def pending_timer_times(self):
        return sorted(h._when for h in self._scheduled if not h._cancelled)

    def run_for(self, delta):
        """Run everything scheduled within the next `delta` simulated seconds."""
        self.run_until_complete(asyncio.sleep(delta))

    def run_quiet(self, delta):
        """Like run_for but with stalls switched off (used for settle phases)."""
        old = self.stall_enabled
        self.stall_enabled = False
        try:
            self.run_for(delta)
        finally:
            self.stall_enabled = old
