"""Command line of the checks (invoked through /verif/check)."""
import argparse
import os
import shutil
import sys
import tempfile


def main(argv=None):
    ap = argparse.ArgumentParser()
    ap.add_argument("target")
    ap.add_argument("--tier", default=os.environ.get("VERIF_TIER", "quick"), choices=["quick", "thorough"])
    ap.add_argument("--seed", type=int, default=int(os.environ.get("VERIF_SEED", "0")))
    ap.add_argument("--runs", type=int, default=None)
    ap.add_argument("--budget", type=float, default=None)
    ap.add_argument("--jobs", type=int, default=int(os.environ.get("VERIF_JOBS", "0")) or None)
    ap.add_argument("--replay", default=None)
    ap.add_argument("--ignore-known", action="store_true")
    args = ap.parse_args(argv)

    # private TMPDIR, removed on exit: nothing of a run survives in /tmp
    tmp = tempfile.mkdtemp(prefix="verif-")
    os.environ["TMPDIR"] = tmp
    tempfile.tempdir = tmp
    try:
        from sim import ensure_repo_import
        ensure_repo_import()
        from sim import harness
        if args.target == "selftest":
            from sim import selftest
            return selftest.main(args)
        name = harness.find_check_module(args.target)
        check = harness.load_check(name)
        if args.replay:
            return harness.replay_file(check, args.replay, ignore_known=args.ignore_known)
        print("VERIF_SEED=%d property=%s tier=%s" % (args.seed, check.ID, args.tier))
        sys.stdout.flush()
        return harness.run_check(check, args.tier, args.seed, args.jobs, runs=args.runs, budget=args.budget,
                                 ignore_known=args.ignore_known)
    finally:
        shutil.rmtree(tmp, ignore_errors=True)


if __name__ == "__main__":
    sys.exit(main())
