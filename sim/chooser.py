"""The tape: the only source of randomness in a simulated run.

A Chooser hands out values per *tag*.  In generate mode every tag has its own PRNG derived
from (seed, tag), and every value handed out is appended to the tape of that tag.  In
replay mode values are read back from the per-tag tapes; when a tape is exhausted, or a
recorded value no longer fits the request, the tag's *neutral* value is returned ("no
fault", "first option", "minimum").  A run is therefore a pure function of
(plan, tapes, code under /repo).
"""
import random


class Chooser:

    def __init__(self, seed=None, tapes=None, neutral_tags=()):
        self.seed = seed
        self.replay = tapes is not None
        self._in = {k: list(v) for k, v in (tapes or {}).items()}
        self._pos = {}
        self._rng = {}
        self.tapes = {}          # what was actually handed out (recorded in both modes)
        self.neutral_tags = set(neutral_tags)

    # -- internals -----------------------------------------------------------------
    def _r(self, tag):
        r = self._rng.get(tag)
        if r is None:
            r = self._rng[tag] = random.Random("%s/%s" % (self.seed, tag))
        return r

    def _next(self, tag, gen, neutral, valid):
        if self._is_neutral(tag):
            v = neutral
        elif self.replay:
            i = self._pos.get(tag, 0)
            tape = self._in.get(tag)
            if tape is not None and i < len(tape) and valid(tape[i]):
                v = tape[i]
            else:
                v = neutral
            self._pos[tag] = i + 1
        else:
            v = gen(self._r(tag))
        self.tapes.setdefault(tag, []).append(v)
        return v

    def _is_neutral(self, tag):
        if not self.neutral_tags:
            return False
        if tag in self.neutral_tags:
            return True
        head = tag.split(".", 1)[0]
        return head in self.neutral_tags

    # -- public --------------------------------------------------------------------
    def choice(self, tag, n, neutral=0):
        """Integer in [0, n)."""
        if n <= 1:
            return 0
        return self._next(tag, lambda r: r.randrange(n), neutral,
                          lambda v: isinstance(v, int) and 0 <= v < n)

    def pick(self, tag, seq, neutral=0):
        return seq[self.choice(tag, len(seq), neutral)]

    def weighted(self, tag, pairs):
        """pairs: [(item, weight), ...]; the neutral value is the first item."""
        total = sum(w for _, w in pairs)

        def gen(r):
            x = r.random() * total
            acc = 0
            for i, (_, w) in enumerate(pairs):
                acc += w
                if x < acc:
                    return i
            return len(pairs) - 1
        i = self._next(tag, gen, 0, lambda v: isinstance(v, int) and 0 <= v < len(pairs))
        return pairs[i][0]

    def flag(self, tag, p):
        """True with probability p; neutral is False."""
        if p <= 0:
            return False
        return bool(self._next(tag, lambda r: 1 if r.random() < p else 0, 0, lambda v: v in (0, 1)))

    def randint(self, tag, lo, hi, neutral=None):
        """Integer in [lo, hi] inclusive."""
        if neutral is None:
            neutral = lo
        if hi <= lo:
            return lo
        return self._next(tag, lambda r: r.randint(lo, hi), neutral,
                          lambda v: isinstance(v, int) and lo <= v <= hi)

    def uniform(self, tag, lo, hi, neutral=None):
        if neutral is None:
            neutral = lo
        return self._next(tag, lambda r: r.uniform(lo, hi), neutral,
                          lambda v: isinstance(v, (int, float)) and lo <= v <= hi)

    def shuffle_perm(self, tag, n):
        """Return a permutation of range(n); neutral is the identity."""
        out = list(range(n))
        for i in range(n - 1, 0, -1):
            j = self.randint(tag, 0, i, neutral=i)
            out[i], out[j] = out[j], out[i]
        return out

    def sub(self, prefix):
        return SubChooser(self, prefix)


class SubChooser:
    """View of a chooser that prefixes every tag (keeps tag streams of components apart)."""

    def __init__(self, parent, prefix):
        self._p = parent
        self._pre = prefix + "."

    def __getattr__(self, name):
        fn = getattr(self._p, name)
        if name in ("choice", "pick", "weighted", "flag", "randint", "uniform", "shuffle_perm"):
            pre = self._pre

            def wrapped(tag, *a, **k):
                return fn(pre + tag, *a, **k)
            return wrapped
        return fn

    def sub(self, prefix):
        return SubChooser(self._p, self._pre + prefix)
