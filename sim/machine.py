"""Boot an unmodified MPF MachineController on a SimLoop.

Uses the seams MPF already offers: MachineController._load_clock(), create_data_manager(),
the config loader, and `hardware: platform:` / `mpf: platforms:` class paths.
"""
import asyncio
import copy
import datetime
import logging
import os
import pickle
import random
import uuid

from sim import ensure_repo_import, VERIF

ensure_repo_import()

from mpf.core.clock import ClockBase                               # noqa: E402
from mpf.core.config_loader import YamlMultifileConfigLoader, MpfConfig   # noqa: E402
from mpf.core.data_manager import DataManager                      # noqa: E402
from mpf.core.logging import LogMixin                              # noqa: E402
from mpf.core.machine import MachineController                     # noqa: E402
from mpf.core.utility_functions import Util                        # noqa: E402
import mpf.core                                                    # noqa: E402
import mpf.core.config_validator                                   # noqa: E402

from sim.loop import SimLoop                                       # noqa: E402

EPOCH0 = 1_700_000_000.0     # simulated wall clock at t=0 (2023-11-14), far from 0 on purpose


class MpfCrashed(Exception):
    """An exception reached the loop's exception handler (MPF would stop)."""

    def __init__(self, context):
        self.context = context
        exc = context.get("exception")
        super().__init__("%s: %r" % (context.get("message"), exc))
        self.exc = exc


class SimClock(ClockBase):

    def __init__(self, loop):
        self._sim_loop = loop
        super().__init__()
        self.skew = 0.0
        self.serials = {}       # url -> SimSerial
        self.sockets = {}

    def _create_event_loop(self):
        return self._sim_loop

    def get_datetime(self):
        return datetime.datetime.fromtimestamp(EPOCH0 + self.get_time() + self.skew)

    async def open_serial_connection(self, limit=None, **kwargs):
        from serial_asyncio import SerialTransport
        if not limit:
            limit = asyncio.streams._DEFAULT_LIMIT
        url = kwargs["url"]
        if url not in self.serials:
            raise AssertionError("no simulated serial endpoint for %s" % url)
        ser = self.serials[url]
        if not kwargs.get("do_not_open", False):
            ser.open()
        reader = asyncio.StreamReader(limit=limit, loop=self.loop)
        protocol = asyncio.StreamReaderProtocol(reader, loop=self.loop)
        transport = SerialTransport(self.loop, protocol, ser)
        writer = asyncio.StreamWriter(transport, protocol, reader, self.loop)
        return reader, writer

    async def open_connection(self, host=None, port=None, *, limit=None, **kwds):
        raise AssertionError("TCP is not simulated through the clock; checks feed StreamReaders directly")

    async def start_server(self, client_connected_cb, host=None, port=None, **kwd):
        raise AssertionError("TCP servers are not simulated")


class MemDataManager(DataManager):
    """In-memory data manager (same shape as mpf.tests.TestDataManager, but in /verif)."""

    def __init__(self, data):     # pylint: disable=super-init-not-called
        self.data = data
        self.written_data = None
        self.saves = 0

    def _trigger_save(self):
        self.written_data = copy.deepcopy(self.data)
        self.saves += 1


class SimConfigLoader(YamlMultifileConfigLoader):

    def __init__(self, machine_path, configfiles, defaults, patches):
        # load_cache=False, store_cache=False: never read or write $TMPDIR/*.mpf_cache
        super().__init__(machine_path, configfiles, False, False)
        self._defaults = defaults
        self._patches = patches

    def _load_mpf_machine_config(self, config_spec):
        config = super()._load_mpf_machine_config(config_spec)
        config["mpf"]["core_modules"].pop("text_ui", None)
        return config


class SimMachineController(MachineController):

    def __init__(self, options, config, clock, mock_data, data_manager_factory=None):
        self._sim_clock = clock
        self._mock_data = mock_data
        self._dm_factory = data_manager_factory
        self.sim_data_managers = {}
        super().__init__(options, config)

    def create_data_manager(self, config_name):
        if self._dm_factory is not None:
            dm = self._dm_factory(self, config_name)
            if dm is not None:
                self.sim_data_managers[config_name] = dm
                return dm
        dm = MemDataManager(self._mock_data.get(config_name, {}))
        self.sim_data_managers[config_name] = dm
        return dm

    def _load_clock(self):
        return self._sim_clock

    def _register_plugin_config_players(self):
        pass


_uuid_counter = [0]


def _det_uuid4():
    _uuid_counter[0] += 1
    return uuid.UUID(int=(0x5eed << 96) | _uuid_counter[0])


def install_global_determinism(seed):
    """uuid4 -> counter, random -> seeded.  (str hashing / addresses are handled by the runner.)"""
    _uuid_counter[0] = 0
    uuid.uuid4 = _det_uuid4
    random.seed("mpf-sim-%s" % seed)


def machine_dir(name):
    """Resolve a machine name: a directory under /verif/machines, or a path inside the repo's test machines."""
    if os.path.isabs(name):
        return name
    p = os.path.join(VERIF, "machines", name)
    if os.path.isdir(p):
        return p
    p2 = os.path.join(os.path.dirname(mpf.core.__path__[0]), "tests", "machine_files", name)
    if os.path.isdir(p2):
        return p2
    raise FileNotFoundError(name)


_BASE_CONFIGS = {}


def preload(machine, config_files=("config.yaml",)):
    """Parse the YAML files of a machine once (in the zygote); children unpickle a private copy.

    Nothing is cached across invocations of a check: the zygote parses /repo's and /verif's
    current files every time a check command starts.
    """
    key = (machine, tuple(config_files))
    if key not in _BASE_CONFIGS:
        loader = SimConfigLoader(machine_dir(machine), list(config_files), None, None)
        cfg = loader.load_mpf_config()
        _BASE_CONFIGS[key] = (cfg.get_config_spec(),
                              pickle.dumps((cfg._machine_config, cfg._mode_config, cfg._show_config),
                                           protocol=pickle.HIGHEST_PROTOCOL),
                              cfg.get_machine_path(), cfg.get_mpf_path())
    return _BASE_CONFIGS[key]


def load_config(machine, config_files, defaults, patches, mode_patches=None):
    spec, blob, mpath, mpf_path = preload(machine, config_files)
    machine_config, mode_config, show_config = pickle.loads(blob)
    if defaults:
        machine_config = Util.dict_merge(defaults, machine_config, deepcopy_both=False)
    if patches:
        machine_config = Util.dict_merge(machine_config, patches, False, deepcopy_both=False)
    for mname, mp in (mode_patches or {}).items():
        mode_config[mname] = Util.dict_merge(mode_config[mname], mp, False, deepcopy_both=False)
    return MpfConfig(spec, machine_config, mode_config, show_config, mpath, mpf_path)


class Sim:
    """One simulated MPF process: loop + clock + machine."""

    def __init__(self, chooser, machine, config_files=("config.yaml",), platform="virtual",
                 patches=None, defaults=None, mock_data=None, data_manager_factory=None,
                 pre_boot=None, start_time=0.0, bcp=False, production=False, mode_patches=None,
                 unit_test=True):
        self.ch = chooser
        self.loop = SimLoop(chooser, start_time=start_time)
        asyncio.set_event_loop(self.loop)
        self.crash = None
        self.loop.set_exception_handler(self._exception_handler)
        self.clock = SimClock(self.loop)
        # unit_test=True mimics the test suite (info logging on, some code paths re-raise instead of warn);
        # unit_test=False is what a real machine runs
        LogMixin.unit_test = unit_test
        logging.basicConfig(level=99)
        logging.disable(logging.CRITICAL)

        p = {"mpf": {"default_platform_hz": 100, "plugins": []}, "bcp": []}
        if platform == "simhw":
            p["mpf"]["platforms"] = {"simhw": "sim.platform.SimPlatform"}
        if patches:
            p = Util.dict_merge(p, patches, deepcopy_both=True)
        d = {"playfields": {"playfield": {"tags": "default", "default_source_device": None}}}
        if defaults:
            d = Util.dict_merge(d, defaults, deepcopy_both=True)
        config = load_config(machine, config_files, d, p, mode_patches)
        mpfconfig = os.path.abspath(os.path.join(mpf.core.__path__[0], os.pardir, "mpfconfig.yaml"))
        options = {
            "force_platform": platform, "production": production, "mpfconfigfile": mpfconfig,
            "configfile": list(config_files), "debug": False, "bcp": bcp, "no_load_cache": True,
            "platform_integration_test": False, "create_config_cache": False, "text_ui": False,
        }
        self.machine = SimMachineController(options, config, self.clock, mock_data or {},
                                            data_manager_factory)
        self.machine.sim = self
        if pre_boot:
            pre_boot(self)
        self.booted = False

    # -- lifecycle ------------------------------------------------------------------
    def _exception_handler(self, loop, context):
        if self.crash is None:
            self.crash = context
        try:
            loop.stop()
        except RuntimeError:
            pass

    def check_crash(self):
        if self.crash is not None:
            c, self.crash = self.crash, None
            raise MpfCrashed(c)

    def boot(self, max_iterations=200000):
        init = asyncio.ensure_future(self.machine.initialize(), loop=self.loop)
        old_stall = self.loop.stall_enabled
        self.loop.stall_enabled = False
        n = 0
        asyncio.events._set_running_loop(self.loop)
        try:
            while not init.done() and self.crash is None:
                self.loop._run_once()
                n += 1
                if n > max_iterations:
                    raise AssertionError("boot did not finish")
        finally:
            asyncio.events._set_running_loop(None)
        self.check_crash()
        init.result()
        self.machine.events.process_event_queue()
        self.run(0.001)
        self.loop.stall_enabled = old_stall
        self.booted = True
        return self

    def run(self, delta):
        """Advance simulated time by delta seconds, running everything that becomes due."""
        try:
            self.loop.run_until_complete(asyncio.sleep(delta))
        except RuntimeError:
            # loop stopped by the exception handler
            self.check_crash()
            raise
        self.check_crash()

    def run_until(self, t):
        d = t - self.loop.time()
        self.run(d if d > 0 else 0)

    def run_quiet(self, delta):
        old = self.loop.stall_enabled
        self.loop.stall_enabled = False
        try:
            self.run(delta)
        finally:
            self.loop.stall_enabled = old

    def at(self, when, fn, *args):
        """Schedule an external stimulus as an ordinary timer (it takes part in tie order)."""
        return self.loop.call_at(when, fn, *args)

    def after(self, delay, fn, *args):
        return self.loop.call_at(self.loop.time() + delay, fn, *args)

    @property
    def now(self):
        return self.loop.time()

    @property
    def hw(self):
        """The SimPlatform instance (only with platform="simhw")."""
        return self.machine.hardware_platforms["simhw"]

    def late_ok(self, deadline, now=None, tol=1e-9):
        """Is something due at `deadline` and processed `now` on time, or late only because of an injected stall?

        On time: now == deadline.  Late: only acceptable when the loop landed late at exactly `now`
        (time is frozen at the landing instant until everything that became due has been processed).
        """
        if now is None:
            now = self.loop.time()
        if now + tol < deadline:
            return False
        if now - deadline <= tol:
            return True
        sl = self.loop.stall_log
        return bool(sl) and abs(sl[-1][1] - now) <= tol

    def post(self, event, **kwargs):
        self.machine.events.post(event, **kwargs)

    def hit_switch(self, name, state=1, logical=True):
        self.machine.switch_controller.process_switch(name, state=state, logical=logical)

    def stop(self):
        try:
            self.machine.stop()
        except Exception:   # pylint: disable=broad-except
            pass
