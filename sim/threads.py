"""Baton scheduling of real Python threads under the SimLoop.

MPF's DataManager starts a real background thread per data file.  Here such a thread is a real
thread, but it only ever runs while the loop thread is parked, and it hands the baton back at every
intercepted call (time.sleep, Event.wait/set/clear/is_set, every file operation).  Its wake-ups are
ordinary SimLoop timers, so the seeded scheduler decides every interleaving between the writer
threads and the loop thread, and simulated time is the only time there is.

Shims (installed by `install(module)` onto a module's `time`, `threading`, `_thread` attributes):
  time.sleep(s)            -> resume at now+s
  threading.Event          -> SimEvent (wait with timeout in simulated time)
  _thread.start_new_thread -> a baton-controlled thread
"""
import threading as _real_threading
import time as _real_time
import traceback


class SimKilled(BaseException):
    """Raised inside a simulated thread when the simulated process crashes (not an Exception on purpose)."""


class SimThread:

    def __init__(self, sched, fn, args, name):
        self.sched = sched
        self.fn = fn
        self.args = args
        self.name = name
        self.go = _real_threading.Semaphore(0)
        self.finished = False
        self.error = None
        self.waiting_on = None      # SimEvent or None
        self.wake_handle = None
        self.steps = 0
        self.thread = _real_threading.Thread(target=self._main, name=name, daemon=True)
        self.ident = None

    def _main(self):
        self.ident = _real_threading.get_ident()
        self.sched.by_ident[self.ident] = self
        self.go.acquire()
        try:
            if self.sched.killed:
                raise SimKilled()
            self.fn(*self.args)
        except SimKilled:
            pass
        except BaseException as e:      # pylint: disable=broad-except
            self.error = (e, traceback.format_exc())
        finally:
            self.finished = True
            self.sched.back.release()


class BatonScheduler:

    YIELD_DELAYS = (0.001, 0.02, 0.3)

    def __init__(self, loop, chooser, ctx=None):
        self.loop = loop
        self.ch = chooser.sub("thr")
        self.ctx = ctx
        self.threads = []
        self.by_ident = {}
        self.back = _real_threading.Semaphore(0)
        self.killed = False
        self.main_ident = _real_threading.get_ident()
        self.on_step = None             # callback(thread) after every step of a simulated thread
        self.p_yield = 0.35             # probability that a non-blocking intercepted call gives up the baton
        self.stat_steps = 0
        self.stat_preempts = 0

    # -- called on the loop thread -------------------------------------------------------------
    def start_new_thread(self, fn, args=(), kwargs=None):
        th = SimThread(self, fn, args, "simthread-%d" % len(self.threads))
        self.threads.append(th)
        th.thread.start()
        if self.current() is None:
            self.loop.call_soon(self._resume, th)
        else:
            self.loop.call_soon(self._resume, th)
        return len(self.threads)

    def _resume(self, th):
        """Loop callback: let `th` run until its next yield; the loop thread is parked meanwhile."""
        if th.finished:
            return
        th.wake_handle = None
        if th.waiting_on is not None:
            th.waiting_on.waiters.discard(th)
            th.waiting_on = None
        self.stat_steps += 1
        th.steps += 1
        th.go.release()
        if not self.back.acquire(timeout=60):
            raise RuntimeError("simulated thread %s did not hand the baton back within 60 s wall" % th.name)
        if th.error is not None and not self.killed:
            e, tb = th.error
            th.error = None
            self.thread_died(th, e, tb)
        if self.on_step is not None:
            self.on_step(th)

    def thread_died(self, th, exc, tb):
        raise RuntimeError("simulated thread %s died: %r\n%s" % (th.name, exc, tb))

    def kill_all(self):
        """Simulated process crash: every simulated thread unwinds with SimKilled at its current yield point."""
        self.killed = True
        for th in self.threads:
            if th.finished:
                continue
            if th.wake_handle is not None:
                th.wake_handle.cancel()
                th.wake_handle = None
            th.go.release()
            self.back.acquire(timeout=60)

    def all_finished(self):
        return all(t.finished for t in self.threads)

    # -- called on simulated threads -----------------------------------------------------------
    def current(self):
        return self.by_ident.get(_real_threading.get_ident())

    def _park(self, th):
        """Hand the baton back to the loop thread and wait for the next resume."""
        self.back.release()
        th.go.acquire()
        if self.killed:
            raise SimKilled()

    def sleep(self, secs):
        th = self.current()
        if th is None:
            # the loop thread must never block in real time
            raise RuntimeError("time.sleep(%r) on the loop thread" % secs)
        th.wake_handle = self.loop.call_at(self.loop.time() + max(0.0, secs), self._resume, th)
        self._park(th)

    def yield_point(self, kind):
        """A non-blocking intercepted call on a simulated thread: maybe give up the baton."""
        th = self.current()
        if th is None:
            return
        if self.killed:
            raise SimKilled()
        if not self.ch.flag("yield", self.p_yield):
            return
        self.stat_preempts += 1
        how = self.ch.choice("yield_how", 1 + len(self.YIELD_DELAYS))
        if how == 0:
            th.wake_handle = None
            self.loop.call_soon(self._resume, th)
        else:
            th.wake_handle = self.loop.call_at(self.loop.time() + self.YIELD_DELAYS[how - 1], self._resume, th)
        self._park(th)


class SimEvent:
    """threading.Event in simulated time."""

    sched = None        # set by install()

    def __init__(self):
        self._flag = False
        self.waiters = set()

    def is_set(self):
        self.sched.yield_point("is_set")
        return self._flag

    isSet = is_set

    def set(self):
        self.sched.yield_point("set")
        self._flag = True
        for th in sorted(self.waiters, key=lambda t: t.name):
            if th.wake_handle is not None:
                th.wake_handle.cancel()
            th.wake_handle = None
            self.sched.loop.call_soon(self.sched._resume, th)
        self.waiters.clear()

    def clear(self):
        self.sched.yield_point("clear")
        self._flag = False

    def wait(self, timeout=None):
        s = self.sched
        th = s.current()
        if th is None:
            raise RuntimeError("Event.wait on the loop thread")
        if self._flag:
            s.yield_point("wait_set")
            return True
        self.waiters.add(th)
        th.waiting_on = self
        if timeout is not None:
            th.wake_handle = s.loop.call_at(s.loop.time() + timeout, s._resume, th)
        s._park(th)
        return self._flag


class SimLock:
    """threading.Lock under the baton scheduler (a simulated thread that finds it held parks until release)."""

    def __init__(self, sched):
        self.sched = sched
        self.owner = None
        self.waiters = []

    def acquire(self, blocking=True, timeout=-1):
        s = self.sched
        th = s.current()
        s.yield_point("lock_acquire")
        deadline = None if timeout is None or timeout < 0 else s.loop.time() + timeout
        while self.owner is not None:
            if not blocking:
                return False
            if th is None:
                raise RuntimeError("loop thread would block on a lock held by a simulated thread")
            if deadline is not None and s.loop.time() >= deadline:
                return False
            s.stat_lock_waits = getattr(s, "stat_lock_waits", 0) + 1
            self.waiters.append(th)
            if deadline is not None:
                th.wake_handle = s.loop.call_at(deadline, self._timed_out, th)
            s._park(th)
        self.owner = th if th is not None else "loop"
        return True

    def _timed_out(self, th):
        if th in self.waiters:
            self.waiters.remove(th)
            self.sched._resume(th)

    def release(self):
        self.owner = None
        if self.waiters:
            th = self.waiters.pop(0)
            if getattr(th, "wake_handle", None) is not None:
                th.wake_handle.cancel()
                th.wake_handle = None
            self.sched.loop.call_soon(self.sched._resume, th)

    def locked(self):
        return self.owner is not None

    def __enter__(self):
        self.acquire()
        return self

    def __exit__(self, *exc):
        self.release()
        return False


def replace_locks(obj, sched):
    """Replace real threading.Lock objects stored as attributes of `obj` (e.g. a class) by SimLocks."""
    lock_type = type(_real_threading.Lock())
    n = 0
    for name, val in list(vars(obj).items()):
        if isinstance(val, lock_type):
            setattr(obj, name, SimLock(sched))
            n += 1
    return n


class _TimeShim:

    def __init__(self, sched):
        self._s = sched

    def sleep(self, secs):
        self._s.sleep(secs)

    def time(self):
        return self._s.loop.time()

    def __getattr__(self, name):
        return getattr(_real_time, name)


class _ThreadingShim:

    def __init__(self, sched):
        cls = type("SimEventBound", (SimEvent,), {"sched": sched})
        self.Event = cls
        self.Lock = lambda: SimLock(sched)

    def __getattr__(self, name):
        return getattr(_real_threading, name)


class _ThreadShim:

    def __init__(self, sched):
        self.start_new_thread = sched.start_new_thread


def install(module, sched):
    """Replace module.time / module.threading / module._thread by simulated versions."""
    if hasattr(module, "time"):
        module.time = _TimeShim(sched)
    if hasattr(module, "threading"):
        module.threading = _ThreadingShim(sched)
    if hasattr(module, "_thread"):
        module._thread = _ThreadShim(sched)
    return module
