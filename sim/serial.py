"""SimSerial: a simulated serial port behind serial_asyncio.SerialTransport (the real transport, the real
StreamReader/StreamWriter and MPF's real reader/writer tasks run on top of it).

Register endpoints before boot:   sim.clock.serials["com1"] = SimSerial(sim, "com1")
Bytes from the board become readable at scheduled simulated instants; how many bytes one read() returns is a
tape choice (down to 1).  Every write of MPF is time-stamped and handed to `on_write` (the board model).
"""


class SimSerial:

    def __init__(self, sim, name, chunking="random"):
        self.sim = sim
        self.loop = sim.loop
        self.name = name
        self.ch = sim.ch.sub("ser." + name)
        self.is_open = False
        self.fd = self
        self.timeout = None
        self.rx = []                # list of [t_available, bytearray] in arrival order
        self.tx_log = []            # (t, bytes) every write MPF made
        self.rx_log = []            # (t, bytes) every chunk handed to MPF
        self.on_write = None        # board model: fn(data)
        self.chunking = chunking    # "random" | "whole" | "single"
        self.max_chunk = 4096
        self.stat_reads = 0
        self.stat_split_reads = 0
        self.closed_count = 0

    # -- feeding data (board -> MPF) ---------------------------------------------------------
    def feed(self, data, delay=0.0):
        """Make `data` readable `delay` simulated seconds from now (FIFO with earlier data)."""
        if not data:
            return
        t = self.loop.time() + delay
        if self.rx and self.rx[-1][0] > t:
            t = self.rx[-1][0]          # a serial line does not reorder
        if self.rx and self.rx[-1][0] == t:
            self.rx[-1][1].extend(data)
        else:
            self.rx.append([t, bytearray(data)])

    def pending_rx(self):
        return sum(len(b) for _, b in self.rx)

    # -- SimLoop endpoint protocol -------------------------------------------------------------
    def sim_read_ready(self, now):
        return bool(self.rx) and self.rx[0][0] <= now and self.is_open

    def sim_write_ready(self, now):
        return True

    def sim_next_event_time(self):
        if self.rx and self.is_open:
            return self.rx[0][0]
        return None

    # -- pyserial API used by serial_asyncio ---------------------------------------------------
    def open(self):
        self.is_open = True

    def close(self):
        self.is_open = False
        self.closed_count += 1

    def fileno(self):
        return self

    def nonblocking(self):
        pass

    def flush(self):
        pass

    def reset_input_buffer(self):
        pass

    def reset_output_buffer(self):
        pass

    @property
    def in_waiting(self):
        now = self.loop.time()
        return sum(len(b) for t, b in self.rx if t <= now)

    @property
    def out_waiting(self):
        return 0

    def read(self, size=1):
        now = self.loop.time()
        avail = bytearray()
        for t, b in self.rx:
            if t <= now:
                avail.extend(b)
            else:
                break
        if not avail:
            return b""
        n = min(len(avail), size, self.max_chunk)
        if self.chunking == "single":
            k = 1
        elif self.chunking == "whole":
            k = n
        else:
            how = self.ch.choice("chunk_how", 4)       # 0: everything, 1: one byte, 2/3: random split
            if how == 0:
                k = n
            elif how == 1:
                k = 1
            else:
                k = self.ch.randint("chunk", 1, n, neutral=n)
        self.stat_reads += 1
        if k < n:
            self.stat_split_reads += 1
        out = bytes(avail[:k])
        # consume k bytes from the queue
        left = k
        while left:
            t, b = self.rx[0]
            if len(b) <= left:
                left -= len(b)
                self.rx.pop(0)
            else:
                del b[:left]
                left = 0
        self.rx_log.append((now, out))
        return out

    def write(self, data):
        data = bytes(data)
        self.tx_log.append((self.loop.time(), data))
        if self.on_write is not None:
            self.on_write(data)
        return len(data)
