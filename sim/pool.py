"""Fork-per-run process pool.

main ──fork──> N worker zygotes ──fork per job──> child (runs exactly one simulation, exits)

The zygotes are forked from the warmed main process before any result is collected, and do
nothing but shuttle bytes, so every child starts from the same heap image regardless of its
position in the batch or of the number of workers.  A child that exceeds the wall limit is
killed and reported as status 'timeout' (a harness error, never a pass).
"""
import json
import os
import select
import signal
import struct
import sys
import time
import traceback


def _read_exact(fd, n):
    buf = b""
    while len(buf) < n:
        chunk = os.read(fd, n - len(buf))
        if not chunk:
            return None
        buf += chunk
    return buf


def _send(fd, obj):
    data = json.dumps(obj, separators=(",", ":"), default=str).encode()
    os.write(fd, struct.pack("<I", len(data)))
    off = 0
    while off < len(data):
        off += os.write(fd, data[off:off + 65536])


def _recv(fd):
    hdr = _read_exact(fd, 4)
    if hdr is None:
        return None
    (n,) = struct.unpack("<I", hdr)
    data = _read_exact(fd, n)
    if data is None:
        return None
    return json.loads(data.decode())


def _child(job, runner, wfd):
    try:
        import faulthandler
        faulthandler.enable()
        res = runner(job)
    except BaseException as e:     # pylint: disable=broad-except
        res = {"status": "error", "rule": "harness", "msg": "%s: %s" % (type(e).__name__, e),
               "trace": traceback.format_exc()[-4000:]}
    try:
        res["job_id"] = job.get("job_id")
        _send(wfd, res)
    finally:
        os._exit(0)


def _zygote(job_r, res_w, runner, wall_limit):
    signal.signal(signal.SIGINT, signal.SIG_IGN)
    while True:
        job = _recv(job_r)
        if job is None:
            os._exit(0)
        r, w = os.pipe()
        pid = os.fork()
        if pid == 0:
            os.close(r)
            os.close(job_r)
            _child(job, runner, w)
        os.close(w)
        deadline = time.time() + job.get("wall_limit", wall_limit)
        hdr = b""
        data = None
        status = None
        # read 4 byte header + payload with a deadline
        buf = b""
        need = 4
        payload_len = None
        while True:
            left = deadline - time.time()
            if left <= 0:
                status = "timeout"
                break
            rl, _, _ = select.select([r], [], [], min(left, 1.0))
            if not rl:
                continue
            chunk = os.read(r, 1 << 16)
            if not chunk:
                status = "died"
                break
            buf += chunk
            if payload_len is None and len(buf) >= 4:
                (payload_len,) = struct.unpack("<I", buf[:4])
            if payload_len is not None and len(buf) >= 4 + payload_len:
                data = buf[4:4 + payload_len]
                break
        os.close(r)
        if data is None:
            try:
                os.kill(pid, signal.SIGKILL)
            except ProcessLookupError:
                pass
        _, wstatus = os.waitpid(pid, 0)
        if data is None:
            res = {"status": "timeout" if status == "timeout" else "error", "rule": "harness",
                   "msg": "child %s (wait status %s)" % (status, wstatus), "job_id": job.get("job_id")}
            data = json.dumps(res).encode()
        os.write(res_w, struct.pack("<I", len(data)))
        off = 0
        while off < len(data):
            off += os.write(res_w, data[off:off + 65536])
        del hdr, buf, data


class Pool:

    def __init__(self, runner, jobs=None, wall_limit=120.0):
        self.n = jobs or min(16, os.cpu_count() or 1)
        self.workers = []       # (pid, job_w, res_r)
        sys.stdout.flush()
        sys.stderr.flush()
        for _ in range(self.n):
            job_r, job_w = os.pipe()
            res_r, res_w = os.pipe()
            pid = os.fork()
            if pid == 0:
                os.close(job_w)
                os.close(res_r)
                for _, jw, rr in self.workers:
                    os.close(jw)
                    os.close(rr)
                try:
                    _zygote(job_r, res_w, runner, wall_limit)
                finally:
                    os._exit(0)
            os.close(job_r)
            os.close(res_w)
            self.workers.append((pid, job_w, res_r))

    def run(self, jobs, on_result=None, stop=None):
        """Run an iterable of job dicts; yields nothing, calls on_result(res, job).

        stop(): optional callable polled between dispatches; when it returns True no new jobs
        are dispatched (jobs in flight are still collected).
        """
        it = iter(jobs)
        busy = {}               # res_r -> (job_w, job)
        idle = [(jw, rr) for _, jw, rr in self.workers]
        results = []
        next_id = [0]
        exhausted = False

        def dispatch():
            nonlocal exhausted
            while idle and not exhausted:
                if stop is not None and stop():
                    exhausted = True
                    break
                try:
                    job = next(it)
                except StopIteration:
                    exhausted = True
                    break
                job = dict(job)
                job["job_id"] = next_id[0]
                next_id[0] += 1
                jw, rr = idle.pop()
                _send(jw, job)
                busy[rr] = (jw, job)
        dispatch()
        while busy:
            rl, _, _ = select.select(list(busy.keys()), [], [], 5.0)
            for rr in rl:
                res = _recv(rr)
                jw, job = busy.pop(rr)
                if res is None:
                    res = {"status": "error", "rule": "harness", "msg": "worker zygote died"}
                else:
                    idle.append((jw, rr))
                if on_result is not None:
                    on_result(res, job)
                else:
                    results.append((res, job))
            dispatch()
        return results

    def close(self):
        for pid, jw, rr in self.workers:
            try:
                os.close(jw)
            except OSError:
                pass
        for pid, jw, rr in self.workers:
            try:
                os.waitpid(pid, 0)
            except ChildProcessError:
                pass
            try:
                os.close(rr)
            except OSError:
                pass
        self.workers = []
