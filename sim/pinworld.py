"""PinWorld: a physical model of balls in a pinball machine behind SimPlatform.

Balls are objects.  A ball is resting in a device (on one of its ball switches, or - for entrance-counted
devices - inside it), in transit between two places, or loose on a playfield.  Inputs are coil commands at
the driver seam; outputs are switch reports through MPF's switch controller at scheduled simulated times.
Outcomes of an eject are limited to those the property names: success (with a transit time), ball falls
back, ball does not leave, late arrival.  Fixed rules (so that an alarm is never the world's fault):
  * nothing happens to a ball without a cause (coil, gravity after a release, player action)
  * a ball never enters a device that is physically full (it bounces back to the playfield)
  * one ball per switch; a resting ball keeps its switch active
  * no teleporting: every movement takes > 0 simulated time
"""


class Ball:
    __slots__ = ("id", "kind", "dev", "switch", "dst", "src", "since", "ambiguous", "stray_until")

    def __init__(self, bid):
        self.id = bid
        self.kind = "dev"       # "dev" | "transit" | "pf"
        self.dev = None         # device name or playfield name
        self.switch = None      # switch object the ball rests on
        self.dst = None
        self.src = None
        self.since = 0.0        # time of arrival at the current place
        self.stray_until = -1.0  # a ball that jumped out of its path lies still until the controller has given it up
        self.ambiguous = False  # in transit, and another ball entered its source meanwhile: to the source's
                                # switches this is indistinguishable from "the ejected ball came back"

    def where(self):
        if self.kind == "transit":
            return "transit:%s>%s" % (self.src, self.dst)
        return "%s:%s" % (self.kind, self.dev)


class DevInfo:
    """Physical description of one ball device, read from its validated config."""

    def __init__(self, dev):
        self.name = dev.name
        self.dev = dev
        cc = dev.ball_count_handler.counter.config
        self.ball_switches = list(cc.get("ball_switches") or [])
        self.jam_switch = cc.get("jam_switch")
        self.entrance_switch = (cc.get("entrance_switch") or [None])[0] if cc.get("entrance_switch") else None
        self.entrance_full_timeout = cc.get("entrance_switch_full_timeout") or 0
        self.capacity = dev.capacity
        ej = dev.ejector
        self.eject_coil = None
        self.hold_coil = None
        if ej is not None:
            self.eject_coil = ej.config.get("eject_coil") if hasattr(ej, "config") else None
            self.hold_coil = ej.config.get("hold_coil") if hasattr(ej, "config") else None
        self.reorder_pulse = (ej.config.get("eject_coil_reorder_pulse") if ej is not None and hasattr(ej, "config") else None)
        self.mechanical = bool(dev.config["mechanical_eject"])
        self.target = dev.config["eject_targets"][0]
        self.confirm_switch = dev.config["confirm_eject_switch"]
        self.captures_from = dev.config["captures_from"]
        self.eject_timeout = dev.config["eject_timeouts"][self.target] / 1000.0
        self.missing_timeout = dev.config["ball_missing_timeouts"][self.target] / 1000.0
        self.entrance_count_delay = (cc.get("entrance_count_delay") or 500) / 1000.0
        self.exit_count_delay = (cc.get("exit_count_delay") or 500) / 1000.0


class PinWorld:

    def __init__(self, sim, ctx, knobs=None):
        self.sim = sim
        self.ctx = ctx
        self.m = sim.machine
        self.rt = sim.ch.sub("pw")
        self.knobs = knobs or {}
        self.balls = []
        self.devs = {}
        self.coil_to_dev = {}
        self.pending = 0            # scheduled physical events not yet executed
        self.faults_enabled = True
        self.eject_log = []         # dicts: t, dev, outcome, ball
        self.coil_log = []          # (t, dev) every eject coil command
        self.on_coil = []           # listeners fn(devinfo, rec) called before the world reacts
        self.stats = {}
        self.last_change = 0.0
        self.switch_busy_until = {}
        self.ambiguous_reentries = 0
        self.ambiguous_devs = set()
        self.confirmed_by_newcomer = {}      # source device -> id of its ball whose (failed) eject a newcomer confirmed
        self.waiting_for_jam_clear = set()   # devices whose shaken balls settle only once the jam ball has left
        self.uncountable_devs = set()   # devices whose count MPF cannot get right for a sensing reason (see _enter)
        self.reentry_at_timeout = 0
        self.exact_late_arrivals = 0
        self.late_targets = set()       # devices that received (or are to receive) a ball later than the eject timeout
        self.last_pf_activity = -1.0    # last playfield switch hit / capture from the playfield (confirms pending ejects)

    # ------------------------------------------------------------------------------------------
    def attach(self):
        m = self.m
        for dev in m.ball_devices.values():
            if dev.is_playfield():
                continue
            info = DevInfo(dev)
            self.devs[dev.name] = info
            if info.eject_coil is not None:
                self.coil_to_dev[str(info.eject_coil.hw_driver.number)] = info
        # initial balls: wherever a ball switch is active after boot
        for info in self.devs.values():
            for sw in info.ball_switches:
                if m.switch_controller.is_active(sw):
                    b = Ball(len(self.balls))
                    b.kind, b.dev, b.switch = "dev", info.name, sw
                    self.balls.append(b)
            if info.entrance_switch is not None and info.entrance_full_timeout and not info.ball_switches and \
                    m.switch_controller.is_active(info.entrance_switch):
                # a full entrance-counted device: its last ball rests on the entrance switch
                for i in range(info.capacity):
                    b = Ball(len(self.balls))
                    b.kind, b.dev = "dev", info.name
                    b.switch = info.entrance_switch if i == info.capacity - 1 else None
                    self.balls.append(b)
        self.sim.hw.driver_listeners.append(self._driver_cmd)

    def stat(self, name):
        self.stats[name] = self.stats.get(name, 0) + 1

    # -- queries -------------------------------------------------------------------------------
    def count(self, devname):
        return sum(1 for b in self.balls if b.kind == "dev" and b.dev == devname)

    def in_transit_to(self, devname):
        return sum(1 for b in self.balls if b.kind == "transit" and b.dst == devname)

    def loose(self, pfname=None, include_stray=True):
        return [b for b in self.balls if b.kind == "pf" and (pfname is None or b.dev == pfname)
                and (include_stray or b.stray_until <= self.sim.now)]

    def total(self):
        return len(self.balls)

    def at_rest(self):
        return self.pending == 0 and not any(b.kind == "transit" for b in self.balls)

    def summary(self):
        return sorted(b.where() for b in self.balls)

    # -- scheduling ----------------------------------------------------------------------------
    def _later(self, delay, fn, *args):
        self.pending += 1

        def run():
            self.pending -= 1
            fn(*args)
        self.sim.after(delay, run)

    def _switch(self, sw, state):
        self.last_change = self.sim.now
        self.ctx.log("sw", sw.name, state, t=self.sim.now)
        self.m.switch_controller.process_switch_obj(sw, state, logical=True)

    # -- coil seam -----------------------------------------------------------------------------
    def _driver_cmd(self, driver, rec):
        info = self.coil_to_dev.get(str(driver.number))
        if info is None:
            return
        if rec["op"] not in ("pulse", "enable", "timed_enable"):
            return
        if info.reorder_pulse and rec["op"] == "pulse" and rec.get("pulse_ms") == info.reorder_pulse:
            # a weak pulse that only shakes the balls: nothing leaves; balls lying between their switches may settle
            self.ctx.log("coil", info.name, "reorder", t=rec["t"])
            self.ctx.probe("reorder_pulse")
            if info.name not in self.waiting_for_jam_clear and \
                    any(b.kind == "dev" and b.dev == info.name and b.switch is None for b in self.balls) and \
                    self.rt.flag("reorder_helps", 0.5):
                self._later(0.3, self._settle, info)
            return
        self.coil_log.append((rec["t"], info.name))
        self.ctx.log("coil", info.name, rec["op"], t=rec["t"])
        for fn in self.on_coil:
            fn(info, rec)
        self._eject(info)

    def _exit_ball(self, info):
        """The ball a firing eject coil acts on: the one on the jam switch, else the lowest occupied ball switch."""
        cands = [b for b in self.balls if b.kind == "dev" and b.dev == info.name]
        if not cands:
            return None
        if info.jam_switch is not None:
            for b in cands:
                if b.switch is info.jam_switch:
                    return b
        order = {sw: i for i, sw in enumerate(info.ball_switches)}
        if info.entrance_switch is not None:
            order[info.entrance_switch] = 100       # the ball resting on the entrance switch is the last one to leave
        cands.sort(key=lambda b: (order.get(b.switch, 99), b.id))
        return cands[0]

    def _eject(self, info):
        ball = self._exit_ball(info)
        if ball is None:
            self.stat("coil_on_empty_device")
            self.eject_log.append({"t": self.sim.now, "dev": info.name, "outcome": "empty", "ball": None})
            return
        p_fail = self.knobs.get("p_eject_fail", 0.0) if self.faults_enabled else 0.0
        outcome = "ok"
        if p_fail and self.rt.flag("eject_fails", p_fail):
            outcome = self.rt.pick("eject_outcome", ["fallback", "stuck", "late"])
            if self.knobs.get("p_stray") and info.target.name in self.devs and self.rt.flag("stray", self.knobs["p_stray"]):
                # the ball jumps out of its path and ends up on the playfield; it lies still there (no switch, no drain)
                # until the source has given it up for lost
                outcome = "stray"
            if info.jam_switch is not None and ball.switch is not info.jam_switch and self.count(info.name) >= 2 and \
                    self.rt.flag("shaken", 0.5):
                # the kicked ball drops back onto the jam switch and the other balls are shaken off their switches:
                # only the jam switch is active until they settle (by themselves or helped by a reorder pulse)
                outcome = "shake"
            if not info.ball_switches:
                # a device that counts only at its entrance cannot sense a ball that stays or drops back inside:
                # those outcomes are indistinguishable from success for any controller, so the world does not
                # produce them there
                outcome = "late"
        self.eject_log.append({"t": self.sim.now, "dev": info.name, "outcome": outcome, "ball": ball.id})
        self.ctx.log("eject", info.name, outcome, ball.id, t=self.sim.now)
        if outcome != "ok":
            self.ctx.fault("eject_" + outcome)
        if outcome == "stuck":
            return
        leave = self.rt.pick("leave_delay", [0.03, 0.02, 0.06, 0.1])
        self._later(leave, self._ball_leaves, ball, info, outcome)

    def _ball_leaves(self, ball, info, outcome):
        if ball.kind != "dev" or ball.dev != info.name:
            return      # already gone (e.g. second pulse acted on the same ball)
        sw = ball.switch
        entered = ball.since
        ball.kind, ball.src, ball.dst, ball.switch = "transit", info.name, info.target.name, None
        ball.since = self.sim.now
        # another ball that entered this device within its count delay (possibly in this very instant) makes the
        # departure invisible or ambiguous to the device's switches, exactly like a ball entering right after it
        ball.ambiguous = any(o is not ball and o.kind == "dev" and o.dev == info.name and
                             self.sim.now - o.since <= max(info.entrance_count_delay, info.exit_count_delay) + 0.1
                             for o in self.balls)
        if self.confirmed_by_newcomer.get(info.name) == ball.id:
            ball.ambiguous = True       # (the coil had fired, a newcomer reached the target before this ball even left)
        if info.ball_switches and self.sim.now - entered <= info.entrance_count_delay + 0.1 and entered > 0:
            # the ball that is kicked out rolled in less than a count delay ago: the device never counted it, so its
            # departure changes nothing the device can see (the balls it did count are still there)
            ball.ambiguous = True
        # arrival ambiguity: another ball reached the target a moment ago and the target has not finished counting it
        # yet; that count completes after this departure and is taken for this ball's arrival
        tinfo = self.devs.get(info.target.name)
        if tinfo is not None and not ball.ambiguous and outcome != "fallback":
            if any(o is not ball and o.kind == "dev" and o.dev == tinfo.name and
                   self.sim.now - o.since <= tinfo.entrance_count_delay + 0.1 for o in self.balls):
                ball.ambiguous = True
                self.ctx.probe("arrival_ambiguity")
        if info.name in self.waiting_for_jam_clear and sw is info.jam_switch and outcome != "shake":
            self.waiting_for_jam_clear.discard(info.name)
            self._later(0.3, self._settle, info)
        for e in reversed(self.eject_log):
            if e["ball"] == ball.id and e["dev"] == info.name:
                if e.get("replunge"):
                    ball.ambiguous = True
                    self.ctx.probe("replunge_during_unconfirmed_eject")
                break
        if sw is not None:
            self._switch(sw, 0)
        elif info.entrance_switch is not None and info.entrance_full_timeout:
            # the remaining balls roll down one position: the ball that rested on the entrance switch rolls off it
            for o in self.balls:
                if o is not ball and o.kind == "dev" and o.dev == info.name and o.switch is info.entrance_switch:
                    self._later(self.rt.pick("roll_off", [0.3, 0.15, 0.5]), self._roll_off, o, info)
        if outcome == "stray":
            pfname = self.devs[info.target.name].captures_from.name
            ball.dst = pfname
            ball.stray_until = self.sim.now + info.eject_timeout + info.missing_timeout + 2.0
            self.ctx.probe("ball_strays_to_playfield")
            self._later(0.4, self._arrive, ball, pfname, False)
            self._later(info.eject_timeout + info.missing_timeout + 2.0, lambda: None)
            return
        if outcome == "shake":
            ball.dst = info.name
            for o in self.balls:
                if o is not ball and o.kind == "dev" and o.dev == info.name and o.switch is not None \
                        and o.switch is not info.jam_switch:
                    self._switch(o.switch, 0)
                    o.switch = None
            self.ctx.probe("balls_shaken_off_switches")
            self._later(min(0.3, info.eject_timeout * 0.8), self._arrive, ball, info.name, True)
            if self.rt.flag("rests_on_jam_ball", 0.4):
                # the next ball rests on top of the jammed one: it cannot reach its switch before the jam ball is gone
                self.ctx.probe("ball_rests_on_jammed_ball")
                self.waiting_for_jam_clear.add(info.name)
            else:
                self._later(self.rt.pick("settle_after", [1.0, 4.0, 9.0, 0.6]), self._settle, info)
            return
        if outcome == "fallback":
            ball.dst = info.name
            # a ball that falls back does so within the device's eject timeout (that is what the timeout is configured for)
            back = min(self.rt.pick("fallback_delay", [0.3, 0.15, 0.6, 1.0, 2.5]), info.eject_timeout * 0.8)
            self._later(back, self._arrive, ball, info.name, True)
            return
        if info.confirm_switch is not None:
            self._later(0.05, self._pulse_switch, info.confirm_switch, 0.02)
        if outcome == "late":
            self.late_targets.add(info.target.name)
            extra = self.rt.pick("late_extra", [0.2, 0.05, 1.0, 2.5, "exact"])
            if extra == "exact":
                # counted in the target in the very instant the source gives the ball up for lost
                tdev = self.devs.get(info.target.name)
                extra = info.missing_timeout - (tdev.entrance_count_delay if tdev else 0.0)
                self.ctx.probe("late_arrival_at_missing_deadline")
                self.exact_late_arrivals += 1
            tau = info.eject_timeout + extra
        else:
            hi = max(0.15, min(info.eject_timeout * 0.8, 1.5))
            tau = self.rt.pick("transit", [0.3, 0.1, 0.5, 0.9, 1.4])
            tau = min(tau, hi)
        self._later(tau, self._arrive, ball, info.target.name, False)

    def _settle(self, info):
        """Balls of a switch-counted device that lie between their switches roll onto free ones."""
        occupied = {b.switch for b in self.balls if b.kind == "dev" and b.dev == info.name and b.switch is not None}
        for b in self.balls:
            if b.kind == "dev" and b.dev == info.name and b.switch is None and info.ball_switches:
                for sw in info.ball_switches:
                    if sw not in occupied:
                        b.switch = sw
                        occupied.add(sw)
                        self._switch(sw, 1)
                        # to the device's switches a ball that appears on a ball switch looks exactly like the ball it
                        # just ejected coming back (return ambiguity)
                        for o in self.balls:
                            if o.kind == "transit" and o.src == info.name:
                                if not o.ambiguous:
                                    # ... and when that ball then arrives after all, it is booked as a stray ball from the
                                    # playfield: same class as the re-entry ambiguity
                                    self.ambiguous_reentries += 1
                                    self.ambiguous_devs.add(info.name)
                                    self.ctx.probe("ambiguous_reentry")
                                o.ambiguous = True
                        break

    def _roll_off(self, ball, info):
        if ball.kind == "dev" and ball.dev == info.name and ball.switch is info.entrance_switch \
                and self.count(info.name) < info.capacity:
            ball.switch = None
            self._switch(info.entrance_switch, 0)

    def _pulse_switch(self, sw, width):
        self._switch(sw, 1)
        self._later(width, self._switch, sw, 0)

    # -- arrivals ------------------------------------------------------------------------------
    def _arrive(self, ball, dstname, fell_back):
        # balls are indistinguishable: when two balls are under way to the same target (two from one source, the
        # first one late; or one from a source device and one rolling in from the playfield), the arrival of either
        # confirms the source's *current* eject; the one still on its way is then unknown to any controller
        for other in self.balls:
            if other is not ball and other.kind == "transit" and other.dst == dstname and not fell_back:
                if other.src != ball.src and not other.ambiguous:
                    self.ctx.probe("arrival_ambiguity")
                other.ambiguous = True
            elif other is not ball and other.kind == "transit" and not fell_back and other.dst == other.src \
                    and other.src in self.devs and self.devs[other.src].target.name == dstname and dstname in self.devs \
                    and other.src != ball.src:
                # a ball from elsewhere (e.g. rolling back from the playfield) reaches the target while the source's own
                # ball is dropping back into the source: the arrival confirms that eject; the source's count is then one
                # short of what it physically holds and the newcomer is still booked on the playfield
                if not other.ambiguous:
                    self.ctx.probe("arrival_ambiguity")
                    self.ambiguous_reentries += 1
                    self.uncountable_devs.add(other.src)
                other.ambiguous = True
            elif other is not ball and other.kind == "transit" and not fell_back and ball.src is not None \
                    and other.src == ball.src and other.dst == other.src and dstname in self.devs:
                # a (late) ball of an earlier eject of the same source arrives at the target while the source's current
                # ball is dropping back: the arrival confirms the current eject, the ball dropping back is unknown
                if not other.ambiguous:
                    self.ctx.probe("arrival_ambiguity")
                other.ambiguous = True
        if dstname in self.devs and not fell_back:
            # a ball from elsewhere reaches a device while the latest eject of one of that device's sources has physically
            # failed (its ball dropped back, got stuck or was shaken off) and is still unconfirmed: the newcomer confirms
            # that eject; the source's count is then one short and the newcomer stays booked where it came from
            for sinfo in self.devs.values():
                if sinfo.target.name != dstname:
                    continue
                for e in reversed(self.eject_log):
                    if e["dev"] != sinfo.name:
                        continue
                    # (the newcomer may also be a late ball of an earlier eject of the same source)
                    if e["ball"] is not None and e["ball"] != ball.id and e["outcome"] in ("shake", "fallback", "stuck") \
                            and self.sim.now - e["t"] <= sinfo.eject_timeout + 0.6:
                        self.ambiguous_reentries += 1
                        self.uncountable_devs.add(sinfo.name)
                        self.ctx.probe("arrival_ambiguity")
                        self.confirmed_by_newcomer[sinfo.name] = e["ball"]
                        for o in self.balls:
                            if o.kind == "transit" and o.src == sinfo.name and o.dst == sinfo.name:
                                o.ambiguous = True      # still dropping back: unknown to any controller from now on
                    break
        if dstname in self.devs:
            self._enter(ball, self.devs[dstname], fell_back)
        else:
            ball.kind, ball.dev, ball.switch, ball.dst, ball.src = "pf", dstname, None, None, None
            ball.since = self.sim.now
            ball.ambiguous = False
            self.ctx.log("loose", dstname, ball.id, t=self.sim.now)

    def _enter(self, ball, info, fell_back=False):
        """A ball physically reaches a device."""
        if info.entrance_switch is not None and not info.ball_switches:
            # two balls cannot roll over one switch at the same instant: the second one follows behind
            busy = self.switch_busy_until.get(info.entrance_switch.name, -1.0)
            resting = any(b.kind == "dev" and b.dev == info.name and b.switch is info.entrance_switch for b in self.balls)
            if busy > self.sim.now or (not resting and self.m.switch_controller.is_active(info.entrance_switch)):
                # (also while the previous ball's pulse has not ended yet, whatever its width)
                self._later(max(busy - self.sim.now, 0.0) + 0.06, self._enter, ball, info, fell_back)
                return
        if self.count(info.name) >= info.capacity:
            # no room: the ball bounces back onto the playfield the device captures from
            self.stat("bounced_off_full_device")
            self.ctx.probe("bounce_off_full")
            if info.entrance_switch is not None and not info.ball_switches and \
                    not self.m.switch_controller.is_active(info.entrance_switch) and \
                    self.switch_busy_until.get(info.entrance_switch.name, -1.0) <= self.sim.now and \
                    self.rt.flag("bounce_hits_entrance", 0.5):
                # the ball touches the entrance switch of the full device before it bounces back
                self.ctx.probe("bounce_hits_entrance_of_full_device")
                self.switch_busy_until[info.entrance_switch.name] = self.sim.now + 0.03
                self._pulse_switch(info.entrance_switch, 0.03)
            ball.kind, ball.dev, ball.switch, ball.dst, ball.src = "pf", info.captures_from.name, None, None, None
            ball.since = self.sim.now
            return
        ball.kind, ball.dev, ball.dst, ball.src = "dev", info.name, None, None
        ball.since = self.sim.now
        ball.ambiguous = False
        for other in self.balls:
            if other is not ball and other.kind == "transit" and other.src == info.name and not fell_back:
                other.ambiguous = True
        if not info.ball_switches:
            for e in reversed(self.eject_log):
                dt = self.sim.now - e["t"]
                if dt > info.eject_timeout + 0.6:
                    break
                if e["dev"] == info.name and e["ball"] is not None and info.eject_timeout - 0.05 <= dt:
                    # a ball enters an entrance-counted device within half a second after that device's eject timed out
                    self.reentry_at_timeout += 1
                    self.ctx.probe("entrance_reentry_at_eject_timeout")
                    break
        if not fell_back:
            # a different ball enters a device whose own eject is not confirmed yet: to the device's switches this
            # is indistinguishable from its ejected ball coming back (sensing limit, not a controller fault)
            for e in reversed(self.eject_log):
                if self.sim.now - e["t"] > info.eject_timeout + 0.5:
                    break
                if e["dev"] == info.name and e["ball"] is not None and e["ball"] != ball.id and e["outcome"] in ("ok", "late"):
                    self.ambiguous_reentries += 1
                    self.ambiguous_devs.add(info.name)
                    self.ctx.probe("ambiguous_reentry")
                    break
        if info.ball_switches:
            occupied = {b.switch for b in self.balls if b.kind == "dev" and b.dev == info.name and b is not ball}
            sw = None
            if not fell_back and None in occupied and info.jam_switch is not None:
                # balls of this device lie between their switches (shaken off): a ball rolling in ends up behind them
                # and reaches a switch only when they settle
                ball.switch = None
                return
            if fell_back and info.jam_switch is not None and info.jam_switch not in occupied:
                sw = info.jam_switch
            else:
                for s in info.ball_switches:
                    if s not in occupied:
                        sw = s
                        break
            ball.switch = sw
            if sw is not None:
                self._switch(sw, 1)
        elif info.entrance_switch is not None:
            ball.switch = None
            if info.entrance_full_timeout and not fell_back:
                # a ball that crosses the entrance switch of a 'last ball rests on the switch' device while that device's
                # own eject is under way cannot be told from the bounce of the resting ball rolling off the switch (MPF's
                # unit tests pin that such activations are not counted): a sensing limit, not a controller fault
                for e in reversed(self.eject_log):
                    if self.sim.now - e["t"] > 2.0:
                        break
                    if e["dev"] == info.name and e["ball"] is not None:
                        self.uncountable_devs.add(info.name)
                        self.ambiguous_reentries += 1
                        self.ctx.probe("entrance_arrival_during_own_eject")
                        break
            if info.entrance_full_timeout and self.count(info.name) >= info.capacity:
                ball.switch = info.entrance_switch
                self._switch(info.entrance_switch, 1)
            else:
                width = self.rt.pick("entrance_pulse", [0.03, 0.01, 0.1])
                self.switch_busy_until[info.entrance_switch.name] = self.sim.now + width
                self._pulse_switch(info.entrance_switch, width)

    # -- player / gravity actions on loose balls (driven by the workload) -----------------------------
    def loose_ball_into(self, devname, pick=0):
        """A loose ball rolls into a device (drain, lock shot).  Returns False if no loose ball / no room."""
        info = self.devs[devname]
        lb = self.loose(info.captures_from.name, include_stray=False)
        if not lb:
            return False
        if self.count(devname) + self.in_transit_to(devname) >= info.capacity:
            # a shot at a full device: the ball bounces back (an entrance-counted device may feel it on its entrance switch)
            if info.ball_switches or info.entrance_switch is None or not self.rt.flag("shot_at_full_device", 0.5):
                return False
        ball = lb[pick % len(lb)]
        self.last_pf_activity = self.sim.now + 1.5      # its entry (a moment from now) is playfield activity
        ball.kind, ball.src, ball.dst = "transit", ball.dev, devname
        ball.since = self.sim.now
        self._later(self.rt.pick("roll_in", [0.2, 0.05, 0.5]), self._arrive, ball, devname, False)
        return True

    def loose_ball_hits(self, swname):
        if not self.loose(include_stray=False):
            return False
        self.last_pf_activity = self.sim.now
        self._pulse_switch(self.m.switches[swname], 0.02)
        return True

    def plunge(self, devname):
        """The player pulls a mechanical plunger: the ball resting in the device is launched."""
        info = self.devs[devname]
        ball = self._exit_ball(info)
        if ball is None:
            return False
        outcome = "ok"
        p_fail = self.knobs.get("p_eject_fail", 0.0) if self.faults_enabled else 0.0
        if self.knobs.get("weak_plunges") and p_fail and self.rt.flag("weak_plunge", p_fail):
            outcome = "fallback"        # a weak plunge: the ball rolls back into the lane
            self.ctx.fault("eject_fallback")
        # a second plunge while the first one is still unconfirmed: the controller sees one eject; whatever this ball does
        # later (e.g. dropping back after the first eject was confirmed by its timeout) it cannot attribute
        replunge = any(e["dev"] == info.name and e.get("manual") and self.sim.now - e["t"] <= info.eject_timeout + 0.2
                       for e in self.eject_log)
        self.eject_log.append({"t": self.sim.now, "dev": info.name, "outcome": outcome, "ball": ball.id, "manual": True,
                               "replunge": replunge})
        self._later(0.02, self._ball_leaves, ball, info, outcome)
        return True
