"""SimPlatform: the hardware seam.  A VirtualHardwarePlatform whose leaf objects record every command
with its simulated time and forward it to listeners (safety monitor, PinWorld, light oracles).

Selected with `ctx.new_sim(..., platform="simhw")` (registered through the `mpf: platforms:` config table,
the seam MPF offers for external platforms).
"""
from sim import ensure_repo_import

ensure_repo_import()

from mpf.platforms.virtual import (VirtualHardwarePlatform, VirtualDriver, VirtualLight,     # noqa: E402
                                   VirtualSwitch)


class SimDriver(VirtualDriver):

    def __init__(self, config, number, platform):
        super().__init__(config, number)
        self.sim_platform = platform
        self.sim_enabled = False         # physically held on right now
        self.sim_name = None             # coil device name, resolved lazily

    def _emit(self, op, pulse_ms=None, pulse_power=None, hold_power=None, hold_ms=None):
        p = self.sim_platform
        rec = {"t": p.machine.clock.get_time(), "num": str(self.number), "op": op, "pulse_ms": pulse_ms,
               "pulse_power": pulse_power, "hold_power": hold_power, "hold_ms": hold_ms}
        p.commands.append(rec)
        for fn in p.driver_listeners:
            fn(self, rec)

    def disable(self):
        super().disable()
        self.sim_enabled = False
        self._emit("disable")

    def enable(self, pulse_settings, hold_settings):
        ps, hs = pulse_settings, hold_settings
        super().enable(pulse_settings, hold_settings)
        self.sim_enabled = True
        self._emit("enable", ps.duration, ps.power, hs.power if hs else None)

    def pulse(self, pulse_settings):
        super().pulse(pulse_settings)
        self._emit("pulse", pulse_settings.duration, pulse_settings.power)

    def timed_enable(self, pulse_settings, hold_settings):
        super().timed_enable(pulse_settings, hold_settings)
        self._emit("timed_enable", pulse_settings.duration, pulse_settings.power, hold_settings.power,
                   hold_settings.duration)


class SimLight(VirtualLight):

    def set_fade(self, start_brightness, start_time, target_brightness, target_time):
        super().set_fade(start_brightness, start_time, target_brightness, target_time)
        p = self.machine.default_platform if not hasattr(self, "sim_platform") else self.sim_platform
        rec = {"t": self.machine.clock.get_time(), "num": str(self.number), "start_b": start_brightness,
               "start_t": start_time, "target_b": target_brightness, "target_t": target_time}
        p.light_commands.append(rec)
        for fn in p.light_listeners:
            fn(self, rec)


class SimPlatform(VirtualHardwarePlatform):

    def __init__(self, machine):
        super().__init__(machine)
        self.commands = []              # every driver command
        self.driver_listeners = []
        self.light_commands = []
        self.light_listeners = []
        self.rule_log = []              # ("set"|"clear", rule type, switch numbers, coil number, settings, t)
        self.rule_count = {}            # (switch number, coil number) -> number of installed rules
        self.rule_listeners = []
        self.sim_drivers = {}
        self.sim_lights = {}

    def __repr__(self):
        return "<Platform.Sim>"

    def configure_driver(self, config, number, platform_settings):
        if number is None:
            number = str(self._next_driver)
            self._next_driver += 1
        d = SimDriver(config, number, self)
        self.sim_drivers[str(number)] = d
        return d

    def configure_light(self, number, subtype, config, platform_settings):
        if not subtype:
            subtype = "led"
        l = SimLight("{}-{}".format(subtype, number), platform_settings, self.machine)
        l.sim_platform = self
        self.sim_lights[l.number] = l
        return l

    # -- rules: count instead of assert, so the check (not the stub) judges ---------------------
    def _rule(self, kind, rtype, switches, coil):
        t = self.machine.clock.get_time()
        for sw in switches:
            key = (str(sw.hw_switch.number), str(coil.hw_driver.number))
            if kind == "set":
                self.rule_count[key] = self.rule_count.get(key, 0) + 1
            rec = {"t": t, "kind": kind, "type": rtype, "switch": key[0], "coil": key[1],
                   "invert": getattr(sw, "invert", None),
                   "pulse_ms": getattr(getattr(coil, "pulse_settings", None), "duration", None),
                   "pulse_power": getattr(getattr(coil, "pulse_settings", None), "power", None),
                   "hold_power": getattr(getattr(coil, "hold_settings", None), "power", None),
                   "recycle": getattr(coil, "recycle", None)}
            self.rule_log.append(rec)
            for fn in self.rule_listeners:
                fn(rec)

    def clear_hw_rule(self, switch, coil):
        key = (str(switch.hw_switch.number), str(coil.hw_driver.number))
        t = self.machine.clock.get_time()
        existed = self.rule_count.get(key, 0)
        if existed:
            self.rule_count[key] = existed - 1
            if not self.rule_count[key]:
                del self.rule_count[key]
        rec = {"t": t, "kind": "clear", "type": None, "switch": key[0], "coil": key[1], "existed": existed}
        self.rule_log.append(rec)
        for fn in self.rule_listeners:
            fn(rec)
        if (switch.hw_switch, coil.hw_driver) in self.rules:
            del self.rules[(switch.hw_switch, coil.hw_driver)]

    def _assert_rule_does_not_exist(self, switch, driver):
        # counted in rule_count; the oracle decides
        return

    def set_pulse_on_hit_and_enable_and_release_rule(self, enable_switch, coil):
        self._rule("set", "pulse_on_hit_and_enable_and_release", [enable_switch], coil)
        self.rules[(enable_switch.hw_switch, coil.hw_driver)] = "pulse_on_hit_and_enable_and_release"

    def set_pulse_on_hit_and_release_rule(self, enable_switch, coil):
        self._rule("set", "pulse_on_hit_and_release", [enable_switch], coil)
        self.rules[(enable_switch.hw_switch, coil.hw_driver)] = "pulse_on_hit_and_release"

    def set_pulse_on_hit_and_release_and_disable_rule(self, enable_switch, eos_switch, coil, repulse_settings):
        self._rule("set", "pulse_on_hit_and_release_and_disable", [enable_switch, eos_switch], coil)
        self.rules[(enable_switch.hw_switch, coil.hw_driver)] = "pulse_on_hit_and_release_and_disable"
        self.rules[(eos_switch.hw_switch, coil.hw_driver)] = "pulse_on_hit_and_release_and_disable"

    def set_pulse_on_hit_and_enable_and_release_and_disable_rule(self, enable_switch, eos_switch, coil,
                                                                 repulse_settings):
        self._rule("set", "pulse_on_hit_and_enable_and_release_and_disable", [enable_switch, eos_switch], coil)
        self.rules[(enable_switch.hw_switch, coil.hw_driver)] = "pulse_on_hit_and_enable_and_release_and_disable"
        self.rules[(eos_switch.hw_switch, coil.hw_driver)] = "pulse_on_hit_and_enable_and_release_and_disable"

    def set_pulse_on_hit_rule(self, enable_switch, coil):
        self._rule("set", "pulse_on_hit", [enable_switch], coil)
        self.rules[(enable_switch.hw_switch, coil.hw_driver)] = "pulse_on_hit"

    def set_delayed_pulse_on_hit_rule(self, enable_switch, coil, delay_ms):
        self._rule("set", "delayed_pulse_on_hit", [enable_switch], coil)
        self.rules[(enable_switch.hw_switch, coil.hw_driver)] = "delayed_pulse_on_hit"

    # -- helpers for checks --------------------------------------------------------------------
    def coil_name(self, num):
        for name, coil in self.machine.coils.items():
            if str(coil.hw_driver.number) == str(num) and coil.hw_driver is self.sim_drivers.get(str(num)):
                return name
        return None
