"""Observation without perturbation: taps on the event bus (read-only wrappers that call through)."""
from sim import ensure_repo_import

ensure_repo_import()

from mpf.core.events import EventManager      # noqa: E402


def tap_events(sim, fn):
    """Call fn(name, ev_type, callback, kwargs) for every event posted (before MPF's own fast path).

    Patched at class level inside the forked child (one machine per child), calls through unchanged.
    """
    orig = EventManager._post
    machine_events = sim.machine.events

    def _post(self, event, ev_type, callback, **kwargs):
        if self is machine_events:
            fn(event, ev_type, callback, kwargs)
        return orig(self, event, ev_type, callback, **kwargs)
    EventManager._post = _post
    return orig


class EventLog:
    """Records (time, name, kwargs) of posted events whose name passes `want` (a predicate or None)."""

    def __init__(self, sim, want=None, ctx=None, log_kind="ev"):
        self.sim = sim
        self.want = want
        self.records = []
        self.ctx = ctx
        self.log_kind = log_kind
        self.listeners = []
        tap_events(sim, self._on)

    def _on(self, name, ev_type, callback, kwargs):
        if self.want is not None and not self.want(name):
            return
        t = self.sim.loop.time()
        rec = (t, name, dict(kwargs))
        self.records.append(rec)
        if self.ctx is not None:
            self.ctx.log(self.log_kind, name, t=t)
        for l in self.listeners:
            l(t, name, kwargs)

    def names(self):
        return [r[1] for r in self.records]

    def count(self, name):
        return sum(1 for r in self.records if r[1] == name)
