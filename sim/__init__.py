"""Deterministic simulation engine for missionpinball/mpf (see /verif/DESIGN.md)."""
import os
import sys

REPO = os.environ.get("VERIF_REPO", "/repo")
VERIF = os.path.dirname(os.path.dirname(os.path.abspath(__file__)))


def ensure_repo_import():
    """Make sure `import mpf` resolves to the working tree under REPO, never to site-packages."""
    if sys.path[0] != REPO:
        if REPO in sys.path:
            sys.path.remove(REPO)
        sys.path.insert(0, REPO)
    import mpf  # noqa
    f = os.path.realpath(mpf.__file__)
    assert f.startswith(os.path.realpath(REPO) + os.sep), \
        "mpf imported from %s, expected it under %s" % (f, REPO)
