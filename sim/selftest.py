"""Determinism self-test: ./check selftest [--runs N]

For every accepted check: run the first N seeds (default 40) twice in this process tree - 16 workers in
ascending order, then 3 workers in descending order - and once more in a fresh interpreter under another
PYTHONHASHSEED (twice, compared with each other).  All digests of the full event logs must agree.
Exit 0 when everything agrees, 2 otherwise.
"""
import json
import os
import subprocess
import sys

from sim import VERIF, harness


def _digests(check, seeds, jobs):
    from sim.pool import Pool
    if hasattr(check, "warm"):
        check.warm()
    harness.load_known(check.ID)
    pool = Pool(lambda job: harness.run_one(check, job), jobs=jobs)
    out = {}
    pool.run(({"seed": s, "tier": "quick"} for s in seeds),
             lambda res, job: out.__setitem__(res.get("seed"), (res.get("status"), res.get("digest"))))
    pool.close()
    return out


def one_check(prop, n):
    name = harness.find_check_module(prop)
    check = harness.load_check(name)
    a = _digests(check, list(range(n)), 16)
    b = _digests(check, list(reversed(range(n))), 3)
    return {str(k): v for k, v in a.items()}, {str(k): v for k, v in b.items()}


def main(args):
    n = args.runs or 40
    if os.environ.get("VERIF_SELFTEST_CHILD"):
        prop = os.environ["VERIF_SELFTEST_CHILD"]
        a, b = one_check(prop, n)
        print("SELFTEST-DIGESTS " + json.dumps({"a": a, "b": b}))
        return 0
    props = [l.strip() for l in open(os.path.join(VERIF, "tools", "accepted.txt")) if l.strip() and not l.startswith("#")]
    if os.environ.get("VERIF_SELFTEST_ONLY"):
        props = os.environ["VERIF_SELFTEST_ONLY"].split(",")
    bad = 0
    for prop in props:
        a, b = one_check(prop, n)
        same = a == b
        errs = [k for k, v in a.items() if v[0] not in ("ok", "discard")]
        # fresh interpreter, other str-hash seed: must be self-consistent as well
        env = dict(os.environ, VERIF_HASHSEED="7", VERIF_SELFTEST_CHILD=prop)
        p = subprocess.run([os.path.join(VERIF, "check"), "selftest", "--runs", str(max(10, n // 4))],
                           env=env, capture_output=True, text=True, timeout=3600)
        other = None
        for line in p.stdout.splitlines():
            if line.startswith("SELFTEST-DIGESTS "):
                other = json.loads(line[len("SELFTEST-DIGESTS "):])
        other_ok = other is not None and other["a"] == other["b"]
        cross = other is not None and all(list(other["a"][k]) == list(a[k]) for k in other["a"])
        print("%s: %d seeds, 16 workers ascending vs 3 workers descending: %s; fresh interpreter with PYTHONHASHSEED=7 "
              "self-consistent: %s (equal to the PYTHONHASHSEED=0 digests: %s); non-ok runs: %d"
              % (prop, n, "identical" if same else "DIFFERENT", "yes" if other_ok else "NO", "yes" if cross else "no", len(errs)))
        if not same or not other_ok:
            bad += 1
            for k in a:
                if a[k] != b.get(k):
                    print("   seed %s: %r vs %r" % (k, a[k], b.get(k)))
    sys.stdout.flush()
    return 2 if bad else 0
