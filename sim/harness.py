"""Run context, single-run driver, batch driver, minimiser, replay and evidence writer."""
import hashlib
import importlib
import json
import os
import re
import sys
import time
import traceback

from sim import VERIF, REPO, ensure_repo_import
from sim.chooser import Chooser

KNOWN_FILE = os.path.join(VERIF, "known_findings.json")


class Violation(Exception):

    def __init__(self, rule, sig, msg):
        super().__init__("%s [%s] %s" % (rule, sig, msg))
        self.rule = rule
        self.sig = sig
        self.msg = msg


class Discard(Exception):
    """The generated case is outside the space the property speaks about (not counted)."""


_KNOWN_CACHE = {}


def load_known(prop):
    # read once in the main process (before the pool forks); children inherit the parsed list
    if prop not in _KNOWN_CACHE:
        _KNOWN_CACHE[prop] = _load_known(prop)
    return _KNOWN_CACHE[prop]


def _load_known(prop):
    out = []
    files = [KNOWN_FILE]
    d = os.path.join(VERIF, "known_findings.d")
    if os.path.isdir(d):
        files += [os.path.join(d, f) for f in sorted(os.listdir(d)) if f.endswith(".json")]
    for fn in files:
        if not os.path.exists(fn):
            continue
        with open(fn) as f:
            data = json.load(f)
        out += [k for k in data.get("known", []) if k["property"] == prop]
    return out


def match_known(known, rule, sig):
    for k in known:
        if (k["rule"] == rule or re.fullmatch(k["rule"], rule)) and re.search(k["sig"], sig or ""):
            return k
    return None


class Ctx:
    """Everything a scenario needs: chooser, logging with digests, probes, fault counters, verdicts."""

    def __init__(self, prop, seed, plan, rt, known, mode="generate"):
        self.prop = prop
        self.seed = seed
        self.plan = plan
        self.rt = rt
        self.known = known
        self.mode = mode
        self._h = hashlib.sha256()
        self._hs = hashlib.sha256()
        self.nlog = 0
        self.log_lines = [] if os.environ.get("VERIF_TRACE") else None
        self.probes = {}
        self.faults = {}
        self.known_hits = {}
        self.states = set()
        self.sim_s = 0.0
        self.steps = 0
        self.nontrivial = False
        self.sims = []
        self.info = {}
        self.first_violation = None

    # -- observation -----------------------------------------------------------------
    def log(self, kind, *detail, t=None):
        """Record an observable event: feeds the run digest (with time/detail) and the shape digest."""
        self.nlog += 1
        line = "%s|%s|%s" % (("%.9f" % t) if t is not None else "", kind, "|".join(map(repr, detail)))
        self._h.update(line.encode())
        self._h.update(b"\n")
        self._hs.update(kind.encode())
        self._hs.update(b"\n")
        if self.log_lines is not None:
            self.log_lines.append(line)

    def shape(self, *detail):
        """Add timing-free detail to the shape digest only (what makes two runs 'distinct')."""
        self._hs.update(("|".join(map(repr, detail))).encode())

    def probe(self, name, n=1):
        self.probes[name] = self.probes.get(name, 0) + n
        self.nontrivial = True

    def fault(self, name, n=1):
        self.faults[name] = self.faults.get(name, 0) + n

    def state(self, *abstract):
        self.states.add(hashlib.md5(repr(abstract).encode()).hexdigest()[:12])

    # -- verdicts --------------------------------------------------------------------
    def violation(self, rule, sig, msg):
        """Report a violation.  If it is a recorded known finding the run continues (the caller
        must resynchronise its model with the SUT); otherwise Violation is raised."""
        k = match_known(self.known, rule, sig)
        if k is not None:
            self.known_hits[k["id"]] = self.known_hits.get(k["id"], 0) + 1
            return k
        v = Violation(rule, sig, msg)
        if self.first_violation is None:
            self.first_violation = v
        raise v

    def require(self, cond, rule, sig, msg):
        if not cond:
            return self.violation(rule, sig, msg() if callable(msg) else msg)
        return None

    # -- simulator construction --------------------------------------------------------
    def new_sim(self, machine, **kw):
        from sim.machine import Sim
        knobs = kw.pop("knobs", None) or (self.plan.get("knobs") if isinstance(self.plan, dict) else None) or {}
        s = Sim(self.rt, machine, **kw)
        s.loop.p_stall = knobs.get("p_stall", 0.0)
        s.loop.max_stall_index = knobs.get("max_stall_index", len(s.loop.STALLS) - 1)
        s.loop.shuffle_ties = knobs.get("shuffle_ties", False)
        if "max_steps" in knobs:
            s.loop.max_steps = knobs["max_steps"]
        self.sims.append(s)
        return s

    def finish(self):
        for s in self.sims:
            self.sim_s += s.loop.time()
            self.steps += s.loop.steps
            if s.loop.stat_stalls:
                self.fault("loop_stall", s.loop.stat_stalls)
            if s.loop.stat_ties:
                self.fault("tie_reorder", s.loop.stat_ties)


def draw_knobs(ch, p_faulty=0.6):
    """Swarm: per-run scheduler knobs.  A good share of runs has no scheduling faults at all."""
    k = {"p_stall": 0.0, "shuffle_ties": False, "max_stall_index": 7}
    if ch.flag("knob.faulty", p_faulty):
        k["shuffle_ties"] = ch.flag("knob.ties", 0.7)
        if ch.flag("knob.stalls", 0.6):
            k["p_stall"] = ch.pick("knob.p_stall", [0.02, 0.05, 0.15, 0.4])
            k["max_stall_index"] = ch.pick("knob.max_stall", [2, 4, 5, 6, 7])
    return k


def run_one(check, job):
    """Executed in a freshly forked child: exactly one simulated run."""
    from sim.machine import install_global_determinism, MpfCrashed
    from sim.loop import SimDeadlock, StepLimit
    seed = job["seed"]
    install_global_determinism(seed)
    known = [] if job.get("ignore_known") else load_known(check.ID)
    replay = job.get("replay")
    if replay is not None:
        plan = replay["plan"]
        rt = Chooser(seed="%s/rt" % seed, tapes=replay["tapes"], neutral_tags=replay.get("neutral", ()))
        mode = "replay"
    else:
        plan = check.plan(Chooser(seed="%s/plan" % seed), job.get("tier", "quick"))
        rt = Chooser(seed="%s/rt" % seed, neutral_tags=job.get("neutral", ()))
        mode = "generate"
    ctx = Ctx(check.ID, seed, plan, rt, known, mode)
    res = {"seed": seed, "status": "ok", "rule": None, "sig": None, "msg": None}
    t0 = time.time()
    try:
        try:
            check.execute(ctx, plan)
        except Exception:    # pylint: disable=broad-except
            # a violation raised inside a loop callback / event handler reaches us wrapped
            # (MpfCrashed, EventHandlerException, ...): the first recorded violation wins
            if ctx.first_violation is not None:
                raise ctx.first_violation
            raise
        if ctx.first_violation is not None:
            raise ctx.first_violation
    except Violation as v:
        res.update(status="violation", rule=v.rule, sig=v.sig, msg=v.msg)
    except Discard as d:
        res.update(status="discard", msg=str(d))
    except MpfCrashed as c:
        tb = "".join(traceback.format_exception(type(c.exc), c.exc, c.exc.__traceback__))[-3000:] if c.exc else ""
        handler = getattr(check, "on_crash", None)
        verdict = handler(ctx, c) if handler else None
        if verdict == "discard":
            res.update(status="discard", msg="crash outside the property's space: %s" % c)
        elif verdict is None:
            res.update(status="error", rule="mpf_crash", sig=type(c.exc).__name__, msg=str(c), trace=tb)
        else:
            rule, sig, msg = verdict
            k = match_known(known, rule, sig)
            if k is not None:
                ctx.known_hits[k["id"]] = ctx.known_hits.get(k["id"], 0) + 1
            else:
                res.update(status="violation", rule=rule, sig=sig, msg=msg, trace=tb)
    except (SimDeadlock, StepLimit) as e:
        res.update(status="error", rule="harness", sig=type(e).__name__, msg=str(e),
                   trace=traceback.format_exc()[-3000:])
    except Exception as e:      # pylint: disable=broad-except
        res.update(status="error", rule="harness", sig=type(e).__name__, msg="%s: %s" % (type(e).__name__, e),
                   trace=traceback.format_exc()[-3000:])
    ctx.finish()
    for s in ctx.sims:
        s.stop()
    res.update(digest=ctx._h.hexdigest()[:24], shape=ctx._hs.hexdigest()[:16], nlog=ctx.nlog,
               probes=ctx.probes, faults=ctx.faults, known_hits=ctx.known_hits,
               states=sorted(ctx.states), sim_s=round(ctx.sim_s, 6), steps=ctx.steps,
               nontrivial=ctx.nontrivial, wall=round(time.time() - t0, 4), info=ctx.info)
    if res["status"] != "ok" or job.get("want_plan"):
        res["plan"] = plan
        res["tapes"] = rt.tapes
    if ctx.log_lines is not None and job.get("want_log"):
        res["log"] = ctx.log_lines
    return res


# ------------------------------------------------------------------------------------------
# minimisation


def _ops_of(plan):
    return plan.get("ops") if isinstance(plan, dict) and isinstance(plan.get("ops"), list) else None


def minimise(pool, check, seed, plan, tapes, rule, budget_s=60.0, max_runs=2000, log=None):
    """Shrink (plan, tapes) while the same rule keeps failing.  Returns (plan, tapes, neutral, runs)."""
    t_end = time.time() + budget_s
    runs = [0]

    def fails_batch(cands):
        """cands: list of (plan, tapes, neutral).  Returns index of first failing candidate or None."""
        jobs = [{"seed": seed, "replay": {"plan": p, "tapes": t, "neutral": list(n)}, "wall_limit": 60}
                for p, t, n in cands]
        out = {}

        def on(res, job):
            out[job["job_id"]] = res
        runs[0] += len(jobs)
        pool.run(jobs, on)
        for i in range(len(cands)):
            r = out.get(i)
            if r and r["status"] == "violation" and r["rule"] == rule:
                return i, r
        return None, None

    neutral = set()
    # 1. scheduler faults off altogether / per kind
    for tags in (("loop",), ("loop.stall", "loop.stall_len"), ("loop.tie",)):
        if time.time() > t_end:
            break
        i, r = fails_batch([(plan, tapes, neutral | set(tags))])
        if i is not None:
            neutral |= set(tags)
            tapes = r.get("tapes", tapes)
    # 2. ddmin over ops
    ops = _ops_of(plan)
    if ops is not None:
        n = 2
        while len(ops) >= 1 and time.time() < t_end and runs[0] < max_runs:
            chunk = max(1, len(ops) // n)
            cands = []
            for start in range(0, len(ops), chunk):
                sub = ops[:start] + ops[start + chunk:]
                p2 = dict(plan)
                p2["ops"] = sub
                cands.append((p2, tapes, neutral))
            cands = cands[:32]
            i, r = fails_batch(cands)
            if i is not None:
                plan = cands[i][0]
                ops = plan["ops"]
                tapes = r.get("tapes", tapes)
                n = max(n - 1, 2)
            else:
                if chunk == 1:
                    break
                n = min(len(ops), n * 2)
    # 3. custom shrinkers of the check (simplify op arguments)
    shr = getattr(check, "shrink", None)
    if shr is not None:
        progress = True
        while progress and time.time() < t_end and runs[0] < max_runs:
            progress = False
            cands = [(p, tapes, neutral) for p in list(shr(plan))[:32]]
            if not cands:
                break
            i, r = fails_batch(cands)
            if i is not None:
                plan = cands[i][0]
                tapes = r.get("tapes", tapes)
                progress = True
    # 4. truncate runtime tapes per tag (neutral tail)
    for tag in sorted(tapes.keys()):
        if time.time() > t_end or runs[0] >= max_runs:
            break
        if not tapes.get(tag):
            continue
        t2 = dict(tapes)
        t2[tag] = []
        i, r = fails_batch([(plan, t2, neutral)])
        if i is not None:
            tapes = r.get("tapes", t2)
    return plan, tapes, sorted(neutral), runs[0]


# ------------------------------------------------------------------------------------------
# batch driver


def load_check(name):
    ensure_repo_import()
    mod = importlib.import_module("checks." + name)
    return mod


def find_check_module(prop):
    d = os.path.join(VERIF, "checks")
    for f in sorted(os.listdir(d)):
        if f.lower().startswith(prop.lower() + "_") and f.endswith(".py"):
            return f[:-3]
    raise SystemExit("no check module for %s" % prop)


def write_replay(prop, seed, res, plan, tapes, neutral, extra=None):
    d = os.path.join(VERIF, "replays")
    os.makedirs(d, exist_ok=True)
    path = os.path.join(d, "%s-%s.json" % (prop, seed))
    with open(path, "w") as f:
        json.dump({"property": prop, "seed": seed, "rule": res["rule"], "sig": res["sig"], "msg": res["msg"],
                   "pythonhashseed": os.environ.get("PYTHONHASHSEED"), "plan": plan, "tapes": tapes,
                   "neutral": neutral, "digest": res.get("digest"), "trace": res.get("trace"),
                   "extra": extra or {}}, f, indent=1, default=str)
    return path


def git_head(path):
    try:
        import subprocess
        return subprocess.run(["git", "-C", path, "rev-parse", "--short", "HEAD"], capture_output=True,
                              text=True, timeout=10).stdout.strip()
    except Exception:   # pylint: disable=broad-except
        return "?"


def run_check(check, tier, base_seed, jobs, runs=None, budget=None, ignore_known=False, quiet=False):
    from sim.pool import Pool
    prop = check.ID
    t0 = time.time()
    nruns = runs or (check.RUNS[tier] if hasattr(check, "RUNS") else (300 if tier == "quick" else 5000))
    wall_cap = budget or (getattr(check, "WALL_CAP", {"quick": 150, "thorough": 3600})[tier])
    if hasattr(check, "warm"):
        check.warm()
    load_known(check.ID)
    pool = Pool(lambda job: run_one(check, job), jobs=jobs, wall_limit=getattr(check, "RUN_WALL_LIMIT", 120))
    agg = {"runs": 0, "ok": 0, "violation": 0, "error": 0, "timeout": 0, "discard": 0, "known": {},
           "probes": {}, "faults": {}, "sim_s": 0.0, "steps": 0, "shapes": set(), "states": set(),
           "faulted_runs": 0, "fault_free_runs": 0, "samples": [], "nontrivial_runs": 0}
    viol = []
    errors = []
    digests = {}
    recheck = []
    sample_every = max(1, nruns // 3)

    def seeds():
        for i in range(nruns):
            yield {"seed": base_seed * 1_000_003 + i if base_seed else i, "tier": tier,
                   "ignore_known": ignore_known, "want_plan": (i % sample_every == 0)}

    def stop():
        return time.time() - t0 > wall_cap or len(viol) >= 5 or len(errors) >= 5

    def on(res, job):
        agg["runs"] += 1
        st = res["status"]
        agg[st] = agg.get(st, 0) + 1
        if st == "violation":
            viol.append(res)
        elif st in ("error", "timeout"):
            errors.append(res)
        for k, v in (res.get("known_hits") or {}).items():
            agg["known"][k] = agg["known"].get(k, 0) + v
        for k, v in (res.get("probes") or {}).items():
            agg["probes"][k] = agg["probes"].get(k, 0) + v
        for k, v in (res.get("faults") or {}).items():
            agg["faults"][k] = agg["faults"].get(k, 0) + v
        if res.get("faults"):
            agg["faulted_runs"] += 1
        else:
            agg["fault_free_runs"] += 1
        agg["sim_s"] += res.get("sim_s", 0)
        agg["steps"] += res.get("steps", 0)
        if res.get("nontrivial") and st in ("ok",):
            agg["shapes"].add(res["shape"])
            agg["nontrivial_runs"] += 1
        agg["states"].update(res.get("states") or [])
        if "digest" in res:
            digests[res["seed"]] = res["digest"]
        if job.get("want_plan") and st == "ok" and len(agg["samples"]) < 3 and "plan" in res:
            agg["samples"].append({"seed": res["seed"], "plan": _clip(res["plan"]),
                                   "runtime_choices": {k: v[:12] for k, v in list(res.get("tapes", {}).items())[:8]},
                                   "sim_s": res.get("sim_s"), "probes": res.get("probes")})

    pool.run(seeds(), on, stop)
    main_wall = time.time() - t0

    # determinism spot check: re-run a sample of seeds (they land on other workers / positions)
    det_n = min(len(digests), max(8, nruns // 50))
    det_seeds = sorted(digests.keys())[::max(1, len(digests) // det_n)][:det_n] if digests else []
    mismatches = []

    def on2(res, job):
        if res.get("digest") != digests.get(res.get("seed")):
            mismatches.append((res.get("seed"), digests.get(res.get("seed")), res.get("digest")))
    if not viol and not errors:
        pool.run(({"seed": s, "tier": tier, "ignore_known": ignore_known} for s in reversed(det_seeds)), on2)

    # violations: minimise, confirm twice, write replay
    reported = []
    unconfirmed = []
    transient = []
    for v in viol[:3]:
        plan, tapes, neutral, mruns = minimise(pool, check, v["seed"], v["plan"], v["tapes"], v["rule"],
                                               budget_s=60 if tier == "quick" else 180)
        conf = []
        pool.run([{"seed": v["seed"], "replay": {"plan": plan, "tapes": tapes, "neutral": neutral}}
                  for _ in range(2)], lambda res, job: conf.append(res))
        if all(c["status"] == "violation" and c["rule"] == v["rule"] for c in conf) and len(conf) == 2:
            fin = conf[0]
            path = write_replay(prop, v["seed"], fin, plan, tapes, neutral,
                                {"minimise_runs": mruns, "original_ops": len(_ops_of(v["plan"]) or []),
                                 "minimised_ops": len(_ops_of(plan) or []), "repo_head": git_head(REPO)})
            reported.append((fin, path))
        else:
            # not reproducible from its replay: run the original seed again, twice. If that is clean as well the
            # anomaly was a one-off of the host (not of the seed, the code or the harness' choices) and is reported
            # as such without failing the check; if the seed reproduces it, the replay machinery is at fault (exit 2)
            again = []
            pool.run([{"seed": v["seed"], "tier": tier, "ignore_known": ignore_known} for _ in range(2)],
                     lambda res, job: again.append(res))
            rec = {"seed": v["seed"], "rule": v["rule"], "msg": v["msg"],
                   "replays": [(c["status"], c.get("rule")) for c in conf],
                   "reruns": [(c["status"], c.get("rule")) for c in again]}
            if len(again) == 2 and all(c["status"] in ("ok", "discard") for c in again):
                transient.append(rec)
            else:
                unconfirmed.append(rec)
    pool.close()
    wall = time.time() - t0

    known_lines = []
    kdefs = {k["id"]: k for k in load_known(prop)}
    for kid, n in sorted(agg["known"].items()):
        known_lines.append("KNOWN-FINDING: property=%s %s: %s (hit in %d runs)" % (
            prop, kid, kdefs.get(kid, {}).get("what", ""), n))

    ev = {
        "property_id": prop,
        "tier": tier,
        "seed": base_seed,
        "level": getattr(check, "LEVEL", "exploration"),
        "coverage": {
            "evaluations": agg["runs"],
            "distinct_nontrivial": len(agg["shapes"]),
            "rule": getattr(check, "RULE", ""),
            "samples": agg["samples"] or [{"note": "no sample captured"}],
            "states": len(agg["states"]),
            "state_abstraction": getattr(check, "STATE_ABSTRACTION", "none"),
            "runs_ok": agg["ok"], "runs_discarded": agg["discard"], "runs_error": agg["error"] + agg["timeout"],
            "runs_with_faults": agg["faulted_runs"], "runs_fault_free": agg["fault_free_runs"],
            "faults_fired": agg["faults"],
            "reach_probes": agg["probes"],
            "probes_expected": getattr(check, "PROBES", []),
            "probes_never_hit": [p for p in getattr(check, "PROBES", []) if not agg["probes"].get(p)],
            "simulated_seconds": round(agg["sim_s"], 3),
            "loop_iterations": agg["steps"],
            "runs_per_hour": int(agg["runs"] / max(main_wall, 1e-6) * 3600),
            "workers": pool.n,
            "determinism_rechecked_seeds": len(det_seeds),
            "determinism_mismatches": len(mismatches),
            "known_findings_hit": agg["known"],
            "unconfirmed_anomalies": unconfirmed,
            "transient_anomalies": transient,
            "real_components": getattr(check, "REAL", []),
            "stub_components": getattr(check, "STUBS", []),
            "repo_head": git_head(REPO),
            "wall_cap_hit": main_wall > wall_cap,
        },
        "assumptions": getattr(check, "ASSUMPTIONS", []),
        "wall_s": round(wall, 2),
        "violations": len(reported),
    }
    # evidence is only ever written for runs against /repo itself; runs against a scratch worktree
    # (VERIF_REPO=..., used for seeded changes and proposed fixes) go to a scratch directory
    ev_dir = os.path.join(VERIF, "evidence") if os.path.realpath(REPO) == "/repo" else \
        os.path.join(os.environ.get("VERIF_SCRATCH_EVIDENCE", "/tmp/verif-scratch-evidence"))
    os.makedirs(ev_dir, exist_ok=True)
    ev["coverage"]["repo_path"] = os.path.realpath(REPO)
    with open(os.path.join(ev_dir, "%s.json" % prop), "w") as f:
        json.dump(ev, f, indent=1, default=str)

    out = sys.stdout
    if not quiet:
        print("%s tier=%s seed=%s runs=%d ok=%d discard=%d known_hits=%s distinct=%d states=%d sim_s=%.0f wall=%.1fs"
              % (prop, tier, base_seed, agg["runs"], agg["ok"], agg["discard"], sum(agg["known"].values()),
                 len(agg["shapes"]), len(agg["states"]), agg["sim_s"], wall), file=out)
        print("  faults fired: %s" % json.dumps(agg["faults"], sort_keys=True), file=out)
        print("  probes: %s" % json.dumps(agg["probes"], sort_keys=True), file=out)
        if ev["coverage"]["probes_never_hit"]:
            print("  probes never hit: %s" % ev["coverage"]["probes_never_hit"], file=out)
    for line in known_lines:
        print(line, file=out)
    code = 0
    for t in transient:
        print("TRANSIENT anomaly (seen once, neither its replay nor two reruns of seed %s reproduce it; not counted): "
              "rule=%s %s" % (t["seed"], t["rule"], (t["msg"] or "")[:300]), file=out)
    for fin, path in reported:
        print("VIOLATION property=%s replay=%s" % (prop, path), file=out)
        print("  rule=%s sig=%s: %s" % (fin["rule"], fin["sig"], fin["msg"]), file=out)
        code = 1
    if code == 0:
        if errors:
            for e in errors[:3]:
                print("HARNESS-ERROR seed=%s %s %s\n%s" % (e.get("seed"), e.get("rule"), e.get("msg"),
                                                          e.get("trace", "")), file=out)
            code = 2
        elif unconfirmed:
            print("UNCONFIRMED anomalies (determinism problem in the harness): %s" % unconfirmed, file=out)
            code = 2
        elif mismatches:
            print("DETERMINISM-MISMATCH %s" % mismatches[:5], file=out)
            code = 2
        elif agg["ok"] == 0:
            print("no successful run", file=out)
            code = 2
    out.flush()
    return code


def _clip(obj, n=40):
    if isinstance(obj, dict):
        return {k: _clip(v, n) for k, v in obj.items()}
    if isinstance(obj, list):
        return [_clip(x, n) for x in obj[:n]] + (["... %d more" % (len(obj) - n)] if len(obj) > n else [])
    return obj


def replay_file(check, path, jobs=1, ignore_known=False):
    from sim.pool import Pool
    with open(path) as f:
        rp = json.load(f)
    if hasattr(check, "warm"):
        check.warm()
    load_known(check.ID)
    pool = Pool(lambda job: run_one(check, job), jobs=1)
    out = []
    pool.run([{"seed": rp["seed"], "replay": {"plan": rp["plan"], "tapes": rp["tapes"], "neutral": rp.get("neutral", [])},
               "ignore_known": ignore_known, "want_log": True}],
             lambda res, job: out.append(res))
    pool.close()
    r = out[0]
    print("replay %s: status=%s rule=%s sig=%s" % (path, r["status"], r.get("rule"), r.get("sig")))
    print("  %s" % r.get("msg"))
    if r.get("trace"):
        print(r["trace"])
    for line in r.get("log") or []:
        print("   ", line)
    if r["status"] == "violation" and r["rule"] == rp["rule"]:
        print("VIOLATION property=%s replay=%s" % (check.ID, path))
        return 1
    return 0 if r["status"] == "ok" else 2
