"""C18 - Logic blocks count, accrue and sequence exactly as specified.

SUT: real Counter / Accrual / Sequence devices, machine-wide (c0, a0, s0), inside a non-game mode m1
(c1, a1, s1: fresh state at every mode start) and inside a game mode g1 (c2, a2, s2: optionally
persist_state, two players), with the real EventManager, DelayManager, Mode and Game code around them.
Per-run configuration swarm (patched into the YAML config before MPF validates it): direction, interval,
start / completion values, reset_on_complete, disable_on_complete, multiple_hit_window, logic_block_timeout,
start_enabled / enable_events, add / subtract / jump control events, shared step events, persist_state,
a counter whose completion event is an accrual step (chained blocks), control events in the "event: delay" form
(several delays, two events with the same delay for the same action; machine-wide and mode-based path).

Workload: count / step events, enable, disable, reset, restart, control events, advance_random, direct API
calls, mode start/stop, ball end / player change / game end, time passing.  Stimuli are ordinary loop
timers (sim.at), biased onto the pending deadlines of the block they address (end of the hit window,
timeout instant, +-1 ms), so that they race with MPF's own timers under tie permutation and loop stalls.

Oracle: the reference models in /verif/models/logic_blocks.py (written from the statement).  The harness
registers one handler in front of and one behind MPF's own handlers of every stimulus event; the model is
advanced when MPF *processes* the stimulus, and what MPF posted while processing it (hit / complete /
updated events, recorded at the event bus) and the block's value / enabled / completed afterwards are
compared with the model.  <name>_timeout events observed on the bus drive the model's reset; they are only
legal at a deadline the model knows, and required when the timer was started in a documented way.
Delayed control events: every processed occurrence is remembered with its instant + delay; a read-only tap on
DelayManager._process_delay_callback shows when a delay carries out a block's control method - that must be
exactly one pending occurrence's instant (late only by a stall), and every required occurrence must be carried out.
"""
from sim.harness import draw_knobs

ID = "C18"
LEVEL = "exploration"
RUNS = {"quick": 2500, "thorough": 50000}
WALL_CAP = {"quick": 120, "thorough": 3000}
RULE = ("one case = one drawn configuration of nine logic blocks (3 counters, 3 accruals, 3 sequences; machine-wide, "
        "in a non-game mode, in a game mode with/without persist_state) plus one generated history of 8-45 "
        "operations (hits, steps in and out of order, enable/disable/reset/restart, add/subtract/jump, direct "
        "calls, delayed control events in bursts closer together than their delay, mode stop/start, ball end, "
        "player add, game end) whose instants are biased onto the pending "
        "window-end / timeout deadlines of the addressed block (+-1 ms), executed on the real devices under a "
        "seeded scheduler (loop stalls, same-instant tie permutations); a case is non-trivial when it reached at "
        "least one reach probe; distinct = distinct sequence of observed event kinds")
PROBES = ["hit_accepted", "hit_in_window", "hit_window_tie", "hit_after_window", "hit_while_disabled",
          "hit_while_completed", "hit_not_loaded", "window_reload", "stall_extended_window",
          "complete", "complete_reset", "complete_disable", "complete_stays", "ctl_applied", "ctl_complete",
          "ctl_not_loaded", "timeout_fired", "timeout_late_after_stall", "op_at_timeout_instant",
          "op_then_timeout_same_instant", "timeout_then_op_same_instant", "enable_while_enabled",
          "reset_while_disabled", "seq_in_order", "seq_out_of_order", "seq_shared_event", "acc_repeat_step",
          "acc_random", "acc_shared_event", "chain_step", "mode_stop_with_timer", "mode_restart",
          "persist_restore", "player_switch", "direct_call", "step_while_disabled", "timer_may_candidate",
          "delayed_posted", "delayed_fired", "delayed_overlap", "delayed_two_events_same_delay",
          "delayed_mode_path", "delayed_fired_late_after_stall", "delayed_relaxed_by_mode_stop",
          "delayed_dropped_by_mode_stop", "delayed_not_loaded", "op_at_delayed_instant"]
REAL = ["mpf.devices.logic_blocks.Counter/Accrual/Sequence/LogicBlock", "mpf.core.delays.DelayManager",
        "mpf.core.events.EventManager", "mpf.core.mode.Mode (mode devices, mode event handlers)",
        "mpf.core.device_manager (control events)", "mpf.modes.game (players, ball end)", "mpf.core.player.Player",
        "config validation of the patched logic block sections", "MachineController boot"]
STUBS = ["event loop (SimLoop: virtual time, stalls, tie order)", "clock (SimClock)", "virtual hardware platform",
         "in-memory data manager", "playfield.add_ball replaced by a counter (game without ball devices, as "
         "mpf.tests.MpfFakeGameTestCase does)"]
ASSUMPTIONS = ["call_soon FIFO order is kept (asyncio guarantees it)",
               "time does not advance inside one loop iteration; lateness only through injected stalls",
               "Mode.mode_will_start / Mode.mode_stop are called synchronously right before device load / unload "
               "(documented extension points; used only to observe)"]
STATE_ABSTRACTION = ("(block kind, scope, enabled, completed, value bucket, inside window, timer running, last op, "
                     "verdict) of the addressed block after every processed operation")
TECHNIQUE = "model-based exploration with reference state machines, deadline-biased stimuli, stalls and tie permutation"

EPS = 1e-9
BLOCKS = [("c0", "counter", "machine"), ("a0", "accrual", "machine"), ("s0", "sequence", "machine"),
          ("c1", "counter", "m1"), ("a1", "accrual", "m1"), ("s1", "sequence", "m1"),
          ("c2", "counter", "g1"), ("a2", "accrual", "g1"), ("s2", "sequence", "g1")]
SECTION = {"counter": "counters", "accrual": "accruals", "sequence": "sequences"}
DTS = [0.0, 0.0, 0.001, 0.01, 0.05, 0.1, 0.1, 0.25, 0.25, 0.5, 1.0, 2.0]
WINDOWS = [(0, 3), (100, 1), (250, 1), (500, 2), (1000, 1)]
TIMEOUTS = [(0, 4), (300, 1), (500, 1), (1000, 1), (2000, 1)]


# ------------------------------------------------------------------------------------------------
# plan: configuration swarm + history


def _gen_common(ch, cfg, scope):
    cfg["scope"] = scope
    cfg["reset_on_complete"] = ch.weighted("roc", [(None, 2), (True, 1), (False, 2)])
    cfg["disable_on_complete"] = ch.weighted("doc", [(None, 2), (True, 1), (False, 3)])
    cfg["enable_events"] = ch.flag("enable_events", 0.4)
    cfg["start_enabled"] = ch.weighted("start_enabled", [(None, 4), (True, 1), (False, 1)])
    cfg["timeout_ms"] = ch.weighted("timeout", TIMEOUTS)
    cfg["persist"] = bool(scope == "g1" and ch.flag("persist", 0.6))
    return cfg


def _gen_counter(ch, name, scope):
    cfg = {"kind": "counter"}
    _gen_common(ch, cfg, scope)
    d = ch.weighted("direction", [("up", 2), ("down", 1)])
    cfg["direction"] = d
    cfg["interval"] = ch.pick("interval", [1, 1, 2, 3, -1, -2])
    step = abs(cfg["interval"])
    if d == "up":
        cfg["start"] = ch.pick("start", [0, 0, 2, -1])
        goal = ch.weighted("goal", [("near", 4), ("far", 1), ("off_grid", 1), (None, 1)])
        n = {"near": 1 + ch.choice("goal_n", 3), "far": 6, "off_grid": 2, None: 0}[goal]
        cfg["complete"] = None if goal is None else cfg["start"] + n * step - (1 if goal == "off_grid" and step > 1 else 0)
    else:
        cfg["start"] = ch.pick("start", [5, 3, 10, 1])
        goal = ch.weighted("goal", [("near", 4), ("far", 1), ("off_grid", 1), (None, 1)])
        n = {"near": 1 + ch.choice("goal_n", 3), "far": 6, "off_grid": 2, None: 0}[goal]
        cfg["complete"] = None if goal is None else cfg["start"] - n * step + (1 if goal == "off_grid" and step > 1 else 0)
    cfg["window_ms"] = ch.weighted("window", WINDOWS if scope == "machine" else WINDOWS + [(2000, 2)])
    ctl = []
    for i in range(ch.choice("nctl", 4)):
        act = ch.pick("ctl_action", ["add", "subtract", "jump"])
        if act == "jump":
            base = cfg["complete"] if cfg["complete"] is not None else cfg["start"]
            val = ch.pick("ctl_jump", [cfg["start"], base, base - 1, base + 1, 25, -3, 0])
        else:
            val = ch.pick("ctl_val", [1, 2, 3, 5, 0])
        ctl.append({"event": "%s_ctl%d" % (name, i), "action": act, "value": val})
    cfg["controls"] = ctl
    return cfg


def _gen_steps(ch, name, kind):
    n = 2 + ch.choice("nsteps", 3)
    style = ch.weighted("step_style", [("plain", 4), ("multi", 1), ("shared", 2 if kind == "sequence" else 1)])
    if style == "plain":
        return [["%s_e%d" % (name, i)] for i in range(n)]
    if style == "multi":
        return [["%s_e%d" % (name, i), "%s_x%d" % (name, i)] for i in range(n)]
    pat = ch.pick("shared_pat", [[0, 1, 0], [0, 0], [0, 1, 0, 1], [0, 1, 1], [0, 0, 0]])
    return [["%s_e%d" % (name, i)] for i in pat]


DELAYED_OPS = {"counter": [("count", 7), ("disable", 1), ("reset", 1), ("restart", 1), ("enable", 1)],
               "accrual": [("random", 3), ("disable", 1), ("reset", 1), ("restart", 1), ("enable", 1)],
               "sequence": [("disable", 1), ("reset", 1), ("restart", 1), ("enable", 1)]}
DELAYED_KEY = {"count": "count_events", "enable": "enable_events", "disable": "disable_events",
               "reset": "reset_events", "restart": "restart_events", "random": "advance_random_events"}


def _gen_delayed(ch, name, kind, cfg):
    """Control events in the "event: delay" form: 1-4 extra events, several delays, and with a good share two
    different events with the same delay for the same action."""
    if not ch.flag("delayed", 0.45):
        return []
    out = []
    for k in range(1 + ch.choice("ndelayed", 4)):
        if out and ch.flag("d_same", 0.4):
            op, ms = out[-1]["op"], out[-1]["ms"]
        else:
            op = ch.weighted("d_op", DELAYED_OPS[kind])
            if op == "enable" and not cfg["enable_events"]:
                op = "reset"        # an enable event would change the documented start state
            ms = ch.pick("d_ms", [100, 250, 500, 500, 1000])
        out.append({"op": op, "event": "%s_d%d" % (name, k), "ms": ms})
    return out


def _gen_block(ch, name, kind, scope):
    if kind == "counter":
        cfg = _gen_counter(ch, name, scope)
    else:
        cfg = {"kind": kind}
        _gen_common(ch, cfg, scope)
        cfg["steps"] = _gen_steps(ch, name, kind)
    cfg["delayed"] = _gen_delayed(ch.sub("delayed"), name, kind, cfg)
    return cfg


def default_cfg(name, kind, scope):
    cfg = {"kind": kind, "scope": scope, "reset_on_complete": None, "disable_on_complete": None,
           "enable_events": False, "start_enabled": None, "timeout_ms": 0, "persist": False, "delayed": []}
    if kind == "counter":
        cfg.update(direction="up", interval=1, start=0, complete=None, window_ms=0, controls=[])
    else:
        cfg["steps"] = [["%s_e0" % name], ["%s_e1" % name]]
    return cfg


def _block_ops(cfg):
    if cfg["kind"] == "counter":
        ops = [("count", 10), ("enable", 2), ("disable", 2), ("reset", 2), ("restart", 1.5)]
        if cfg["controls"]:
            ops.append(("ctl", 3))
    else:
        ops = [("step", 10), ("enable", 2), ("disable", 2), ("reset", 1.5), ("restart", 1.5)]
        if cfg["kind"] == "accrual":
            ops.append(("random", 1.5))
    if cfg.get("delayed"):
        ops.append(("delayed", 6))
    return ops


def _gen_when(ch):
    w = ch.weighted("when", [("rel", 5), ("deadline", 5)])
    if w == "rel":
        return ["rel", ch.pick("dt", DTS)]
    return ["deadline", ch.choice("dl_idx", 3), ch.pick("dl_delta", [0.0, 0.0, 0.0, -0.001, 0.001, 0.0, -0.01, 0.01,
                                                                       -0.05, 0.0005, -0.0005])]


def plan(ch, tier):
    knobs = draw_knobs(ch)
    cfgs = {}
    nfocus = 1 + ch.choice("nfocus", 3)
    order = ch.shuffle_perm("focus", len(BLOCKS))
    focus = [BLOCKS[i][0] for i in order[:nfocus]]
    for name, kind, scope in BLOCKS:
        # blocks nobody talks to keep the default config most of the time (cheaper boots, simpler repros)
        if name in focus or ch.flag("cfg_other." + name, 0.3):
            cfgs[name] = _gen_block(ch.sub("cfg." + name), name, kind, scope)
        else:
            cfgs[name] = default_cfg(name, kind, scope)
    chain = bool(ch.flag("chain", 0.25))
    if chain:
        # completion of c0 is (also) step 0 of accrual a0
        cfgs["c0"]["complete_events"] = ["logicblock_c0_complete", cfgs["a0"]["steps"][0][0]]
    scopes = {cfgs[b]["scope"] for b in focus}
    game = ("g1" in scopes) or ch.flag("game", 0.2)
    m1_start = ch.flag("m1_start", 0.75)
    players = 1 + (1 if game and ch.flag("two_players", 0.5) else 0)
    n = 8 + ch.choice("nops", 38)
    ops = []
    names = [b[0] for b in BLOCKS]
    p_struct = 0.22 if scopes != {"machine"} else 0.08
    for _ in range(n):
        struct = ch.flag("struct", p_struct)
        if struct:
            cand = []
            if "m1" in scopes or not game:
                cand += [("stop_m1", 2), ("start_m1", 2), ("bounce_m1", 2)]
            if game:
                cand += [("end_ball", 4), ("stop_g1", 1), ("start_g1", 1), ("bounce_g1", 1.5), ("add_player", 0.5),
                         ("end_game", 0.4), ("start_game", 0.6)]
            op = {"op": ch.weighted("struct_op", cand), "when": _gen_when(ch)}
            op["blk"] = ch.pick("struct_ref", focus)      # deadlines of this block are used for "deadline" whens
            if op["op"].startswith("bounce"):
                op["gap"] = ch.pick("bounce_gap", [0.0, 0.0, 0.01, 0.1])
            ops.append(op)
            continue
        blk = ch.pick("blk_focus", focus) if ch.flag("on_focus", 0.85) else ch.pick("blk_any", names)
        cfg = cfgs[blk]
        kind = ch.weighted("op." + cfg["kind"], _block_ops(cfg))
        op = {"op": kind, "blk": blk, "when": _gen_when(ch), "via": "call" if ch.flag("via_call", 0.12) else "event"}
        if kind == "ctl":
            op["i"] = ch.choice("ctl_i", len(cfg["controls"]))
            op["via"] = "event"
        elif kind == "step":
            nsteps = len(cfg["steps"])
            # biased towards the next step in order; the harness resolves "next" against the live model
            op["step"] = ch.weighted("step_sel", [("next", 5), ("any", 3), ("prev", 1)])
            op["i"] = ch.choice("step_i", nsteps)
            op["alt"] = ch.choice("step_alt", 2)
        elif kind == "random":
            op["via"] = "event"
        elif kind == "delayed":
            op["via"] = "event"
            op["i"] = ch.choice("delayed_i", len(cfg["delayed"]))
            # a second occurrence (another event of the block, often same action and delay) in the same instant
            if ch.flag("delayed_also", 0.3):
                op["also"] = ch.choice("delayed_also_i", len(cfg["delayed"]))
            if ch.flag("delayed_burst", 0.35):
                op["burst"] = 2 + ch.choice("delayed_burst_n", 2)
        # "wake": make the addressed block reachable first (start its mode / enable it) so that a good share
        # of the operations meets a live, enabled block instead of being trivially ignored
        op["wake"] = bool(ch.flag("wake", 0.55))
        if ch.flag("burst", 0.08):
            op["burst"] = 2 + ch.choice("burst_n", 2)
        ops.append(op)
    return {"knobs": knobs, "cfg": cfgs, "focus": focus, "game": bool(game), "m1_start": bool(m1_start),
            "players": players, "chain": chain, "ops": ops}


def shrink(plan):
    """Extra minimisation candidates: default config for blocks, simpler set-up."""
    import copy
    for name, kind, scope in BLOCKS:
        d = default_cfg(name, kind, scope)
        if plan["cfg"][name] != d and not any(o.get("blk") == name for o in plan["ops"]):
            p = copy.deepcopy(plan)
            p["cfg"][name] = d
            if name in ("c0", "a0"):
                p["chain"] = False
                p["cfg"]["c0"].pop("complete_events", None)
            yield p
    for name, kind, scope in BLOCKS:
        cfg = plan["cfg"][name]
        for key, neutral in (("timeout_ms", 0), ("window_ms", 0), ("persist", False), ("enable_events", False),
                             ("start_enabled", None), ("reset_on_complete", None), ("disable_on_complete", None)):
            if key in cfg and cfg[key] != neutral:
                p = copy.deepcopy(plan)
                p["cfg"][name][key] = neutral
                yield p
    for name, kind, scope in BLOCKS:
        if plan["cfg"][name].get("delayed") and not any(o.get("blk") == name and o["op"] == "delayed"
                                                          for o in plan["ops"]):
            p = copy.deepcopy(plan)
            p["cfg"][name]["delayed"] = []
            yield p
    if plan.get("players", 1) > 1:
        p = copy.deepcopy(plan)
        p["players"] = 1
        yield p
    for i, op in enumerate(plan["ops"]):
        if op.get("burst"):
            p = copy.deepcopy(plan)
            del p["ops"][i]["burst"]
            yield p
        if "also" in op:
            p = copy.deepcopy(plan)
            del p["ops"][i]["also"]
            yield p
        if op.get("wake"):
            p = copy.deepcopy(plan)
            p["ops"][i]["wake"] = False
            yield p
        if op["when"][0] == "deadline" or (op["when"][0] == "rel" and op["when"][1] not in (0.0, 0.1)):
            p = copy.deepcopy(plan)
            p["ops"][i]["when"] = ["rel", 0.1]
            yield p


def warm():
    """Zygote: parse the YAML once and import every module a boot needs (one throw-away boot of the skeleton
    config; every child starts from this identical warmed state and builds its own machine)."""
    from sim.machine import preload, Sim
    from sim.chooser import Chooser
    import checks._c18_helpers      # noqa: F401
    preload("c18")
    s = Sim(Chooser(seed="c18-warm"), "c18")
    s.boot()
    s.stop()


# ------------------------------------------------------------------------------------------------
# config patches


def _mpf_block_config(name, cfg):
    c = {"disable_events": "%s_disable" % name, "reset_events": "%s_reset" % name,
         "restart_events": "%s_restart" % name}
    if cfg["enable_events"]:
        c["enable_events"] = "%s_enable" % name
    if cfg["start_enabled"] is not None:
        c["start_enabled"] = cfg["start_enabled"]
    if cfg["reset_on_complete"] is not None:
        c["reset_on_complete"] = cfg["reset_on_complete"]
    if cfg["disable_on_complete"] is not None:
        c["disable_on_complete"] = cfg["disable_on_complete"]
    if cfg["timeout_ms"]:
        c["logic_block_timeout"] = "%dms" % cfg["timeout_ms"]
    if cfg["persist"]:
        c["persist_state"] = True
    if cfg.get("complete_events"):
        c["events_when_complete"] = list(cfg["complete_events"])
    if cfg["kind"] == "counter":
        c["count_events"] = "%s_count" % name
        c["direction"] = cfg["direction"]
        c["count_interval"] = cfg["interval"]
        c["starting_count"] = cfg["start"]
        if cfg["complete"] is not None:
            c["count_complete_value"] = cfg["complete"]
        if cfg["window_ms"]:
            c["multiple_hit_window"] = "%dms" % cfg["window_ms"]
        if cfg["controls"]:
            c["control_events"] = [dict(x) for x in cfg["controls"]]
    else:
        c["events"] = [", ".join(s) for s in cfg["steps"]]
        if cfg["kind"] == "accrual":
            c["advance_random_events"] = "%s_random" % name
    # control events with a delay: the "event: delay" dict form next to the undelayed event
    for d in cfg.get("delayed") or []:
        key = DELAYED_KEY[d["op"]]
        if not isinstance(c.get(key), dict):
            c[key] = {c[key]: 0} if c.get(key) else {}
        c[key][d["event"]] = "%dms" % d["ms"]
    return c


def build_patches(cfgs):
    patches, mode_patches = {}, {}
    for name, kind, scope in BLOCKS:
        tgt = patches if scope == "machine" else mode_patches.setdefault(scope, {})
        tgt.setdefault(SECTION[kind], {})[name] = _mpf_block_config(name, cfgs[name])
    return patches, mode_patches


# ------------------------------------------------------------------------------------------------
# execution


def on_crash(ctx, crash):
    """The property covers every history of events; none of them may take MPF down from inside a logic block."""
    import traceback
    exc = crash.exc
    frames = []
    e = exc
    while e is not None:
        frames += traceback.extract_tb(e.__traceback__)
        e = e.__cause__ or e.__context__
    inside = [f for f in frames if f.filename.endswith("devices/logic_blocks.py")]
    if not inside:
        return None
    fn = inside[-1].name
    cause = exc
    while getattr(cause, "__cause__", None) is not None:
        cause = cause.__cause__
    return ("crash", "%s in %s" % (type(cause).__name__, fn),
            "MPF stopped with %r raised in logic_blocks.%s (line %d) at t=%.6f; last ops: %r"
            % (cause, fn, inside[-1].lineno, ctx.info.get("t", -1.0), ctx.info.get("last_ops")))


class Harness:

    def __init__(self, ctx, plan):
        from models.logic_blocks import make_model
        self.ctx = ctx
        self.plan = plan
        self.cfgs = plan["cfg"]
        self.models = {name: make_model(name, self.cfgs[name]) for name, _, _ in BLOCKS}
        self.names = [b[0] for b in BLOCKS]
        self.sim = None
        self.loop = None
        self.devs = {}
        self.window = None             # open op window: {"blk":..., "events": [...]}
        self.upd_buf = {n: [] for n in self.names}
        self.allowed = {n: [] for n in self.names}
        self.changed = {n: False for n in self.names}
        self.player_states = {}
        self.owner = {}
        self.driver_posting = False
        self.boot_enable_t = {}
        self.last_op_t = {n: None for n in self.names}          # instant of the last processed op per block
        self.last_timeout_t = {n: None for n in self.names}
        self.recent = []
        self.verify_scheduled = False
        self.stopping = {}             # mode name -> its stop has begun and is not finished yet
        # event name -> [(block, role)]
        self.roles = {}
        for n in self.names:
            m = self.models[n]
            self._role("logicblock_%s_updated" % n, n, "updated")
            self._role("%s_timeout" % n, n, "timeout")
            for ev in m.hit_events:
                self._role(ev, n, "hit")
            for ev in m.complete_events:
                self._role(ev, n, "complete")
            # events a wrong implementation could post
            self._role("logicblock_%s_hit" % n, n, "hit")
            self._role("logicblock_%s_complete" % n, n, "complete")

    def _role(self, ev, blk, role):
        lst = self.roles.setdefault(ev, [])
        if (blk, role) not in lst:
            lst.append((blk, role))

    # -- stall-aware "when did the loop reach deadline d" ---------------------------------------------
    def landing(self, d, idx):
        sl = self.loop.stall_log
        for k in range(idx, len(sl)):
            nom, landed = sl[k]
            if landed >= d - EPS:
                return landed if nom <= d + EPS else d
        return d

    def sidx(self):
        return len(self.loop.stall_log)

    # -- set-up -------------------------------------------------------------------------------------
    def pre_boot(self, sim):
        # same read-only tap as sim.tap.tap_events, installed before boot (machine.events does not exist yet;
        # one machine per forked child, so the class-level wrapper sees exactly this machine's bus)
        from mpf.core.events import EventManager
        self.sim = sim
        self.loop = sim.loop
        sim.machine.c18_hook = self.mode_hook
        orig = EventManager._post
        on_post = self.on_post

        def _post(em, event, ev_type, callback, **kwargs):
            on_post(event, ev_type, callback, kwargs)
            return orig(em, event, ev_type, callback, **kwargs)
        EventManager._post = _post
        # read-only tap on the one place where a delay carries out its callback: tells *when* a delayed control
        # event acts on a block (the callback is the block's event_<action> method), and lets the harness open
        # its operation window around exactly that call
        from mpf.core.delays import DelayManager
        orig_pdc = DelayManager._process_delay_callback
        wrap = self.wrap_delay_callback

        def _process_delay_callback(dm, name, callback, **kwargs):
            return orig_pdc(dm, name, wrap(callback), **kwargs)
        DelayManager._process_delay_callback = _process_delay_callback

    def after_boot(self):
        m = self.sim.machine
        for name, kind, _ in BLOCKS:
            self.devs[name] = getattr(m, SECTION[kind])[name]
        ev = m.events
        hi, lo = 10 ** 6, -10 ** 6
        for name, kind, scope in BLOCKS:
            cfg = self.cfgs[name]
            stim = [("%s_%s" % (name, k), k, None) for k in ("enable", "disable", "reset", "restart")]
            if kind == "counter":
                stim.append(("%s_count" % name, "count", None))
                for i, c in enumerate(cfg["controls"]):
                    stim.append((c["event"], "ctl", i))
            else:
                seen = []
                for s in cfg["steps"]:
                    for e in s:
                        if e not in seen:
                            seen.append(e)
                for e in seen:
                    stim.append((e, "step", e))
                if kind == "accrual":
                    stim.append(("%s_random" % name, "random", None))
            for evname, op, arg in stim:
                ev.add_handler(evname, self.pre_handler, priority=hi, c18_blk=name, c18_op=op, c18_arg=arg)
                ev.add_handler(evname, self.post_handler, priority=lo, c18_blk=name, c18_op=op, c18_arg=arg)
            for i, d in enumerate(cfg.get("delayed") or []):
                ev.add_handler(d["event"], self.delayed_pre_handler, priority=hi, c18_blk=name, c18_i=i)
                ev.add_handler(d["event"], self.delayed_post_handler, priority=lo, c18_blk=name, c18_i=i)
        for mode in ("m1", "g1"):
            ev.add_handler("mode_%s_starting" % mode, self.mode_starting_handler, priority=lo, c18_mode=mode)
        ev.add_handler("game_started", self.game_started_handler, priority=hi)
        # machine-wide blocks: initial state by the documented start_enabled rule
        for name, kind, scope in BLOCKS:
            if scope != "machine":
                continue
            mdl = self.models[name]
            tr = mdl.boot(self.boot_enable_t.get(name, 0.0), 0)
            self.note_transition(name, tr)
            dev = self.devs[name]
            if bool(dev.enabled) != bool(mdl.enabled):
                cfg = self.cfgs[name]
                self.ctx.violation("start_enabled", "%s scope=machine start_enabled=%r enable_events=%r"
                                   % (kind, cfg["start_enabled"], cfg["enable_events"]),
                                   "%s: after boot enabled=%r, documented start state is %r (start_enabled=%r, "
                                   "enable_events configured=%r)" % (name, bool(dev.enabled), mdl.enabled,
                                                                     cfg["start_enabled"], cfg["enable_events"]))
                # known finding: follow the SUT
                mdl.enabled = bool(dev.enabled)
                if mdl.enabled:
                    mdl.timer.start(self.boot_enable_t.get(name, 0.0), 0, True)
                else:
                    mdl.timer.stop()
        self.verify_all("boot")

    # -- observation at the event bus -----------------------------------------------------------------
    def on_post(self, name, ev_type, callback, kwargs):
        roles = self.roles.get(name)
        if not roles:
            if name in ("mode_m1_will_stop", "mode_g1_will_stop"):
                self.on_mode_will_stop(name[5:7])
            return
        now = self.loop.time()
        if self.driver_posting:
            return          # our own stimulus (only relevant for chained names)
        for blk, role in roles:
            if role == "updated":
                v = kwargs.get("value")
                if isinstance(v, list):
                    v = tuple(v)
                en = bool(kwargs.get("enabled"))
                self.ctx.log("upd", blk, v, en, t=now)
                if not self.sim.booted and en and blk not in self.boot_enable_t:
                    self.boot_enable_t[blk] = now
                self.upd_buf[blk].append((v, en))
            elif role == "timeout":
                self.ctx.log("timeout", blk, t=now)
                self.on_timeout(blk, now)
            else:
                kw = {k: (tuple(v) if isinstance(v, list) else v) for k, v in kwargs.items()}
                self.ctx.log(role, blk, name, sorted(kw.items()), t=now)
                w = self.window
                if w is None:
                    self.ctx.violation("spurious_event", "%s:%s outside any operation" % (self.models[blk].kind, role),
                                       "%s posted at %.6f while no operation on a logic block was being processed "
                                       "(kwargs %r); recent: %r" % (name, now, kw, self.recent[-6:]))
                    return
                w["events"].append((blk, name, kw))
                break       # one posting is one event, even when the name has two roles (chained blocks)

    def on_timeout(self, blk, now):
        mdl = self.models[blk]
        ctx = self.ctx
        if not mdl.loaded:
            ctx.violation("timeout", "%s:timeout while not loaded" % mdl.kind,
                          "%s_timeout posted at %.6f but the block's mode is not running (the timer of a stopped "
                          "mode's block must be stopped); recent: %r" % (blk, now, self.recent[-6:]))
            return
        if not mdl.timer.match(now, self.landing):
            ctx.violation("timeout", "%s:unexpected timeout" % mdl.kind,
                          "%s_timeout posted at %.9f; the model knows the deadlines %r (enabled=%r completed=%r); "
                          "recent: %r" % (blk, now, mdl.timer.deadlines(), mdl.enabled, mdl.completed, self.recent[-8:]))
            # resync for known findings
        ctx.probe("timeout_fired")
        if any(now - d > EPS for d in mdl.timer.deadlines()):
            ctx.probe("timeout_late_after_stall")
        if self.last_op_t[blk] is not None and abs(self.last_op_t[blk] - now) <= EPS:
            ctx.probe("op_then_timeout_same_instant")
        self.last_timeout_t[blk] = now
        tr = mdl.timeout(now, self.sidx())
        self.note_transition(blk, tr)
        self.recent.append(("timeout", blk, round(now, 6)))
        self.schedule_verify()

    # -- control events with a delay ------------------------------------------------------------------------
    def delayed_pre_handler(self, c18_blk=None, c18_i=None, **kwargs):
        """A delayed control event is being processed: from now on one occurrence is in flight."""
        now = self.loop.time()
        ctx = self.ctx
        mdl = self.models[c18_blk]
        d = self.cfgs[c18_blk]["delayed"][c18_i]
        self.prune_timers(now)
        if not mdl.loaded:
            # the control events of a mode-based block are registered only while its mode runs
            ctx.probe("delayed_not_loaded")
            ctx.log("delayed_post", c18_blk, d["op"], d["ms"], "not loaded", t=now)
            return
        ov = mdl.delayed.overlaps(d["op"], d["ms"])
        if ov:
            ctx.probe("delayed_overlap")
            if any(e["event"] != d["event"] for e in ov):
                ctx.probe("delayed_two_events_same_delay")
        must = not self.stopping.get(mdl.scope, False)       # R-delayed-stop
        mdl.delayed.add(d["op"], now, d["ms"], self.sidx(), must, d["event"])
        ctx.probe("delayed_posted")
        if mdl.scope != "machine":
            ctx.probe("delayed_mode_path")
        ctx.log("delayed_post", c18_blk, d["op"], d["ms"], must, t=now)
        self.recent.append(("post+%dms" % d["ms"], c18_blk, d["op"], round(now, 6)))

    def delayed_post_handler(self, c18_blk=None, c18_i=None, **kwargs):
        # nothing may have happened to the block yet
        self.verify_all("delayed event %s posted" % self.cfgs[c18_blk]["delayed"][c18_i]["event"])

    def wrap_delay_callback(self, callback):
        tgt = getattr(callback, "__self__", None)
        fn = getattr(callback, "__name__", "")
        if tgt is None or not fn.startswith("event_"):
            return callback
        blk = None
        for n in self.names:
            if self.devs.get(n) is tgt:
                blk = n
        op = {"advance_random": "random"}.get(fn[6:], fn[6:])
        if blk is None or op not in ("count", "enable", "disable", "reset", "restart", "random"):
            return callback

        def carried_out(**kwargs):
            self.delayed_begin(blk, op)
            callback(**kwargs)
            self.end(blk, op, None)
        return carried_out

    def delayed_begin(self, blk, op):
        now = self.loop.time()
        ctx = self.ctx
        mdl = self.models[blk]
        e = mdl.delayed.take(op, now, self.landing)
        ctx.log("delayed_fire", blk, op, None if e is None else e["ms"], t=now)
        if e is None:
            ctx.violation("delayed_event", "%s:%s carried out without a pending occurrence" % (mdl.kind, op),
                          "%s: a delay carried out %s at %.6f, but no occurrence of a delayed %s event is due at this "
                          "instant (in flight: %r); recent: %r"
                          % (blk, op, now, op, [(x["op"], x["event"], round(x["d"], 6)) for x in mdl.delayed.pending],
                             self.recent[-8:]))
        else:
            ctx.probe("delayed_fired")
            if now - e["d"] > EPS:
                ctx.probe("delayed_fired_late_after_stall")
        self.begin(blk, op, None)
        self.window["delayed"] = True

    def on_mode_will_stop(self, mode):
        """Mode.stop() has begun (posted synchronously at its start): R-delayed-stop."""
        self.stopping[mode] = True
        for name, kind, scope in BLOCKS:
            if scope == mode and self.models[name].delayed.relax():
                self.ctx.probe("delayed_relaxed_by_mode_stop")

    # -- mode life cycle (observed through C18Mode) ---------------------------------------------------
    def mode_hook(self, what, mode):
        now = self.loop.time()
        # persisted state belongs to the player the mode was started for (Mode.player at load time); a mode
        # that survives a player change (mode life-cycle issues are C07's subject) still holds that player's state
        if what == "will_start":
            pl = mode.player.number if (mode.name == "g1" and mode.player is not None) else None
            self.owner[mode.name] = pl
        else:
            pl = self.owner.get(mode.name)
        self.ctx.log("mode", what, mode.name, pl, t=now)
        self.recent.append((what, mode.name, pl, round(now, 6)))
        for name, kind, scope in BLOCKS:
            if scope != mode.name:
                continue
            mdl = self.models[name]
            if what == "will_start":
                saved = self.player_states.get((name, pl)) if mdl.persist else None
                if mdl.epoch:
                    self.ctx.probe("mode_restart")
                if saved is not None:
                    self.ctx.probe("persist_restore")
                self.upd_buf[name] = []
                self.allowed[name] = []
                self.stopping[mode.name] = False
                mdl.delayed.drop_all()
                mdl.load(saved, now, self.sidx())
            else:
                if mdl.timer.running():
                    self.ctx.probe("mode_stop_with_timer")
                self.verify_block(name, "before unload")
                self.stopping[mode.name] = False
                if mdl.delayed.drop_all():
                    self.ctx.probe("delayed_dropped_by_mode_stop")
                saved = mdl.unload()
                if mdl.persist:
                    self.player_states[(name, pl)] = saved
        self.schedule_verify()

    def mode_starting_handler(self, c18_mode=None, **kwargs):
        now = self.loop.time()
        for name, kind, scope in BLOCKS:
            if scope == c18_mode:
                tr = self.models[name].mode_starting(now, self.sidx())
                self.note_transition(name, tr)
        self.verify_all("mode %s starting" % c18_mode)

    def game_started_handler(self, **kwargs):
        self.player_states = {}      # a new game has new players

    # -- bookkeeping of what "updated" events may carry ------------------------------------------------
    def note_transition(self, blk, tr):
        self.allowed[blk].extend(tr.states)
        if tr.changed:
            self.changed[blk] = True

    def schedule_verify(self):
        if not self.verify_scheduled:
            self.verify_scheduled = True
            self.loop.call_soon(self._deferred_verify)

    def _deferred_verify(self):
        self.verify_scheduled = False
        self.verify_all("deferred")

    def sut_state(self, name):
        dev = self.devs[name]
        v = dev.value
        if v is None and dev._state is None:
            return None
        if isinstance(v, list):
            v = tuple(v)
        return (v, bool(dev.enabled), bool(dev.completed))

    def verify_block(self, name, why):
        ctx = self.ctx
        mdl = self.models[name]
        exp = mdl.full_state()
        got = self.sut_state(name)
        if got != exp:
            if got is None or exp is None:
                ctx.violation("loaded", "%s:%s" % (mdl.kind, "sut unloaded" if got is None else "sut loaded"),
                              "%s (%s): device state %r, model %r at %.6f; recent: %r"
                              % (name, why, got, exp, self.loop.time(), self.recent[-8:]))
            else:
                field = "value" if got[0] != exp[0] else ("enabled" if got[1] != exp[1] else "completed")
                ctx.violation(field + "_mismatch", "%s:%s after %s" % (mdl.kind, field, self.last_kind(name)),
                              "%s (%s): device (value, enabled, completed) = %r, reference model = %r at %.6f; "
                              "config %r; recent: %r" % (name, why, got, exp, self.loop.time(), self.cfgs[name],
                                                         self.recent[-8:]))
            self.resync(name)
        # "updated" events: every payload is a state the block passed through; the last one is the final state
        obs = self.upd_buf[name]
        if obs or self.changed[name]:
            cur = mdl.pub_state()
            ok_states = [s for s in self.allowed[name] if s is not None]
            if cur is not None:
                ok_states.append(cur)
            for o in obs:
                if o not in ok_states:
                    ctx.violation("updated_event", "%s:payload is not a state of the block" % mdl.kind,
                                  "logicblock_%s_updated carried %r; states passed through: %r; recent: %r"
                                  % (name, o, ok_states, self.recent[-6:]))
            if self.changed[name] and cur is not None and (not obs or obs[-1] != cur):
                ctx.violation("updated_event", "%s:last update is not the final state" % mdl.kind,
                              "%s changed to %r but the updated events were %r; recent: %r"
                              % (name, cur, obs, self.recent[-6:]))
        self.upd_buf[name] = []
        self.allowed[name] = []
        self.changed[name] = False

    def last_kind(self, name):
        for r in reversed(self.recent):
            if len(r) > 1 and r[1] == name:
                return r[0]
        return "start"

    def resync(self, name):
        """Only reached for recorded known findings: continue from the SUT's state."""
        mdl = self.models[name]
        got = self.sut_state(name)
        if got is None:
            mdl.loaded = False
            return
        mdl.loaded = True
        v = got[0]
        mdl.value = list(v) if isinstance(v, tuple) else v
        mdl.enabled, mdl.completed = got[1], got[2]

    def verify_all(self, why):
        for n in self.names:
            self.verify_block(n, why)

    def prune_timers(self, now):
        for n in self.names:
            mdl = self.models[n]
            missed = mdl.timer.prune(now, self.landing)
            if missed is not None:
                self.ctx.violation("timeout", "%s:timeout missed" % mdl.kind,
                                   "%s: the timeout due at %.6f never fired (now %.6f, enabled=%r completed=%r); "
                                   "recent: %r" % (n, missed, now, mdl.enabled, mdl.completed, self.recent[-8:]))
            for e in mdl.delayed.prune(now, self.landing):
                self.ctx.violation("delayed_event", "%s:%s occurrence lost" % (mdl.kind, e["op"]),
                                   "%s: event %s (delay %d ms) was processed at %.6f, so %s was due at %.6f - it was "
                                   "never carried out (now %.6f); other occurrences in flight: %r; recent: %r"
                                   % (n, e["event"], e["ms"], e["t"], e["op"], e["d"], now,
                                      [(x["op"], x["event"], round(x["d"], 6)) for x in mdl.delayed.pending],
                                      self.recent[-8:]))

    # -- one processed operation -------------------------------------------------------------------
    def begin(self, blk, op, arg):
        now = self.loop.time()
        if self.window is not None:
            raise AssertionError("nested operation window %r inside %r" % ((blk, op), self.window))
        self.prune_timers(now)
        mdl = self.models[blk]
        if mdl.timer.match(now, self.landing):
            self.ctx.probe("op_at_timeout_instant")
        if any(abs(self.landing(e["d"], e["idx"]) - now) <= EPS for e in mdl.delayed.pending):
            self.ctx.probe("op_at_delayed_instant")
        if self.last_timeout_t[blk] is not None and abs(self.last_timeout_t[blk] - now) <= EPS:
            self.ctx.probe("timeout_then_op_same_instant")
        self.window = {"blk": blk, "op": op, "arg": arg, "events": [], "t": now}

    def end(self, blk, op, arg):
        ctx = self.ctx
        w = self.window
        self.window = None
        if w is None or w["blk"] != blk or w["op"] != op:
            raise AssertionError("operation window mismatch %r vs %r" % (w, (blk, op)))
        now = self.loop.time()
        mdl = self.models[blk]
        idx = self.sidx()
        mine = [(n, kw) for b, n, kw in w["events"] if b == blk]
        other = [(b, n, kw) for b, n, kw in w["events"] if b != blk]
        verdict = ""
        if op == "count":
            verdict, reason = mdl.hit_verdict(now, self.landing)
            if verdict == "either":
                accepted = any(n == "logicblock_%s_hit" % blk for n, _ in mine)
                ctx.probe("hit_window_tie" if reason == "window_tie" else "window_reload")
                if reason == "window_tie" and now - mdl.window[0] > EPS:
                    ctx.probe("stall_extended_window")
            else:
                accepted = verdict == "accept"
                ctx.probe({"not_loaded": "hit_not_loaded", "disabled": "hit_while_disabled", "open": "hit_accepted",
                           "in_window": "hit_in_window", "after_window": "hit_after_window"}[reason])
            tr = mdl.hit(now, idx, accepted)
        elif op == "ctl":
            c = self.cfgs[blk]["controls"][arg]
            if not mdl.loaded:
                ctx.probe("ctl_not_loaded")
            else:
                ctx.probe("ctl_applied")
            tr = mdl.control(c["action"], c["value"], now, idx)
        elif op == "step":
            tr = mdl.step_event(arg, now, idx) if isinstance(arg, str) else mdl.step_index(arg, now, idx)
            if sum(1 for s in mdl.steps if isinstance(arg, str) and arg in s) > 1:
                ctx.probe("seq_shared_event" if mdl.kind == "sequence" else "acc_shared_event")
        elif op == "random":
            opens = mdl.open_steps()
            hits = [kw.get("step") for n, kw in mine if n in mdl.hit_events]
            if opens and hits and hits[0] in opens:
                ctx.probe("acc_random")
                tr = mdl.step_index(hits[0], now, idx)        # R-random: any open step
            elif opens:
                ctx.violation("hit_event", "accrual:advance_random did not advance an open step",
                              "%s: advance_random with open steps %r posted %r" % (blk, opens, mine))
                tr = mdl.step_index(opens[0], now, idx)
            else:
                from models.logic_blocks import Transition
                tr = Transition(mdl)
        else:
            tr = getattr(mdl, op)(now, idx)
        for note in tr.notes:
            p = {"complete": "complete", "complete_reset": "complete_reset", "complete_disable": "complete_disable",
                 "ctl_complete": "ctl_complete", "enable_while_enabled": "enable_while_enabled",
                 "reset_while_disabled": "reset_while_disabled", "hit_while_completed": "hit_while_completed",
                 "already_completed": "hit_while_completed", "repeat_step": "acc_repeat_step",
                 "in_order": "seq_in_order", "out_of_order": "seq_out_of_order",
                 "disabled": "step_while_disabled"}.get(note)
            if p:
                ctx.probe(p)
        if "complete" in tr.notes and "complete_reset" not in tr.notes and "complete_disable" not in tr.notes:
            ctx.probe("complete_stays")
        if mdl.timer.running() and not mdl.timer.must:
            ctx.probe("timer_may_candidate")
        if w.get("chained"):
            ctx.probe("chain_step")
        self.note_transition(blk, tr)
        self.last_op_t[blk] = now
        self.recent.append((op, blk, arg, round(now, 6), verdict))
        del self.recent[:-12]
        ctx.info["t"] = now
        ctx.info["last_ops"] = self.recent[-6:]
        ctx.log("op", op, blk, arg, verdict, t=now)
        # events: exactly the expected ones, in order
        exp = tr.events
        if mdl.kind == "accrual" and len(exp) > 1:
            key = lambda e: (e[0], sorted(e[1].items()))        # noqa: E731  order among steps sharing an event is open
            same = sorted(mine, key=key) == sorted(exp, key=key)
        else:
            same = mine == exp
        if not same:
            exp_hits = [e for e in exp if e[0] in mdl.hit_events]
            got_hits = [e for e in mine if e[0] in mdl.hit_events or e[0] == "logicblock_%s_hit" % blk]
            rule = "hit_event" if exp_hits != got_hits else "complete_event"
            n_exp_c, n_got_c = len(exp) - len(exp_hits), len(mine) - len(got_hits)
            what = ("%d hit events instead of %d" % (len(got_hits), len(exp_hits))) if len(exp_hits) != len(got_hits) \
                else ("hit event arguments" if rule == "hit_event" else
                      "%d completion events instead of %d" % (n_got_c, n_exp_c) if n_exp_c != n_got_c else "event order")
            ctx.violation(rule, "%s:%s on %s" % (mdl.kind, what, op),
                          "%s %s(%r) processed at %.6f (%s) posted %r, the reference model expects %r; config %r; "
                          "recent: %r" % (blk, op, arg, now, verdict, mine, exp, self.cfgs[blk], self.recent[-8:]))
        if other:
            ctx.violation("spurious_event", "%s:event of another block during %s" % (mdl.kind, op),
                          "while %s %s was processed, events of other blocks were posted: %r" % (blk, op, other))
        self.verify_all("%s %s" % (blk, op))
        inwin = mdl.kind == "counter" and mdl.window is not None and now < mdl.window[0] - EPS
        v = mdl.pub_value() if mdl.loaded else None
        ctx.state(mdl.kind, mdl.scope, mdl.loaded, mdl.enabled, mdl.completed,
                  (v if mdl.kind != "counter" else max(-3, min(8, v))) if v is not None else None,
                  inwin, mdl.timer.running(), mdl.timer.must, op, verdict)

    def pre_handler(self, c18_blk=None, c18_op=None, c18_arg=None, c18_driver=False, **kwargs):
        self.begin(c18_blk, c18_op, c18_arg)
        if not c18_driver:
            self.window["chained"] = True      # posted by MPF itself (completion event of a chained block)

    def post_handler(self, c18_blk=None, c18_op=None, c18_arg=None, **kwargs):
        self.end(c18_blk, c18_op, c18_arg)


def execute(ctx, plan):
    h = Harness(ctx, plan)
    patches, mode_patches = build_patches(plan["cfg"])
    sim = ctx.new_sim("c18", patches=patches, mode_patches=mode_patches, pre_boot=h.pre_boot)
    loop = sim.loop
    stall_was = loop.stall_enabled
    sim.boot()
    m = sim.machine
    h.after_boot()

    def _add_ball(**kwargs):
        m.playfield.balls += 1
        m.playfield.available_balls += 1
    m.playfield.add_ball = _add_ball
    m.ball_controller.num_balls_known = 3

    def post(ev):
        # stimulus: remember that the posting is ours (a chained block may post the same name itself)
        h.driver_posting = True
        try:
            m.events.post(ev, c18_driver=True)
        finally:
            h.driver_posting = False

    def start_game():
        if m.game is None:
            sim.hit_switch("s_start", 1)
            sim.after(0.01, sim.hit_switch, "s_start", 0)

    # ---- set-up phase (no stalls): optional game, optional m1 ----
    loop.stall_enabled = False
    if plan["m1_start"]:
        post("start_m1")
    if plan["game"]:
        start_game()
        sim.run(0.5)
        if m.game is None:
            raise AssertionError("game did not start")
        for _ in range(plan.get("players", 1) - 1):
            m.game.request_player_add()
    sim.run(0.05)
    loop.stall_enabled = stall_was
    h.verify_all("setup")

    ops = plan["ops"]
    idx = [0]
    done = [False]

    def resolve_step(op, mdl):
        steps = mdl.steps
        if op["step"] == "next" and mdl.loaded:
            if mdl.kind == "sequence":
                i = mdl.value if mdl.value < len(steps) else 0
            else:
                opens = [k for k, v in enumerate(mdl.value) if not v]
                i = opens[op["i"] % len(opens)] if opens else op["i"] % len(steps)
        elif op["step"] == "prev" and mdl.loaded and mdl.kind == "sequence":
            i = max(0, min(len(steps) - 1, mdl.value - 1))
        else:
            i = op["i"] % len(steps)
        return i, steps[i][op["alt"] % len(steps[i])]

    def do_op(op):
        kind = op["op"]
        now = loop.time()
        if kind in ("start_m1", "stop_m1", "start_g1", "stop_g1"):
            ctx.log("struct", kind, t=now)
            post(kind)
            return
        if kind in ("bounce_m1", "bounce_g1"):
            # stop the mode and start it again right away / shortly after (a hit window or a timeout of the
            # previous incarnation is then still pending)
            ctx.log("struct", kind, op["gap"], t=now)
            mode = kind[-2:]
            post("stop_" + mode)
            if op["gap"] == 0.0:
                post("start_" + mode)
            else:
                sim.after(op["gap"], post, "start_" + mode)
            return
        if kind == "end_ball":
            if m.game is not None and m.game.player is not None:
                ctx.log("struct", kind, t=now)
                if m.game.num_players > 1:
                    ctx.probe("player_switch")
                m.game.end_ball()
            return
        if kind == "add_player":
            if m.game is not None:
                ctx.log("struct", kind, t=now)
                m.game.request_player_add()
            return
        if kind == "end_game":
            if m.game is not None:
                ctx.log("struct", kind, t=now)
                m.game.end_game()
            return
        if kind == "start_game":
            ctx.log("struct", kind, t=now)
            start_game()
            return
        blk = op["blk"]
        mdl = h.models[blk]
        dev = h.devs[blk]
        via = op.get("via", "event")
        if kind == "enable" and not h.cfgs[blk]["enable_events"]:
            via = "call"           # no enable event configured: the API is the only way to enable
        if via == "call" and not mdl.loaded:
            if kind == "enable" and not h.cfgs[blk]["enable_events"]:
                return
            via = "event"          # calling methods of a device whose mode is not running is API misuse
        if op.get("wake"):
            if not mdl.loaded:
                if mdl.scope == "m1":
                    post("start_m1")
                elif mdl.scope == "g1" and m.game is not None and m.game.player is not None:
                    post("start_g1")
            elif not mdl.enabled and kind not in ("enable", "restart"):
                h.begin(blk, "enable", None)
                dev.enable()
                h.end(blk, "enable", None)
        for _ in range(op.get("burst", 1)):
            if kind == "step":
                i, evname = resolve_step(op, mdl)
                if via == "call":
                    ctx.probe("direct_call")
                    h.begin(blk, "step", i)
                    dev.hit(step=i)
                    h.end(blk, "step", i)
                else:
                    post(evname)
            elif kind == "ctl":
                post(h.cfgs[blk]["controls"][op["i"]]["event"])
            elif kind == "random":
                post("%s_random" % blk)
            elif kind == "delayed":
                dl = h.cfgs[blk]["delayed"]
                post(dl[op["i"] % len(dl)]["event"])
                if "also" in op:
                    post(dl[op["also"] % len(dl)]["event"])
            elif via == "call":
                ctx.probe("direct_call")
                h.begin(blk, kind, None)
                getattr(dev, kind)()
                h.end(blk, kind, None)
            else:
                post("%s_%s" % (blk, kind))

    def schedule_next():
        if idx[0] >= len(ops):
            done[0] = True
            return
        op = ops[idx[0]]
        w = op["when"]
        now = loop.time()
        if w[0] == "rel":
            t = now + w[1]
        else:
            mdl = h.models[op["blk"]]
            dls = list(mdl.timer.deadlines()) + mdl.delayed.deadlines()
            if mdl.kind == "counter" and mdl.window is not None:
                dls.append(mdl.window[0])
            dls = sorted(d for d in dls if d >= now - EPS)
            if dls:
                t = max(now, dls[w[1] % len(dls)] + w[2])
            else:
                t = now + 0.01
        sim.at(t, run_op)

    def run_op():
        op = ops[idx[0]]
        idx[0] += 1
        do_op(op)
        # after the event queue has handled the stimulus (posted events are processed by a call_soon'ed
        # process_event_queue that is ahead of this one)
        loop.call_soon(schedule_next)

    schedule_next()
    guard = 0
    while not done[0]:
        sim.run(0.5)
        guard += 1
        if guard > 600:
            raise AssertionError("op chain did not finish")
    # settle: longest timeout 2 s, longest window 1 s; liveness of required timeouts only after faults stop
    sim.run_quiet(0.2)
    sim.run_quiet(2.5)
    h.prune_timers(loop.time())
    h.verify_all("end")
    if h.window is not None:
        raise AssertionError("operation window left open: %r" % (h.window,))
