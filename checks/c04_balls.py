"""C04 - Ball counts agree with the physical machine and are conserved (PinWorld behind SimPlatform)."""
from checks import _balls_common as common

ID = "C04"
LEVEL = "exploration"
RUNS = {"quick": 700, "thorough": 40000}
WALL_CAP = {"quick": 100, "thorough": 3000}
RULE = ("one case = one machine topology (trough/plunger[/lock/VUK/manual plunger]) with 1-4 balls, a swarm-drawn eject "
        "failure rate and scheduler knobs, and a history of game actions (start, drain, playfield hit, multiball add, lock "
        "shot/release, manual plunge, end game) with tape-chosen timing; the physical world (PinWorld) answers coil "
        "commands with success / fall-back / stuck / late arrival. Non-trivial = reached a probe (drain, multiball add, "
        "physical eject failure, lock shot, ...); distinct = distinct sequence of observed event kinds")
PROBES = common.PROBES
REAL = ["mpf.devices.ball_device.* (counters, incoming/outgoing handlers, ejectors)", "mpf.devices.playfield", "mpf.core.ball_controller",
        "mpf.modes.game", "mpf.core.switch_controller", "mpf.devices.driver", "MachineController boot"]
STUBS = ["physical machine (sim/pinworld.py)", "platform leaf objects (SimPlatform/SimDriver)", "event loop/clock (SimLoop)"]
ASSUMPTIONS = ["PinWorld rules (module docstring): no teleporting, one ball per switch, full devices bounce balls back, "
               "eject outcomes limited to success/fall-back/stuck/late",
               "balls MPF cannot yet know about (entered a target less than its count delay ago, not sent by MPF) are not held "
               "against the no-room rule"]
STATE_ABSTRACTION = "(topology, per-device (balls, state), playfield.balls, game running)"

warm = common.warm
plan = common.plan


def execute(ctx, plan_):
    return common.execute(ctx, plan_, ID)
