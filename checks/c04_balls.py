"""C04 - Ball counts agree with the physical machine and are conserved (PinWorld behind SimPlatform)."""
from checks import _balls_common as common

ID = "C04"
LEVEL = "exploration"
RUNS = {"quick": 6000, "thorough": 100000}
WALL_CAP = {"quick": 200, "thorough": 3600}
RULE = ("one case = one of eleven machine topologies (t1 trough+coil plunger, t2 +two-ball lock and a multiball with ball_locks, "
        "t3 +entrance-counted VUK, t4 mechanical plunger (optionally home-tagged with a ball in the lane at boot, weak plunges), "
        "t5 +ball saves (machine-wide, or mode-scoped with delayed eject), t6 two independent feeds, t7 three-stage chain with "
        "requests for the staging device and balls straying to the playfield, t8 two-ball launcher, t9 outhole + "
        "entrance-counted trough whose last ball rests on the entrance switch, t10 jam-switch trough with shaken balls and "
        "reorder pulses) with 1-4 balls, a swarm-drawn eject failure rate and scheduler knobs, and a history of game "
        "actions (start, drain, pairs of drains, playfield hit, multiball add, requests for several balls, lock shot/release, "
        "manual plunge, lane return, mode start/stop, end game) with tape-chosen timing, plus reactive requests a moment "
        "after a kick and handlers holding the trough's eject-attempt queue event; the physical world (PinWorld) answers coil "
        "commands with success / fall-back / stuck / late arrival / shaken / stray. Non-trivial = reached a probe (drain, "
        "multiball add, physical eject failure, lock shot, ...); distinct = distinct sequence of observed event kinds")
PROBES = common.PROBES
REAL = ["mpf.devices.ball_device.* (counters, incoming/outgoing handlers, ejectors)", "mpf.devices.playfield", "mpf.core.ball_controller",
        "mpf.modes.game", "mpf.core.switch_controller", "mpf.devices.driver", "MachineController boot"]
STUBS = ["physical machine (sim/pinworld.py)", "platform leaf objects (SimPlatform/SimDriver)", "event loop/clock (SimLoop)"]
ASSUMPTIONS = [
               "further named relaxations (DESIGN.md, Corrections, C04/C05 items 5-19): arrival, identity, settle and re-plunge "
               "ambiguity, skip assumption of mechanical lanes, playfield confirmation, entrance arrival during the device's own "
               "eject, starved devices, requests only while a ball is in progress",
               "PinWorld rules (module docstring): no teleporting, one ball per switch, full devices bounce balls back, "
               "eject outcomes limited to success/fall-back/stuck/late (entrance-counted devices: success/late only, the "
               "others are unobservable for any controller)",
               "host stalls are limited to 0.2 s here (MPF's ball logic is built on 0.5 s debounce times and 2-3 s timeouts)",
               "return ambiguity: a ball in transit whose source saw another ball enter meanwhile is not held against the "
               "no-room rule; re-entry ambiguity: when a different ball enters a device whose own eject is unconfirmed, "
               "playfield/total counts are not judged in that run (device counts still are)",
               "balls MPF cannot yet know about (entered a target less than its count delay ago, not sent by MPF) are not held "
               "against the no-room rule"]
STATE_ABSTRACTION = "(topology, per-device (balls, state), playfield.balls, game running)"

warm = common.warm
plan = common.plan


def execute(ctx, plan_):
    return common.execute(ctx, plan_, ID)
