"""C01 - Event dispatch is complete, priority-ordered and serial.

SUT: real EventManager of a booted minimal machine (plus DelayManager, SwitchController, asyncio tasks as
posting contexts).  Oracle: lock-step reference model of the bus written from the property statement
(/verif/models/bus.py).  The model and the SUT execute the *same* generated handler program: every
add/remove/post of the program is applied to both at the same moment, every handler and completion-callback
invocation made by the SUT is judged by the model.
"""
import asyncio

from sim.harness import draw_knobs

ID = "C01"
LEVEL = "exploration"
RUNS = {"quick": 3000, "thorough": 90000}
WALL_CAP = {"quick": 150, "thorough": 3000}
RULE = ("one case = one generated handler program (2-6 event names, 3-10 handler callables with scripts that "
        "post/post_boolean/post_relay with or without completion callback, add/replace/remove handlers by "
        "key/event/method, defer a post through a delay, add/reset/remove/run_now a named delay whose callback "
        "posts, flip a switch, return False/dict; plain, boolean, relay and queue (post_queue/post_queue_async, "
        "optionally with a wait) events on the same event names; priorities distinct, "
        "tied or flat, plus '.N' event suffixes and @event_handler(relative_priority)-decorated callables; registered kwargs colliding with posted ones; conditions) run in 1-3 episodes on one booted "
        "machine (registration history carries over), each with a random registration history and 3-12 roots posted "
        "from MPF's boot sequence, the driver, a plain loop timer, a DelayManager callback, an untimed/timed switch "
        "handler, an asyncio task, a queue-event handler, handlers (depth <= 5) and completion callbacks, several "
        "roots at one instant, executed on the real EventManager under a seeded scheduler (stalls, tie "
        "permutations); non-trivial = reached at least one reach probe; distinct = distinct sequence of observed "
        "kinds (handler/callback/context/post/registry op)")
PROBES = ["delivery", "callback", "episode_boundary", "root_from_boot", "root_from_driver", "root_from_at",
          "root_from_delay", "root_from_switch", "root_from_tswitch",
          "root_from_task", "root_from_qevent", "post_in_handler", "post_in_callback", "post_in_nested_switch",
          "depth_3", "depth_5", "roots_waiting_together", "tie_priority", "cond_skip", "cond_pass", "boolean_stop",
          "relay_merge", "kw_override", "bare_post", "callback_after_grandchildren", "callback_no_handlers",
          "add_during_own_dispatch", "r2_removed_before_turn", "r2_removed_still_called",
          "r3_add_while_waiting", "r3_remove_while_waiting", "post_then_add_in_handler",
          "sibling_before_waiting", "rm_method_multi_event", "replace_hit", "run_now_in_handler",
          "run_now_in_nested_event", "run_now_outside_handler", "post_in_run_now", "named_delay_replaced",
          "named_delay_removed", "queue_post", "queue_post_async", "queue_delivery", "queue_kw_override",
          "queue_cond_pass", "queue_second_handler", "queue_wait", "queue_callback",
          "relative_priority_lifts_over_existing", "dot_priority"]
REAL = ["mpf.core.events.EventManager (add/replace/remove handlers, post/post_boolean/post_relay/post_queue, "
        "process_event_queue)", "mpf.core.delays.DelayManager", "mpf.core.switch_controller.SwitchController "
        "(untimed + timed handlers)", "mpf.core.placeholder_manager (handler conditions)", "MachineController boot"]
STUBS = ["event loop (SimLoop: virtual time, stalls, tie order)", "clock (SimClock)", "virtual hardware platform",
         "in-memory data manager"]
ASSUMPTIONS = ["call_soon FIFO order is kept (asyncio guarantees it)",
               "'posted events are dispatched' is checked when the loop has gone idle (nothing ready to run): "
               "the statement gives no deadline, idle-loop is the weakest one",
               "posts made outside any handler join the tail of the waiting events (FIFO)",
               "a condition that cannot be evaluated (argument missing) does not hold"]
STATE_ABSTRACTION = "(height of the pending-queue stack, depth of the current post in its tree, type of the post, context)"
TECHNIQUE = "lock-step executable reference model (stack of FIFO queues + snapshot/priority/condition rules + completion tree)"

EVENTS = ["e0", "e1", "e2", "e3", "e4", "e5"]
CONDS = [[["c", "==", 1]], [["c", ">", 0]], [["c", "!=", 1]], [["a", "==", 1]],
         [["c", "==", 1], ["d", "==", 0]], [["d", "<", 2]], [["b", "==", 1]], [["a", ">", 0], ["b", "<", 3]]]
RETS = [(None, 7), (False, 1.6), (True, 0.4), ({"a": 7}, 0.8), ({"c": 1}, 0.6), ({"d": 5, "b": 9}, 0.5)]
DELAY_NAMES = ["d0", "d1"]
T0 = 1.0
STEP = 0.125
MAX_POSTS = 48
MAX_INVOC = 90
MAX_REGS = 40
MAX_DEPTH = 5


# ---------------------------------------------------------------------------------------------
# plan


class _Gen:

    def __init__(self, ch):
        self.ch = ch
        self.oid = 0

    def next_oid(self):
        self.oid += 1
        return self.oid


def _kw(ch, tag, keys, nmax, vmax):
    n = ch.choice(tag + ".n", nmax + 1)
    out = {}
    for _ in range(n):
        out[ch.pick(tag + ".k", keys)] = ch.choice(tag + ".v", vmax + 1)
    return out


def _prio(g):
    ch = g.ch
    if g.prio_mode == "flat":
        return 1
    if g.prio_mode == "distinct":
        g.prio_ctr += 1
        # a permutation-ish sequence without repeats
        return (g.prio_ctr * 7) % 101 + 101 * (g.prio_ctr // 101)
    return ch.pick("prio", [1, 1, 2, 3, 2, 5, 0, -2, 100])


def _gen_post(g, where):
    ch = g.ch
    op = {"op": "post", "type": ch.weighted("ptype", [(None, 5), ("boolean", 2), ("relay", 2)]),
          "event": ch.pick("pevent", g.events), "kw": {}, "bare": False, "cb": None}
    if ch.flag("bare", 0.12):
        op["bare"] = True
    else:
        op["kw"] = _kw(ch, "pkw", ["a", "b", "c", "c", "d"], 3, 2)
    if g.ncb and ch.flag("hascb", 0.35):
        op["cb"] = ch.choice("cbi", g.ncb)
    if ch.flag("isqueue", 0.14):
        # a queue event on the same event names / handlers: only the per-delivery rules apply (see models/bus.py)
        op.update(type="queue", bare=False, qasync=ch.flag("qasync", 0.4), qwait=ch.pick("qpwait", [0, 0, 1, 3]))
        if not op["kw"]:
            op["kw"] = _kw(ch, "qkw", ["a", "b", "c", "h"], 3, 3)
    return op


def _gen_add(g, where):
    ch = g.ch
    ev = ch.pick("aevent", g.events)
    if where == "h" and ch.flag("acur", 0.3):
        ev = "@cur"
    op = {"op": "add", "event": ev, "alt": ch.pick("aalt", g.events), "hid": ch.pick("ahid", g.hids),
          "prio": _prio(g), "kw": _kw(ch, "akw", ["a", "b", "h"], 2, 3), "cond": None,
          "once": g.prio_mode == "distinct" or ch.flag("once", 0.6), "oid": g.next_oid()}
    if ch.flag("hascond", 0.3):
        op["cond"] = ch.pick("cond", CONDS)
    if ch.flag("hasdot", 0.15):
        op["dot"] = ch.pick("dot", [1, 2, 5])        # registered as "event.N": N is added to the priority
    return op


def _gen_dadd(g, name=None):
    """A named delay on the machine-wide DelayManager whose callback posts events (run_now target)."""
    ch = g.ch
    return {"op": "dadd", "name": name or ch.pick("dname", DELAY_NAMES), "ms": ch.pick("dnms", [250, 500, 1000, 125]),
            "reset": ch.flag("dreset", 0.3),
            "script": [_gen_post(g, "root") for _ in range(1 + ch.choice("ndl", 2))]}


def _gen_op(g, where, depth=0):
    ch = g.ch
    if where == "h":
        w = [("post", 6), ("add", 1.5), ("rm_key", 1.2), ("rm_event", 0.6), ("rm_method", 0.5), ("replace", 0.4),
             ("flip", 0.3), ("defer", 0.4), ("dadd", 0.8), ("drun", 0.9), ("drm", 0.2)]
    elif where == "cb":
        w = [("post", 4), ("add", 1), ("rm_key", 1), ("rm_method", 0.3), ("defer", 0.3), ("dadd", 0.3), ("drun", 0.3)]
    elif where == "setup":
        w = [("add", 7), ("rm_key", 1.5), ("rm_event", 0.5), ("rm_method", 0.5), ("replace", 0.6)]
    else:   # root contexts
        w = [("post", 8), ("add", 1), ("rm_key", 0.7), ("rm_method", 0.3), ("rm_event", 0.2), ("defer", 0.3),
             ("dadd", 0.8), ("drun", 0.2), ("drm", 0.1)]
    kind = ch.weighted("op." + where, w)
    if kind == "post":
        return _gen_post(g, where)
    if kind == "add":
        return _gen_add(g, where)
    if kind == "rm_key":
        return {"op": "rm_key", "sel": ch.choice("sel", 64),
                "mode": ch.weighted("rmmode", [("live", 3), ("cur", 3), ("any", 1)])}
    if kind == "rm_event":
        ev = ch.pick("revent", g.events)
        if where == "h" and ch.flag("rcur", 0.5):
            ev = "@cur"
        return {"op": "rm_event", "event": ev, "alt": ch.pick("ralt", g.events), "hid": ch.pick("rhid", g.hids)}
    if kind == "rm_method":
        return {"op": "rm_method", "hid": ch.pick("mhid", g.hids)}
    if kind == "replace":
        return {"op": "replace", "event": ch.pick("xevent", g.events), "hid": ch.pick("xhid", g.hids),
                "prio": _prio(g), "kw": {} if ch.flag("xnokw", 0.5) else _kw(ch, "xkw", ["a", "b", "h"], 2, 3),
                "once": True, "oid": g.next_oid()}
    if kind == "dadd":
        return _gen_dadd(g)
    if kind == "drun":
        return {"op": "drun", "name": ch.pick("dname", DELAY_NAMES)}
    if kind == "drm":
        return {"op": "drm", "name": ch.pick("dname", DELAY_NAMES)}
    if kind == "defer":
        return {"op": "defer", "ms": ch.pick("dms", [0, 0, 125, 250]),
                "script": [_gen_post(g, "root") for _ in range(1 + ch.choice("ndefer", 2))]}
    if kind == "flip":
        return {"op": "flip", "script": [_gen_post(g, "sw") for _ in range(1 + ch.choice("nflip", 2))]}
    raise AssertionError(kind)


def plan(ch, tier):
    knobs = draw_knobs(ch)
    g = _Gen(ch)
    g.events = EVENTS[:ch.weighted("nev", [(3, 3), (2, 2), (4, 2), (5, 1), (6, 1)])]
    g.hids = ["h%d" % i for i in range(3 + ch.choice("nh", 8))]
    g.prio_mode = ch.weighted("prio_mode", [("small", 3), ("distinct", 2), ("flat", 1)])
    g.prio_ctr = ch.choice("prio0", 50)
    g.ncb = ch.choice("ncb", 5)
    cbs = []
    for _ in range(g.ncb):
        n = ch.weighted("cbn", [(0, 3), (1, 3), (2, 1)])
        cbs.append([_gen_op(g, "cb") for _ in range(n)])
    handlers = {}
    for hid in g.hids:
        n = ch.weighted("hn", [(0, 4), (1, 3), (2, 2), (3, 1)])
        script = [_gen_op(g, "h") for _ in range(n)]
        if ch.flag("dpair", 0.15):
            # the same handler adds a named delay and runs it right away (what mpf's bonus mode does)
            nm = ch.pick("dpair.name", DELAY_NAMES)
            script.insert(ch.choice("dpair.pos", len(script) + 1), _gen_dadd(g, nm))
            script.append({"op": "drun", "name": nm})
        # some callables are decorated with mpf.core.events.event_handler(relative_priority): the relative
        # priority is added to the priority of every registration of that callable
        handlers[hid] = {"script": script, "ret": ch.weighted("ret", RETS),
                         "rel": ch.weighted("rel", [(0, 6), (10, 1.5), (5, 1), (1, 1), (-3, 0.5)])}
    ops = []
    # 1-3 episodes on one booted machine: the registry history carries over, the post/invocation budgets are
    # reset at the episode boundary (a driver op that first waits for the loop to go idle)
    for ep in range(1 + ch.choice("nepisodes", 3)):
        if ep:
            ops.append({"ctx": "reset", "dt": 3, "script": []})
        for _ in range((5 if ep == 0 else 0) + ch.choice("nsetup", 14 if ep == 0 else 6)):
            ops.append({"ctx": "driver", "dt": 0, "script": [_gen_op(g, "setup")], "setup": ep == 0})
        nroots = 3 + ch.choice("nroots", 10)
        for i in range(nroots):
            ctxk = ch.weighted("ctx", [("driver", 3), ("at", 3), ("delay", 3), ("switch", 2), ("tswitch", 2),
                                       ("task", 2), ("qevent", 1)])
            dt = ch.weighted("dt", [(0, 4), (1, 3), (2, 1), (4, 1)])
            if i == 0:
                dt = max(dt, 1)
            op = {"ctx": ctxk, "dt": dt, "script": [_gen_op(g, "root") for _ in range(1 + ch.choice("nrootops", 3))]}
            if ctxk == "tswitch":
                op["sw"] = ch.pick("tsw", ["s_b", "s_c"])
            if ctxk == "task":
                op["script2"] = [_gen_op(g, "root") for _ in range(ch.choice("ntask2", 3))]
                op["await_cb"] = ch.flag("await_cb", 0.4)
                op["await_event"] = ch.pick("await_ev", g.events)
            if ctxk == "qevent":
                op["script2"] = [_gen_op(g, "root") for _ in range(ch.choice("nq2", 3))]
                op["wait"] = ch.choice("qwait", 4)
            ops.append(op)
    boot = None
    if ch.flag("boot", 0.25):
        boot = {"script": [_gen_op(g, "root") for _ in range(1 + ch.choice("nbootops", 3))]}
    return {"knobs": knobs, "boot": boot, "prio_mode": g.prio_mode, "events": g.events, "handlers": handlers, "cbs": cbs, "ops": ops}


def shrink(plan):
    """Simpler plans: coarse candidates first (the minimiser only tries the first 32 per round)."""
    import copy

    def variant(fn):
        p = copy.deepcopy(plan)
        fn(p)
        return p
    if plan.get("boot"):
        yield variant(lambda p: p.__setitem__("boot", None))
    for hid in sorted(plan["handlers"]):
        if plan["handlers"][hid]["script"]:
            yield variant(lambda p, hid=hid: p["handlers"][hid].__setitem__("script", []))
    for i, cb in enumerate(plan["cbs"]):
        if cb:
            yield variant(lambda p, i=i: p["cbs"].__setitem__(i, []))
    for hid in sorted(plan["handlers"]):
        if plan["handlers"][hid]["ret"] is not None:
            yield variant(lambda p, hid=hid: p["handlers"][hid].__setitem__("ret", None))
    for i, op in enumerate(plan["ops"]):
        if op["ctx"] not in ("driver", "reset") and not op.get("setup"):
            yield variant(lambda p, i=i: p["ops"][i].__setitem__("ctx", "driver"))
    for hid in sorted(plan["handlers"]):
        sc = plan["handlers"][hid]["script"]
        if len(sc) > 1:
            for j in range(len(sc)):
                yield variant(lambda p, hid=hid, j=j: p["handlers"][hid]["script"].pop(j))
    for i, op in enumerate(plan["ops"]):
        if len(op["script"]) > 1:
            for j in range(len(op["script"])):
                yield variant(lambda p, i=i, j=j: p["ops"][i]["script"].pop(j))
        if op.get("script2"):
            yield variant(lambda p, i=i: p["ops"][i].__setitem__("script2", []))
    for i, op in enumerate(plan["ops"]):
        for j, o in enumerate(op["script"]):
            if o["op"] == "post" and (o["kw"] or o["cb"] is not None or o["type"]):
                def simp(p, i=i, j=j):
                    p["ops"][i]["script"][j].update(kw={}, cb=None, type=None)
                yield variant(simp)


def warm():
    from sim.machine import preload
    preload("c01")


# ---------------------------------------------------------------------------------------------
# execution


def execute(ctx, plan):
    from models.bus import BusModel, cond_to_string
    sim = ctx.new_sim("c01")
    m = sim.machine
    boot_hooks = []
    _boot(sim, boot_hooks, until_events=True)        # run the real boot until the EventManager exists
    loop = sim.loop
    events = m.events
    sc = m.switch_controller
    model = BusModel(ctx.violation, ctx.probe)
    handlers = plan["handlers"]
    cbs = plan["cbs"]
    st = {"posts": 0, "invoc": 0, "where": ("boot",), "once": set(), "defers": 0, "reg_base": 0, "run_now": 0}
    sw_scripts = {"s_a": [], "s_b": [], "s_c": []}
    tasks = []

    def run_to(t, quiet=False):
        fut = loop.create_future()
        loop.call_at(t, lambda: fut.done() or fut.set_result(None))
        old = loop.stall_enabled
        if quiet:
            loop.stall_enabled = False
        try:
            loop.run_until_complete(fut)
        except RuntimeError:
            sim.check_crash()
            raise
        finally:
            loop.stall_enabled = old
        sim.check_crash()

    def settle():
        """Run loop iterations until nothing is ready (the loop would go idle)."""
        n = 0
        while loop._ready:
            sim.run_quiet(0)
            n += 1
            if n > 200:
                raise AssertionError("loop does not go idle")

    # -- the callables ----------------------------------------------------------------------
    class Callable:
        """One handler callable.  Like bound methods of one object, the per-event instances of one handler id
        compare equal, so remove_handler(method) / remove_handler_by_event / replace_handler see *one* method;
        the instance additionally knows for which event name it was registered (observation only)."""

        def __init__(self, hid, event):
            self.hid = hid
            self.event = event

        def __call__(self, **kwargs):
            return on_handler(self.hid, self.event, kwargs)

        def __eq__(self, other):
            return isinstance(other, Callable) and other.hid == self.hid

        def __hash__(self):
            return hash(self.hid)

        def __repr__(self):
            return "<%s@%s>" % (self.hid, self.event)

    def make_callable(hid, event):
        c = Callable(hid, event)
        rel = handlers[hid].get("rel", 0)
        if rel:
            from mpf.core.events import event_handler
            c = event_handler(rel)(c)
        return c

    def on_qhandler(hid, event, kwargs, queue):
        """Delivery of a queue event (runs in the queue event's own task = outside any plain dispatch)."""
        now = loop.time()
        st["invoc"] += 1
        post, reg = model.qhandler_enter(hid, event, kwargs)
        ctx.log("qh", hid, post.pid if post else None, event, sorted(kwargs.items()), reg.rid if reg else None, t=now)
        if post is not None and reg is not None:
            ctx.probe("queue_delivery")
            if any(k in post.kw and post.kw[k] != v for k, v in reg.kw.items()):
                ctx.probe("queue_kw_override")
            if reg.cond:
                ctx.probe("queue_cond_pass")
            if len(post.q_delivered) > 1:
                ctx.probe("queue_second_handler")
        outer = st["where"]
        st["where"] = ("qh", hid)
        if st["invoc"] <= MAX_INVOC:
            run_script(handlers[hid]["script"], "root")
        if post is not None and qwaits.get(post.pid):
            ms = qwaits.pop(post.pid) * 125
            ctx.probe("queue_wait")
            queue.wait()
            m.delay.add(ms, queue.clear)
        st["where"] = outer
        return None

    def on_handler(hid, event, kwargs):
        if "queue" in kwargs:
            return on_qhandler(hid, event, kwargs, kwargs.pop("queue"))
        now = loop.time()
        st["invoc"] += 1
        post, reg = model.handler_enter(hid, event, kwargs)
        ctx.log("h", hid, post.pid if post else None, post.event if post else None, sorted(kwargs.items()),
                reg.rid if reg else None, t=now)
        spec = handlers[hid]
        if post is not None and reg is not None:
            ctx.probe("delivery")
            note_delivery(post, reg, kwargs)
        outer = st["where"]
        st["where"] = ("h", hid)
        if st["invoc"] <= MAX_INVOC:
            run_script(spec["script"], "h")
        st["where"] = outer
        ret = spec["ret"]
        model.handler_exit(ret)
        if post is not None:
            if post.type == "boolean" and ret is False:
                ctx.probe("boolean_stop")
            if post.type == "relay" and isinstance(ret, dict):
                ctx.probe("relay_merge")
        return dict(ret) if isinstance(ret, dict) else ret

    def note_delivery(post, reg, kwargs):
        d = model.cur
        if post.depth >= 3:
            ctx.probe("depth_3")
        if post.depth >= MAX_DEPTH:
            ctx.probe("depth_5")
        if reg.cond:
            ctx.probe("cond_pass")
        if any(k in post.kw and post.kw[k] != v for k, v in reg.kw.items()):
            ctx.probe("kw_override")
        if post.bare:
            ctx.probe("bare_post")
        if d is not None:
            if any(r is not reg and r.prio == reg.prio and r.rid in d.delivered for r in d.snapshot):
                ctx.probe("tie_priority")
            if any(r.cond and r.rid not in d.delivered and r.prio > reg.prio for r in d.snapshot):
                ctx.probe("cond_skip")
            if len(model.stack) >= 1 and post.parent is not None and any(
                    p.parent is None for p in model.stack[0]):
                ctx.probe("sibling_before_waiting")
        ctx.state(len(model.stack), post.depth, post.type, post.ctx[0])

    def make_cb(post, cbi):
        def cb(**kwargs):
            now = loop.time()
            ctx.log("cb", post.pid, post.event, sorted(kwargs.items()), t=now)
            had_grandchildren = any(p.parent is not None and p.parent.parent is post for p in model.posts[post.pid:])
            model.callback_enter(post, kwargs)
            ctx.probe("callback")
            if had_grandchildren:
                ctx.probe("callback_after_grandchildren")
            if nohandler.get(post.pid):
                ctx.probe("callback_no_handlers")
            outer = st["where"]
            st["where"] = ("cb", post.pid)
            if cbi is not None and st["invoc"] <= MAX_INVOC:
                run_script(cbs[cbi], "cb")
            st["where"] = outer
            fut = post_futs.get(post.pid)
            if fut is not None and not fut.done():
                fut.set_result(None)
        return cb

    post_futs = {}
    nohandler = {}
    qwaits = {}

    def do_qpost(op, where):
        """post_queue / post_queue_async on an ordinary event name."""
        st["posts"] += 1
        ev = op["event"]
        kw = dict(op["kw"])
        kw["pid"] = len(model.posts)
        post = model.post_queue(ev, kw, st["where"])
        ctx.log("qpost", post.pid, ev, sorted(kw.items()), bool(op.get("qasync")), st["where"][0], t=loop.time())
        ctx.probe("queue_post_async" if op.get("qasync") else "queue_post")
        if op.get("qwait"):
            qwaits[post.pid] = op["qwait"]
        cbi = op["cb"]

        def done(**kwargs):
            ctx.log("qcb", post.pid, ev, sorted(kwargs.items()), t=loop.time())
            model.qcallback_enter(post, kwargs)
            ctx.probe("queue_callback")
            outer = st["where"]
            st["where"] = ("cb", post.pid)
            if cbi is not None and st["invoc"] <= MAX_INVOC:
                run_script(cbs[cbi], "cb")
            st["where"] = outer
        if op.get("qasync"):
            fut = events.post_queue_async(ev, **kw)
            fut.add_done_callback(lambda f: done(**f.result()))
        else:
            events.post_queue(ev, done, **kw)
        return post

    # -- program operations (applied to the model and to the SUT together) --------------------
    def cur_event(op):
        if op["event"] == "@cur":
            if model.in_handler() and model.cur is not None:
                return model.cur.post.event
            return op["alt"]
        return op["event"]

    def do_post(op, where, fut=None):
        if st["posts"] >= MAX_POSTS:
            return None
        if model.in_handler() and model.cur is not None and model.cur.post.depth >= MAX_DEPTH:
            return None
        if op["type"] == "queue":
            return do_qpost(op, where)
        st["posts"] += 1
        ev = op["event"]
        kw = dict(op["kw"])
        pid = len(model.posts)
        bare = op["bare"] and ev not in model.live_bare      # one outstanding bare post per event name
        if not bare:
            kw["pid"] = pid
        has_cb = op["cb"] is not None or fut is not None
        waiting_roots = any(p.parent is None for q in model.stack for p in q)
        post = model.post(ev, op["type"], kw, bare, has_cb, st["where"])
        nohandler[pid] = not model.registry.get(ev)
        assert post.pid == pid
        ctx.log("post", pid, ev, op["type"], sorted(kw.items()), has_cb, st["where"][0], t=loop.time())
        if model.in_handler():
            ctx.probe({"sw": "post_in_nested_switch", "dl": "post_in_run_now"}.get(where, "post_in_handler"))
        elif where == "cb":
            ctx.probe("post_in_callback")
        else:
            ctx.probe("root_from_" + st["where"][0])
            if waiting_roots:
                ctx.probe("roots_waiting_together")
        if fut is not None:
            post_futs[pid] = fut
        fn = {None: events.post, "boolean": events.post_boolean, "relay": events.post_relay}[op["type"]]
        if has_cb:
            fn(ev, make_cb(post, op["cb"]), **kw)
        else:
            fn(ev, **kw)
        return post

    def unique_kw(ev, hid, kw):
        """Two registrations of one callable for one event cannot be told apart by an observer when their merged
        kwargs coincide; every registration but the first of a (callable, event) pair gets a distinguishing
        registered kwarg 'u' (never used in posted kwargs)."""
        if any(r.event == ev and r.hid == hid for r in model.regs):
            kw = dict(kw)
            kw["u"] = len(model.regs)
        return kw

    def do_op(op, where):
        k = op["op"]
        if k == "post":
            do_post(op, where)
        elif k == "add":
            if op.get("once"):
                if op["oid"] in st["once"]:
                    return
                st["once"].add(op["oid"])
            if len(model.regs) - st["reg_base"] >= MAX_REGS:
                return
            ev = cur_event(op)
            if model.in_handler() and model.cur is not None:
                if model.cur.post.event == ev:
                    ctx.probe("add_during_own_dispatch")
                if any(p.event == ev for p in model.cur.posted) or any(p.event == ev for q in model.stack for p in q):
                    ctx.probe("post_then_add_in_handler")
            kw = unique_kw(ev, op["hid"], op["kw"])
            # effective priority = priority argument + ".N" suffix of the event string + relative_priority of an
            # @event_handler-decorated callable
            dot = op.get("dot", 0)
            rel = handlers[op["hid"]].get("rel", 0)
            eff = op["prio"] + dot + rel
            if rel and any(op["prio"] + dot <= r.prio < eff for r in model.registry.get(ev, [])):
                ctx.probe("relative_priority_lifts_over_existing")
            if dot:
                ctx.probe("dot_priority")
            reg = model.add(ev, op["hid"], eff, kw, op["cond"])
            ctx.log("add", reg.rid, ev, op["hid"], op["prio"], dot, rel, sorted(kw.items()),
                    cond_to_string(op["cond"]) if op["cond"] else None, st["where"][0], t=loop.time())
            evs = ev + (".%d" % dot if dot else "") + ("{%s}" % cond_to_string(op["cond"]) if op["cond"] else "")
            reg.key = events.add_handler(evs, make_callable(op["hid"], ev), op["prio"], **kw)
        elif k == "replace":
            if op["oid"] in st["once"] or len(model.regs) - st["reg_base"] >= MAX_REGS:
                return
            st["once"].add(op["oid"])
            ev = op["event"]
            before = len([r for r in model.registry.get(ev, []) if r.hid == op["hid"]])
            kw = op["kw"]
            # keep registrations distinguishable (see unique_kw): only replace when the new registration ends up as
            # the only live one without 'u' of this (callable, event) pair and no waiting post can still see an
            # old one (R3)
            same = [r for r in model.registry.get(ev, []) if r.hid == op["hid"]]
            if any(kw and r.kw != kw and "u" not in r.kw for r in same):
                return      # (survivors that carry a 'u' stay distinguishable from the new registration)
            waiting = list(model._waiting_posts(ev))
            if waiting and (not model.in_handler() or any(r.hid == op["hid"] for p in waiting for r in p.extra)):
                return
            reg = model.replace(ev, op["hid"], op["prio"] + handlers[op["hid"]].get("rel", 0), kw)
            after = len([r for r in model.registry.get(ev, []) if r.hid == op["hid"]])
            if after <= before:
                ctx.probe("replace_hit")
            ctx.log("replace", reg.rid, ev, op["hid"], op["prio"], sorted(kw.items()), st["where"][0], t=loop.time())
            reg.key = events.replace_handler(ev, make_callable(op["hid"], ev), op["prio"], **kw)
        elif k == "rm_key":
            if op["mode"] == "any":
                cands = model.regs
            elif op["mode"] == "cur" and model.in_handler() and model.cur is not None:
                cands = [r for r in model.regs if r.alive and r.event == model.cur.post.event]
            else:
                cands = [r for r in model.regs if r.alive]
            if not cands:
                return
            reg = cands[op["sel"] % len(cands)]
            ctx.log("rm_key", reg.rid, st["where"][0], t=loop.time())
            model.remove_key(reg)
            events.remove_handler_by_key(reg.key)
        elif k == "rm_event":
            ev = cur_event(op)
            ctx.log("rm_event", ev, op["hid"], st["where"][0], t=loop.time())
            model.remove_event(ev, op["hid"])
            events.remove_handler_by_event(ev, Callable(op["hid"], None))
        elif k == "rm_method":
            evs = sorted(set(r.event for r in model.regs if r.alive and r.hid == op["hid"]))
            if len(evs) > 1:
                ctx.probe("rm_method_multi_event")
            ctx.log("rm_method", op["hid"], st["where"][0], t=loop.time())
            model.remove_method(op["hid"])
            events.remove_handler(Callable(op["hid"], None))
        elif k == "dadd":
            if st["defers"] >= 20:
                return
            st["defers"] += 1
            ctx.log("dadd", op["name"], op["ms"], op["reset"], st["where"][0], t=loop.time())
            if m.delay.check(op["name"]):
                ctx.probe("named_delay_replaced")
            fn = m.delay.reset if op["reset"] else m.delay.add
            fn(op["ms"], _mk(named_delay_fired, op["name"], op["script"]), op["name"])
        elif k == "drun":
            pending = m.delay.check(op["name"])
            ctx.log("drun", op["name"], bool(pending), st["where"][0], t=loop.time())
            if pending:
                ctx.probe("run_now_in_handler" if model.in_handler() else "run_now_outside_handler")
                if model.in_handler() and model.cur is not None and model.cur.post.depth >= 1:
                    ctx.probe("run_now_in_nested_event")
            st["run_now"] += 1
            try:
                m.delay.run_now(op["name"])
            finally:
                st["run_now"] -= 1
        elif k == "drm":
            ctx.log("drm", op["name"], st["where"][0], t=loop.time())
            if m.delay.check(op["name"]):
                ctx.probe("named_delay_removed")
            m.delay.remove(op["name"])
        elif k == "defer":
            if st["defers"] >= 20:
                return
            st["defers"] += 1
            ctx.log("defer", op["ms"], st["where"][0], t=loop.time())
            m.delay.add(op["ms"], _mk(deferred, op["script"]))
        elif k == "flip":
            sw = m.switches["s_a"]
            sw_scripts["s_a"].append((op["script"], "sw"))
            sc.process_switch("s_a", 1 - sw.state, logical=True)
        else:
            raise AssertionError(k)

    def named_delay_fired(name, script):
        """Callback of a named delay.  Expired: a posting context of its own.  Through run_now(): it runs
        synchronously inside the caller, i.e. it is part of the calling handler/callback/context, and what it
        posts is posted by that caller."""
        if st["run_now"]:
            ctx.log("run_now_cb", name, model.in_handler(), t=loop.time())
            run_script(script, "dl" if model.in_handler() else ("cb" if st["where"][0] == "cb" else "root"))
            return
        enter("delay", name)
        run_script(script, "root")
        st["where"] = ("loop",)

    def deferred(script):
        enter("delay", "deferred")
        run_script(script, "root")
        st["where"] = ("loop",)

    def run_script(script, where):
        for op in script:
            do_op(op, where)

    def enter(kind, *detail):
        ctx.log("ctx", kind, *detail, t=loop.time())
        st["where"] = (kind,) + tuple(detail)

    # -- infrastructure handlers (posting contexts) --------------------------------------------
    def switch_fired(name, kind):
        pend, sw_scripts[name] = sw_scripts[name], []
        outer = st["where"]
        nested = model.in_handler()
        if not nested:
            enter(kind, name)
        for script, where in pend:
            run_script(script, where)
        st["where"] = outer

    qstate = {}

    def qh1(queue, **kwargs):
        op = qstate[kwargs["qi"]]
        enter("qevent", kwargs["qi"], 1)
        run_script(op["script"], "root")
        if op["wait"]:
            queue.wait()
            m.delay.add(op["wait"] * 125, queue.clear)
        st["where"] = ("loop",)

    def qh2(queue, **kwargs):
        op = qstate[kwargs["qi"]]
        enter("qevent", kwargs["qi"], 2)
        run_script(op.get("script2") or [], "root")
        st["where"] = ("loop",)

    def qdone(**kwargs):
        ctx.log("qdone", kwargs.get("qi"), t=loop.time())
        qstate[kwargs["qi"]]["done"] = qstate[kwargs["qi"]].get("done", 0) + 1

    # -- schedule the roots ------------------------------------------------------------------
    ops = plan["ops"]
    boot_op = plan.get("boot")
    setup_done = [False]

    def boot_handler(queue, **kwargs):
        """Posting context 'boot': runs inside MPF's init_phase_3 (a queue event of the real boot sequence)."""
        enter("boot")
        for op in ops:
            if op.get("setup"):
                run_script(op["script"], "root")
        setup_done[0] = True
        run_script(boot_op["script"], "root")
        st["where"] = ("loop",)

    if boot_op:
        events.add_handler("init_phase_3", boot_handler, 1)
    _boot(sim, boot_hooks)                           # ... and the rest of it
    # infrastructure handlers (switch handlers need the booted switch controller)
    sc.add_switch_handler("s_a", lambda: switch_fired("s_a", "switch"), state=1, ms=0)
    sc.add_switch_handler("s_a", lambda: switch_fired("s_a", "switch"), state=0, ms=0)
    sc.add_switch_handler("s_b", lambda: switch_fired("s_b", "tswitch"), state=1, ms=125)
    sc.add_switch_handler("s_c", lambda: switch_fired("s_c", "tswitch"), state=1, ms=125)
    events.add_handler("c01_queue", qh1, 2)
    events.add_handler("c01_queue", qh2, 1)
    run_to(T0, quiet=True)
    assert loop.time() == T0, loop.time()
    if boot_op:
        settle()
        model.quiesce("loop idle after boot")
    times = []
    k = 2
    for op in ops:
        k += op["dt"]
        times.append(k)
    last_k = k

    def fire(i):
        op = ops[i]
        enter(op["ctx"], i)
        run_script(op["script"], "root")
        st["where"] = ("loop",)

    def fire_switch(i):
        op = ops[i]
        ctx.log("flip", "s_a", i, t=loop.time())
        sw_scripts["s_a"].append((op["script"], "root"))
        sc.process_switch("s_a", 1 - m.switches["s_a"].state, logical=True)

    def activate(i):
        op = ops[i]
        name = op["sw"]
        ctx.log("activate", name, i, t=loop.time())
        sw_scripts[name].append((op["script"], "root"))
        if m.switches[name].state:
            sc.process_switch(name, 0, logical=True)
        sc.process_switch(name, 1, logical=True)

    async def task_body(i, delay):
        op = ops[i]
        await asyncio.sleep(delay)
        enter("task", i, 1)
        run_script(op["script"], "root")
        fut = None
        if op.get("await_cb"):
            fut = loop.create_future()
            if do_post({"op": "post", "type": None, "event": op["await_event"], "kw": {"b": 1}, "bare": False,
                        "cb": None}, "root", fut=fut) is None:
                fut = None      # post budget exhausted
        st["where"] = ("loop",)
        if fut is not None:
            await fut
        else:
            await asyncio.sleep(0)
        enter("task", i, 2)
        run_script(op.get("script2") or [], "root")
        st["where"] = ("loop",)

    def task_done(f):
        if not f.cancelled():
            f.result()

    def fire_qevent(i):
        op = ops[i]
        qstate[i] = op
        enter("qpost", i)
        events.post_queue("c01_queue", callback=qdone, qi=i)
        st["where"] = ("loop",)

    driver_ops = []
    for i, op in enumerate(ops):
        t = T0 + times[i] * STEP
        c = op["ctx"]
        if c in ("driver", "reset"):
            driver_ops.append((t, i))
        elif c == "at":
            sim.at(t, fire, i)
        elif c == "delay":
            m.delay.add(times[i] * 125, _mk(fire, i))
        elif c == "switch":
            sim.at(t, fire_switch, i)
        elif c == "tswitch":
            sim.at(t - STEP, activate, i)
        elif c == "task":
            tk = loop.create_task(task_body(i, times[i] * STEP))
            tk.add_done_callback(task_done)
            tasks.append(tk)
        elif c == "qevent":
            sim.at(t, fire_qevent, i)
        else:
            raise AssertionError(c)

    # -- run ---------------------------------------------------------------------------------
    st["where"] = ("loop",)
    for t, i in driver_ops:
        if loop.time() < t:
            run_to(t)
        settle()
        st["where"] = ("driver", i)
        model.quiesce("loop idle before driver op %d at %.3f" % (i, loop.time()))
        if ops[i].get("setup") and setup_done[0]:
            continue
        if ops[i]["ctx"] == "reset":
            ctx.log("episode", i, t=loop.time())
            ctx.probe("episode_boundary")
            st.update(posts=0, invoc=0, defers=0, once=set())
            if len(model.regs) >= MAX_REGS - 10:
                # make room: drop every registration through the public API (part of the history)
                for hid in sorted(handlers):
                    do_op({"op": "rm_method", "hid": hid}, "root")
                st["reg_base"] = len(model.regs)
            continue
        ctx.log("ctx", "driver", i, t=loop.time())
        run_script(ops[i]["script"], "root")
        st["where"] = ("loop",)
    end = max(T0 + (last_k + 8) * STEP, loop.time() + 8 * STEP)
    run_to(end, quiet=True)
    settle()
    sim.run_quiet(1.0)
    settle()
    n = 0
    while model.qcb_open and n < 60:                  # queue events with outstanding waits (each <= 375 ms)
        sim.run_quiet(0.5)
        settle()
        n += 1
    model.quiesce("end of run")
    model.quiesce_queue("end of run, %.1f s after the last stimulus" % (loop.time() - end))
    for tk in tasks:
        if not tk.done():
            raise AssertionError("task did not finish")
    for i, op in qstate.items():
        if op.get("done", 0) != 1:
            raise AssertionError("queue event %d completed %r times (C02 territory, but unexpected here)" % (i, op.get("done", 0)))
    ctx.info["posts"] = len(model.posts)
    ctx.info["deliveries"] = model.n_deliveries


def _boot(sim, state, until_events=False):
    """Sim.boot() in two halves: stop as soon as machine.events exists (so that a handler for MPF's own
    init_phase_3 event can be registered = posting context 'boot'), then finish the boot."""
    import asyncio.events as aev
    loop = sim.loop
    if not state:
        state.append(asyncio.ensure_future(sim.machine.initialize(), loop=loop))
        state.append(loop.stall_enabled)
        loop.stall_enabled = False
    init = state[0]
    n = 0
    aev._set_running_loop(loop)
    try:
        while not init.done() and sim.crash is None:
            if until_events and hasattr(sim.machine, "events"):
                return
            loop._run_once()
            n += 1
            if n > 200000:
                raise AssertionError("boot did not finish")
    finally:
        aev._set_running_loop(None)
    sim.check_crash()
    init.result()
    if until_events:
        raise AssertionError("boot finished before the hook point")
    aev._set_running_loop(loop)      # a queue event posted during boot creates its task here
    try:
        sim.machine.events.process_event_queue()
    finally:
        aev._set_running_loop(None)
    sim.run(0.001)
    loop.stall_enabled = state[1]
    sim.booted = True


def _mk(fn, *args):
    def call(**kwargs):
        fn(*args)
    return call
