"""Shared workload and oracles for C04 (ball conservation) and C05 (ball request progress).

Both checks run the same simulated machines (PinWorld behind SimPlatform); each reports only the rules of
its own property.
"""
from sim.harness import draw_knobs

RULES = {
    "C04": {"count_negative", "count_above_capacity", "fired_at_full_target", "rest_device_count", "rest_playfield_count",
            "rest_total", "known_above_world"},
    "C05": {"never_rests", "request_not_served", "failed_eject_unreported", "device_not_idle", "mpf_crash"},
}

TOPOLOGIES = {
    "t1": {"machine": "balls_t1", "trough": "bd_trough", "trough_switches": ["s_trough1", "s_trough2", "s_trough3", "s_trough4"],
           "pf_switches": ["s_pf1", "s_pf2"], "locks": [], "manual": []},
    "t2": {"machine": "balls_t2", "trough": "bd_trough", "trough_switches": ["s_trough1", "s_trough2", "s_trough3", "s_trough4"],
           "pf_switches": ["s_pf1", "s_pf2"], "locks": ["bd_lock"], "manual": []},
    "t3": {"machine": "balls_t3", "trough": "bd_trough", "trough_switches": ["s_trough1", "s_trough2", "s_trough3", "s_trough4"],
           "pf_switches": ["s_pf1", "s_pf2"], "locks": ["bd_vuk"], "manual": []},
    "t4": {"machine": "balls_t4", "trough": "bd_trough", "trough_switches": ["s_trough1", "s_trough2", "s_trough3", "s_trough4"],
           "pf_switches": ["s_pf1", "s_pf2"], "locks": [], "manual": ["bd_plunger"]},
    # t1 + a ball save (unlimited saves, 2 s eject delay): drains are answered by new balls
    "t5": {"machine": "balls_t5", "trough": "bd_trough", "trough_switches": ["s_trough1", "s_trough2", "s_trough3", "s_trough4"],
           "pf_switches": ["s_pf1", "s_pf2"], "locks": [], "manual": []},
    # three-stage chain: trough -> launcher -> one-ball staging device -> playfield
    "t7": {"machine": "balls_t7", "trough": "bd_trough", "trough_switches": ["s_trough1", "s_trough2", "s_trough3", "s_trough4"],
           "pf_switches": ["s_pf1", "s_pf2"], "locks": [], "manual": []},
    # trough -> two-ball launcher -> playfield (the source may have to wait for the target's own eject to finish)
    "t8": {"machine": "balls_t8", "trough": "bd_trough", "trough_switches": ["s_trough1", "s_trough2", "s_trough3", "s_trough4"],
           "pf_switches": ["s_pf1", "s_pf2"], "locks": [], "manual": []},
    # t1 with a jam switch (jam pulse, reorder pulse): a kicked ball may drop back onto the jam switch while the others are
    # shaken off their switches
    "t10": {"machine": "balls_t10", "trough": "bd_trough", "trough_switches": ["s_trough1", "s_trough2", "s_trough3", "s_trough4"],
            "pf_switches": ["s_pf1", "s_pf2"], "locks": [], "manual": []},
    # Gottlieb style: outhole -> trough counted at its entrance (the last ball rests on the entrance switch and is
    # counted after entrance_switch_full_timeout) -> plunger lane
    "t9": {"machine": "balls_t9", "trough": "bd_trough", "drain": "bd_outhole", "trough_switches": ["s_trough_entry"],
           "pf_switches": ["s_pf1", "s_pf2"], "locks": [], "manual": [], "nballs": 3},
    # two independent feeds (trough+plunger each) into one playfield
    "t6": {"machine": "balls_t6", "trough": "bd_trough", "trough_b": "bd_trough_b", "plunger_b": "bd_plunger_b",
           "trough_switches": ["s_trough1", "s_trough2", "s_troughb1", "s_troughb2"],
           "pf_switches": ["s_pf1", "s_pf2"], "locks": [], "manual": []},
}

PROBES = ["game_started", "drain", "drain_during_eject", "multiball_add", "eject_failed_physically", "eject_retry_seen",
          "two_balls_loose", "lock_shot", "lock_release", "manual_plunge", "late_arrival", "fallback", "stuck",
          "rest_reached", "bounce_off_full", "request_while_busy", "game_ended", "second_game", "ambiguous_reentry", "entrance_reentry_at_eject_timeout", "second_feed_request", "ball_saved", "double_drain", "late_arrival_at_missing_deadline", "add_ball_while_first_in_transit", "request_after_kick", "eject_attempt_held", "lane_return"]


def warm():
    from sim.machine import preload
    for t in TOPOLOGIES.values():
        try:
            preload(t["machine"])
        except FileNotFoundError:
            pass


def plan(ch, tier):
    import os
    from sim import VERIF
    knobs = draw_knobs(ch, p_faulty=0.4)
    # host stalls are limited to 0.2 s here: MPF's ball logic is built on debounce times of 0.5 s and eject timeouts of
    # seconds; a host that freezes for longer than those is a fault the property does not ask MPF to survive
    knobs["max_stall_index"] = min(knobs["max_stall_index"], 4)
    avail = [k for k, t in TOPOLOGIES.items() if os.path.isdir(os.path.join(VERIF, "machines", t["machine"]))]
    topo = ch.weighted("topo", [(k, 3 if k == "t7" else 2 if k in ("t9", "t8") else 1) for k in avail])
    if os.environ.get("VERIF_FORCE_TOPO") in avail:      # debugging aid: concentrate a batch on one topology
        topo = os.environ["VERIF_FORCE_TOPO"]
    nb = ch.pick("nballs", [3, 2, 4, 1])
    nb = TOPOLOGIES[topo].get("nballs", nb)
    wk = {"p_eject_fail": ch.pick("p_eject_fail", [0.0, 0.0, 0.1, 0.3])}
    ops = []
    n = 3 + ch.choice("nops", 16)
    kinds = [("start", 3), ("drain", 6), ("pf_hit", 3), ("add_ball", 2), ("request", 1), ("wait", 2), ("end_game", 0.5),
             ("lane_return", 1)]
    if TOPOLOGIES[topo]["locks"]:
        kinds += [("lock_shot", 4), ("lock_eject", 2)]
    if TOPOLOGIES[topo]["manual"]:
        kinds += [("plunge", 5)]
    bs_mode = topo == "t5" and ch.flag("bs_mode", 0.4)
    if topo == "t4":
        wk["weak_plunges"] = ch.flag("weak_plunges", 0.5)
        if wk["weak_plunges"]:
            wk["p_eject_fail"] = ch.pick("p_weak_plunge", [0.3, 0.5])
    if topo == "t7":
        # a ball is requested for the staging device itself (it keeps it until the playfield asks); ejects between devices
        # may lose their ball to the playfield (the path is then restored by a new request)
        wk["p_stray"] = ch.pick("p_stray", [0.0, 0.3, 0.2])
        if wk["p_stray"]:
            nb = 4      # spare balls at home, so that a lost ball's path can usually be restored
        kinds += [("request_mid", 10 if wk["p_stray"] else 4)]
        if wk["p_stray"]:
            wk["p_eject_fail"] = max(wk["p_eject_fail"], 0.3)
            kinds += [("add_ball", 4)]
    if topo == "t9":
        # two balls draining right after each other, and requests while the last ball rests on the trough's entrance
        kinds += [("double_drain", 4), ("add_ball", 4), ("pair_request", 6)]
    if topo == "t5":
        # ball save: several balls in play and drains close together (inside the save's eject delay)
        kinds += [("double_drain", 5), ("add_ball", 4)]
        if bs_mode:
            # a mode-scoped ball save with delayed_eject_events (the machine-wide save is off in these runs): a saved
            # ball is owed until the release event or the end of the mode
            kinds += [("bs_mode_start", 4), ("bs_mode_stop", 3), ("bs_release", 2)]
    if topo == "t2":
        # a multiball whose ball_locks is the lock device; starts also while the lock is kicking a ball out
        kinds += [("mb_start", 4)]
    if "trough_b" in TOPOLOGIES[topo]:
        kinds += [("drain_b", 4), ("add_ball_b", 3), ("request_both", 2)]
    for i in range(n):
        k = "start" if i == 0 else ch.weighted("op", kinds)
        ops.append({"op": k, "dt": ch.pick("dt", [0.5, 0.0, 0.05, 0.3, 1.0, 2.0, 2.1, 3.1, 5.0, 12.0]), "pick": ch.choice("pick", 3)})
    patches = {"game": {"balls_per_game": ch.pick("bpg", [1, 2, 3])}}
    # reactive requests: another ball is requested a moment after some device kicked (while its ball is under way)
    chain = topo in ("t7", "t2", "t3", "t8")      # devices that feed another device which ejects onwards
    if topo == "t10":
        wk["p_eject_fail"] = ch.pick("p_eject_fail_jam", [0.3, 0.5, 0.1])
    react = {"on": ch.flag("react_add", 0.6 if chain else 0.3), "delay": ch.pick("react_delay", [0.2, 0.1, 0.5, 1.0]),
             "max": 1 + ch.choice("react_max", 3)}
    if topo == "t8":
        react["lane_race"] = ch.flag("lane_race", 0.7)
        react["back"] = ch.pick("lane_back", [0.3, 0.1, 0.8, 1.5])
        if react["lane_race"]:
            wk["p_eject_fail"] = ch.pick("p_eject_fail_race", [0.5, 0.3])
    if chain and react["on"]:
        # make fall-backs likely in these runs: the interesting window is "request evaluated while the device's own
        # ball is under way and then comes back"
        wk["p_eject_fail"] = ch.pick("p_eject_fail_chain", [0.3, 0.5])
    # a handler that holds the trough's eject-attempt queue event (what diverters and queue relays do)
    hold = {"on": ch.flag("hold_attempt", 0.25), "secs": ch.pick("hold_secs", [1.5, 0.5, 3.0])}
    # mechanical plunger: a ball may already rest in the lane at boot (nothing queued; the player plunges it by hand)
    lane_ball = topo == "t4" and nb >= 2 and ch.flag("lane_ball_at_boot", 0.5)
    # two feeds: more balls may be requested than the machine has (a legal use of playfield.add_ball: the requests
    # stay queued until balls come home); a lane whose own feed is empty then waits, the other one must still be served
    oversub = ("trough_b" in TOPOLOGIES[topo] and ch.flag("oversubscribe", 0.5)) or \
        (topo == "t1" and ch.flag("oversubscribe_t1", 0.3))
    if oversub:
        # several balls requested in one call, more than are home at that moment
        for i in range(len(ops)):
            if i and ops[i]["op"] in ("add_ball", "request", "wait") and ch.flag("add_balls_n", 0.5):
                ops[i]["op"] = "add_balls_n"
    if lane_ball and ch.flag("lane_plunge_before_game", 0.5):
        # attract mode: somebody plunges the resting ball before any game was started
        ops[0]["op"] = ch.pick("lane_first_op", ["plunge", "wait"])
        ops[0]["dt"] = ch.pick("lane_first_dt", [5.0, 0.5, 12.0])
    return {"knobs": knobs, "world": wk, "topo": topo, "nballs": nb, "ops": ops, "patches": patches, "react": react,
            "hold": hold, "lane_ball": lane_ball, "oversub": oversub, "bs_mode": bs_mode,
            # the trough gives up after that many failed attempts in a row (0 = never) and must then say it is broken
            "max_attempts": ch.pick("max_attempts", [0, 0, 0, 2, 3]) if wk["p_eject_fail"] else 0,
            # the entrance-counted VUK keeps what it catches (like a lock) until it is told to eject: it fills up and
            # further shots bounce off it
            "vuk_keeps": topo == "t3" and ch.flag("vuk_keeps", 0.5),
            # a mode that starts the multiball when the lock kicks a ball out (e.g. a scoop award)
            "mb_on_lock_eject": topo == "t2" and ch.flag("mb_on_lock_eject", 0.4)}


def execute(ctx, plan, prop):
    from sim.pinworld import PinWorld
    from sim.tap import tap_events
    rules = RULES[prop]
    topo = TOPOLOGIES[plan["topo"]]
    patches = dict(plan["patches"])
    start_sw = list(topo["trough_switches"][:plan["nballs"]])
    if plan.get("lane_ball"):
        start_sw[-1] = "s_plunger"
        # the lane counts as a home position: the ball may stay there, nothing is queued until the player plunges
        patches["ball_devices"] = {"bd_plunger": {"tags": "home"}}
    if plan.get("max_attempts"):
        bd = dict(patches.get("ball_devices") or {})
        bd[topo["trough"]] = dict(bd.get(topo["trough"]) or {}, max_eject_attempts=plan["max_attempts"])
        patches["ball_devices"] = bd
    if plan.get("vuk_keeps"):
        patches["ball_holds"] = {"bh": {"hold_devices": "bd_vuk", "balls_to_hold": 2, "enable_events": "ball_started",
                                        "release_one_events": "bh_release_one"}}
    if plan.get("bs_mode"):
        patches["ball_saves"] = {"bs": {"enable_events": "bs_main_enable_never_posted"}}
    patches["virtual_platform_start_active_switches"] = ", ".join(start_sw)
    sim = ctx.new_sim(topo["machine"], platform="simhw", patches=patches, unit_test=False)
    sim.loop.stall_enabled = False
    sim.boot()
    sim.loop.stall_enabled = True
    m = sim.machine
    world = PinWorld(sim, ctx, plan["world"])
    world.attach()
    devices = [d for d in m.ball_devices.values() if not d.is_playfield()]
    pf = m.playfield

    def viol(rule, sig, msg):
        if prop == "C05" and world.ambiguous_reentries and rule in ("never_rests", "request_not_served", "device_not_idle"):
            # liveness is judged on what MPF can know: after an ambiguous re-entry its belief about who owes whom a
            # ball may legitimately differ from the world (counted under probe liveness_not_judged_ambiguous)
            ctx.probe("liveness_not_judged_ambiguous")
            return
        if rule in rules:
            if prop == "C05" and world.exact_late_arrivals and rule in ("device_not_idle", "request_not_served", "never_rests"):
                # own class: a late ball was counted in its target in the very instant the source gave it up for lost
                sig = "arrival_at_ball_missing_deadline"
            ctx.violation(rule, sig, msg)

    neg_seen = [0]

    # ---- in-run invariants (every posted event is a sampling point) -------------------------------
    def sample(*_a):
        for d in devices:
            # re-entry ambiguity (see below) also covers the bookkeeping of balls promised to requests: once MPF has
            # booked another ball's entry as its own ejected ball coming back, available_balls of that device may be
            # off; its physical count (balls) is still judged
            if d.balls < 0 or (d.available_balls < 0 and d.name not in world.ambiguous_devs):
                viol("count_negative", d.name + (" after_lost_ball_without_spare" if restore_failed[0] and d.balls >= 0 else ""),
                     "%s: balls=%d available_balls=%d counted=%d state=%s at %.3f (event %s)" % (d.name, d.balls, d.available_balls, d.counted_balls, d.state, sim.now, "after callback"))
            if d.balls > d.capacity:
                viol("count_above_capacity", d.name, "%s: balls=%d capacity=%d at %.3f" % (d.name, d.balls, d.capacity, sim.now))
        if pf.balls < 0 and pf.balls != neg_seen[0] and not world.ambiguous_reentries:
            neg_seen[0] = pf.balls
            # a capture from the playfield while an eject towards it is still unconfirmed is its own (known) class
            # (one ball per unconfirmed eject: with two lanes feeding the playfield both may be unconfirmed at once)
            unconfirmed = sum(1 for d in devices if d.state in ("ball_left", "failed_confirm", "ejecting")
                              and d.config["eject_targets"][0] is pf)
            pending = pf.num_balls_requested > 0 or unconfirmed > 0
            sig = "playfield_capture_before_eject_confirm" if (pending and pf.balls >= -max(1, unconfirmed)) else "playfield"
            if world.reentry_at_timeout:
                sig = "entrance_reentry_at_eject_timeout"
            viol("count_negative", sig, "playfield.balls=%d at %.3f (num_balls_requested=%d, device states %r)"
                 % (pf.balls, sim.now, pf.num_balls_requested, [(d.name, d.state) for d in devices]))
        elif pf.balls >= 0:
            neg_seen[0] = 0
        if m.ball_controller.num_balls_known > world.total() and not world.uncountable_devs:
            # (a device that lost track of a ball for a sensing reason rediscovers it later as a "new" ball)
            viol("known_above_world", "num_balls_known", "num_balls_known=%d but only %d balls exist"
                 % (m.ball_controller.num_balls_known, world.total()))
    # sampled after every loop callback: exactly the states other tasks and event handlers can observe
    sim.loop.after_callback = sample

    def on_coil(info, rec):
        # C04: never fire towards a device without room.  Balls MPF cannot know about yet (entered the target less
        # than its count delay ago, not sent by MPF) are not held against it.
        tgt = info.target
        if tgt.is_playfield():
            return
        if world.count(info.name) == 0:
            return      # nothing will move
        ti = world.devs[tgt.name]
        settled = [b for b in world.balls if b.kind == "dev" and b.dev == tgt.name
                   and sim.now - b.since > ti.entrance_count_delay + 0.6]
        # relaxation "return ambiguity": a ball in transit whose source saw another ball enter meanwhile looks, to the
        # source's switches, exactly like an eject whose ball came back; MPF cannot know it is still on its way
        known_transit = [b for b in world.balls if b.kind == "transit" and b.dst == tgt.name and b.src in world.devs
                         and not b.ambiguous]
        if tgt.config["eject_targets"][0].is_playfield():
            # relaxation "playfield confirmation": an eject to the playfield is confirmed by ANY playfield activity
            # (documented confirm_eject_type: target). When another ball made such activity after the target's own
            # ball left, MPF rightly believes that eject succeeded; if that ball later falls back, MPF could not know
            known_transit = [b for b in known_transit
                             if not (b.src == tgt.name and world.last_pf_activity >= b.since)]
        if ti.mechanical:
            # relaxation "skip assumption": a mechanical plunger lane may let a ball through unseen, so once the source's
            # eject timeout has passed MPF documents that it treats the ball as possibly gone past the lane; a ball that
            # is physically still on its way (late arrival) is then no longer held against the no-room rule
            known_transit = [b for b in known_transit
                             if sim.now - b.since <= world.devs[b.src].eject_timeout + 0.05 or b.src == tgt.name]
        if len(settled) + len(known_transit) >= ti.capacity:
            viol("fired_at_full_target", "%s>%s" % (info.name, tgt.name),
                 "%s fired towards %s which physically holds %d settled ball(s) + %d on the way (capacity %d) at %.3f; world=%r"
                 % (info.name, tgt.name, len(settled), len(known_transit), ti.capacity, sim.now, world.summary()))
        if sim.now - world.last_drain_t < 1.0:
            ctx.probe("drain_during_eject")
        rc = plan.get("react") or {}
        if rc.get("on") and react_left[0] > 0 and m.game is not None and in_workload[0]:
            react_left[0] -= 1

            def late_request():
                if can_add() and in_workload[0]:
                    ctx.probe("request_after_kick")
                    pf.add_ball()
                    m.game.balls_in_play += 1
            sim.after(rc["delay"], late_request)
    world.last_drain_t = -100.0
    react_left = [(plan.get("react") or {}).get("max", 0)]
    in_workload = [True]
    world.on_coil.append(on_coil)

    def on_kick_to_playfield(info, rec):
        # a lane that holds more than one ball kicks towards the playfield: a moment later another ball is requested
        # (the source has to wait for the lane's eject to finish) and a ball in play rolls back into the lane
        rc = plan.get("react") or {}
        if not info.target.is_playfield() or info.capacity < 2 or info.mechanical or not rc.get("lane_race"):
            return
        if not (react_left[0] > 0 and m.game is not None and in_workload[0]):
            return
        react_left[0] -= 1

        def late_request():
            if can_add() and in_workload[0]:
                ctx.probe("request_during_lane_eject")
                pf.add_ball()
                m.game.balls_in_play += 1

        def roll_back():
            if in_workload[0] and world.loose_ball_into(info.name, 0):
                ctx.probe("lane_return_during_lane_eject")
        sim.after(rc["delay"], late_request)
        sim.after(rc["delay"] + rc.get("back", 0.3), roll_back)
    world.on_coil.append(on_kick_to_playfield)

    failed_events = []
    broken = set()
    restore_failed = [0]
    follow_ups = [2]

    def upstream(dname):
        out, todo = set(), [dname]
        while todo:
            cur = todo.pop()
            for i in world.devs.values():
                if i.target.name == cur and i.name not in out:
                    out.add(i.name)
                    todo.append(i.name)
        return out

    def starved(d):
        """A device that waits for a ball which none of its sources physically has (every ball is on the playfield or
        kept elsewhere): nothing can be served until a ball comes home, which only the player can bring about."""
        if d.state != "waiting_for_ball" or world.count(d.name):
            return False
        # (a source that has declared itself broken after max_eject_attempts can give nothing any more)
        return not any(world.count(u) for u in upstream(d.name) if u not in broken)


    def ev_listener(name, ev_type, cb, kwargs):
        if name.startswith("ball_save_") and name.endswith("_saving_ball"):
            ctx.probe("ball_saved")
        if name.startswith("balldevice_") and name.endswith("_ball_missing") and name != "balldevice_ball_missing":
            # MPF gives a ball up for lost. When no other ball is home at that moment the path of the request it was
            # travelling for cannot be restored (MPF logs "Failed to restore the path" / queues the re-request)
            ctx.probe("ball_given_up_for_lost")
            src = name[len("balldevice_"):-len("_ball_missing")]
            chain_devs = [src] + sorted(upstream(src))
            if not any(world.count(u) for u in chain_devs) or \
                    not any(m.ball_devices[u].available_balls > 0 for u in chain_devs):
                # (no ball home, or every ball that is home is already promised to another request)
                restore_failed[0] += 1
                ctx.probe("lost_ball_with_no_spare_ball_home")
            elif "bd_mid" in m.ball_devices and follow_ups[0] > 0:
                # the path was restored with a spare ball; once that has settled, ask for a ball again
                follow_ups[0] -= 1

                def follow_up():
                    mid = m.ball_devices["bd_mid"]
                    if m.game is None:
                        return
                    if mid.balls + mid.requested_balls + mid.available_balls == 0 and world.count("bd_mid") == 0 and mid.state == "idle" \
                            and sum(world.count(d.name) for d in devices) > 0:
                        ctx.probe("request_after_restored_path")
                        mid.request_ball()
                    elif can_add():
                        ctx.probe("request_after_restored_path")
                        pf.add_ball()
                        m.game.balls_in_play += 1
                world._later(20.0, follow_up)
        if name.endswith("_ball_eject_failed"):
            failed_events.append((sim.now, name[len("balldevice_"):-len("_ball_eject_failed")]))
        elif name.startswith("balldevice_") and name.endswith("_broken"):
            broken.add(name[len("balldevice_"):-len("_broken")])
            ctx.probe("device_broken_after_max_attempts")
    tap_events(sim, ev_listener)

    hold = plan.get("hold") or {}
    if hold.get("on"):
        def hold_attempt(queue, **kwargs):
            ctx.probe("eject_attempt_held")
            queue.wait()
            sim.after(hold["secs"] if in_workload[0] else 0.0, queue.clear)
        m.events.add_handler("balldevice_%s_ball_eject_attempt" % topo["trough"], hold_attempt)

    if plan.get("mb_on_lock_eject"):
        mb_left = [2]

        def lock_ejecting(**kwargs):
            if in_workload[0] and m.game is not None and mb_left[0] > 0 and can_add():
                mb_left[0] -= 1
                ctx.probe("multiball_start_during_lock_eject")
                ctx.probe("multiball_start")
                m.events.post("mb_start")
        m.events.add_handler("balldevice_%s_ejecting_ball" % topo["locks"][0], lock_ejecting)

    def can_add(n=1):
        """A further ball may be requested only while the machine has one to give: the workload keeps the game's
        balls_in_play in step with its requests, which is only meaningful without over-subscription."""
        if m.game is None or m.game.balls_in_play < 1:
            # no ball in progress (e.g. the game waits for the playfield to become empty before its first ball): raising
            # balls_in_play by hand would not be a request a game can make
            return False
        if plan.get("oversub"):
            # at most two requests beyond what the machine holds
            return pf.available_balls + n <= world.total() + 2
        return m.game.balls_in_play + n <= world.total() and pf.available_balls + n <= world.total()

    # ---- workload -------------------------------------------------------------------------------------
    games = [0]
    drain_dev = topo.get("drain", topo["trough"])
    for op in plan["ops"]:
        if op["dt"]:
            sim.run(op["dt"])
        k = op["op"]
        ctx.log("op", k, t=sim.now)
        if k == "start":
            if m.game is None:
                games[0] += 1
                ctx.probe("game_started" if games[0] == 1 else "second_game")
            sim.hit_switch("s_start", 1)
            sim.run(0.05)
            sim.hit_switch("s_start", 0)
        elif k == "drain":
            if world.loose_ball_into(drain_dev, op["pick"]):
                ctx.probe("drain")
                world.last_drain_t = sim.now
        elif k == "double_drain":
            if world.loose_ball_into(drain_dev, op["pick"]):
                ctx.probe("drain")
                world.last_drain_t = sim.now
                sim.run([0.4, 0.9, 1.5][op["pick"] % 3])
                if world.loose_ball_into(drain_dev, op["pick"]):
                    ctx.probe("double_drain")
        elif k == "pair_request":
            # two balls drain right after each other; a ball is requested while the second one comes to rest
            if world.loose_ball_into(drain_dev, op["pick"]):
                ctx.probe("drain")
                sim.run([0.4, 0.9, 1.5][op["pick"] % 3])
                if world.loose_ball_into(drain_dev, op["pick"]):
                    ctx.probe("double_drain")
                sim.run([1.2, 2.0, 0.6][int(op["dt"] * 10) % 3])
                if can_add():
                    ctx.probe("request_while_last_ball_settles")
                    pf.add_ball()
                    m.game.balls_in_play += 1
        elif k == "drain_b":
            if world.loose_ball_into(topo["trough_b"], op["pick"]):
                ctx.probe("drain")
                world.last_drain_t = sim.now
        elif k == "add_ball_b":
            if can_add():
                ctx.probe("second_feed_request")
                pf.add_ball(source_device=m.ball_devices[topo["plunger_b"]])
                m.game.balls_in_play += 1
        elif k == "request_both":
            # one ball requested from each lane at the same moment (possibly while both feeds are empty)
            if can_add(2):
                ctx.probe("second_feed_request")
                pf.add_ball()
                pf.add_ball(source_device=m.ball_devices[topo["plunger_b"]])
                m.game.balls_in_play += 2
        elif k == "lane_return":
            # a ball in play rolls back into the plunger lane
            if "bd_plunger" in world.devs and world.devs["bd_plunger"].ball_switches and not topo["manual"]:
                if world.loose_ball_into("bd_plunger", op["pick"]):
                    ctx.probe("lane_return")
        elif k == "pf_hit":
            world.loose_ball_hits(topo["pf_switches"][op["pick"] % len(topo["pf_switches"])])
        elif k == "add_ball":
            # mostly a multiball add while a ball is in play; sometimes while the first ball is still on its way
            if can_add() and (len(world.loose()) >= 1 or op["pick"] == 0):
                ctx.probe("multiball_add")
                if not world.loose():
                    ctx.probe("add_ball_while_first_in_transit")
                if any(d.state != "idle" for d in devices):
                    ctx.probe("request_while_busy")
                pf.add_ball()
                m.game.balls_in_play += 1
        elif k == "request_mid":
            mid = m.ball_devices["bd_mid"]
            if m.game is not None and mid.balls + mid.requested_balls + mid.available_balls == 0 and world.count("bd_mid") == 0 \
                    and mid.state == "idle" and sum(world.count(d.name) for d in devices) > 0:
                ctx.probe("request_for_device")
                mid.request_ball()
        elif k == "add_balls_n":
            n = 2 + op["pick"] % 2
            if can_add(n) or (m.game is not None and m.game.balls_in_play >= 1 and plan.get("oversub")
                              and pf.available_balls + n <= world.total() + 3):
                before = pf.available_balls + sum(d.requested_balls for d in devices)
                home = sum(world.count(d.name) for d in devices)
                ctx.probe("multi_ball_request")
                if home + 2 <= n:
                    ctx.probe("multi_ball_request_short_by_two")
                pf.add_ball(balls=n)
                m.game.balls_in_play += n
                after = pf.available_balls + sum(d.requested_balls for d in devices)
                if prop == "C05" and after - before != n:
                    # documented: "Return the number of balls found for eject. The remaining balls are queued for
                    # eject when available" - every requested ball is either on its way or queued
                    viol("request_not_served", "request_dropped", "playfield.add_ball(balls=%d): %d ball(s) were set up or "
                         "queued, %d dropped (available_balls+queued requests %d -> %d)"
                         % (n, after - before, n - (after - before), before, after))
        elif k == "request":
            if can_add():
                d = m.ball_devices[topo["locks"][0]] if topo["locks"] else None
                if d is None:
                    pf.add_ball()
                    m.game.balls_in_play += 1
        elif k == "lock_shot":
            if world.loose_ball_into(topo["locks"][op["pick"] % len(topo["locks"])], op["pick"]):
                ctx.probe("lock_shot")
        elif k == "lock_eject":
            d = m.ball_devices[topo["locks"][op["pick"] % len(topo["locks"])]]
            if d.balls > 0:
                ctx.probe("lock_release")
                if plan.get("vuk_keeps"):
                    m.events.post("bh_release_one")
                else:
                    d.eject(1)
        elif k == "mb_start":
            if m.game is not None and can_add():
                lock = m.ball_devices[topo["locks"][0]]
                if op["pick"] == 0 and lock.balls > 0:
                    # the lock is kicking out a ball (not for the multiball) when the multiball starts
                    ctx.probe("multiball_start_during_lock_eject")
                    lock.eject(1)
                    sim.run([0.0, 0.02, 0.3][int(op["dt"] * 100) % 3])
                ctx.probe("multiball_start")
                m.events.post("mb_start")
        elif k == "bs_mode_start":
            if m.game is not None:
                m.events.post("start_m_bs")
        elif k == "bs_mode_stop":
            if m.modes["m_bs"].active:
                ctx.probe("bs_mode_stopped")
                if getattr(m.ball_saves["bs_mode"], "_scheduled_balls", 0):
                    ctx.probe("bs_mode_stopped_with_ball_owed")
            m.events.post("stop_m_bs")
        elif k == "bs_release":
            m.events.post("bs_release")
        elif k == "plunge":
            if world.plunge(topo["manual"][0]):
                ctx.probe("manual_plunge")
        elif k == "end_game":
            if m.game is not None:
                ctx.probe("game_ended")
                m.game.end_game()
        if len(world.loose()) >= 2:
            ctx.probe("two_balls_loose")
        ctx.state(plan["topo"], tuple(sorted((d.name, d.balls, d.state) for d in devices)), pf.balls, m.game is not None)

    for e in world.eject_log:
        if e["outcome"] in ("fallback", "stuck", "shake", "stray"):
            ctx.probe("eject_failed_physically")
        if e["outcome"] in ("fallback", "stuck", "late"):
            ctx.probe({"fallback": "fallback", "stuck": "stuck", "late": "late_arrival"}[e["outcome"]])

    # ---- faults stop; the physical world comes to rest ------------------------------------------------------
    in_workload[0] = False
    world.faults_enabled = False
    sim.loop.stall_enabled = False
    # the player plays on a little: manual plungers get pulled, so nothing waits on a human for ever
    bound = 3 * sum(i.eject_timeout + i.missing_timeout for i in world.devs.values()) + 30
    quiet = 0.0
    waited = 0.0
    while waited < bound:
        sim.run(1.0)
        waited += 1.0
        for name in topo["manual"]:
            if world.count(name) and m.ball_devices[name].state in ("ejecting", "waiting_for_ball_left", "ball_left"):
                world.plunge(name)
        if plan.get("bs_mode"):
            m.events.post("bs_release")     # nothing waits for the release event for ever
        stable = world.at_rest() and all(d.state == "idle" or d.name in broken or starved(d) for d in devices)
        quiet = quiet + 1.0 if stable else 0.0
        if quiet >= 8.0:
            break
    if quiet < 8.0:
        viol("never_rests", "rest" + (" after_lost_ball_without_spare" if restore_failed[0] else ""), "physical world at rest=%r but devices %r did not come to idle within %.0f simulated "
             "seconds after the last fault; world=%r pf.balls=%d available=%d"
             % (world.at_rest(), [(d.name, d.state, d.balls) for d in devices], bound, world.summary(), pf.balls, pf.available_balls))
        return
    ctx.probe("rest_reached")

    # the recorded finding "ball reserved for ever after a late arrival" (a device at rest holds a ball with
    # available_balls below its count and nothing queued); its consequences carry the same suffix
    late_reserved = [d.name for d in devices if d.name in world.late_targets and d.name not in broken
                     and d.available_balls < d.balls and d.outgoing_balls_handler.is_idle]
    late_sfx = " after_late_arrival" if late_reserved else ""

    # ---- C04 at rest ------------------------------------------------------------------------------------
    for d in devices:
        if d.name in broken:
            continue
        if d.name in world.uncountable_devs:
            continue
        if d.balls != world.count(d.name):
            viol("rest_device_count", d.name, "at rest %s.balls=%d but %d ball(s) are physically in it; world=%r"
                 % (d.name, d.balls, world.count(d.name), world.summary()))
    loose = len(world.loose())
    # relaxation "re-entry ambiguity": if a ball entered a device while that device's own eject was still unconfirmed,
    # MPF may legitimately have booked it as the ejected ball coming back; playfield and total are then not judged
    ambiguous = world.ambiguous_reentries > 0
    if pf.balls != loose and not broken and not ambiguous:
        viol("rest_playfield_count", "entrance_reentry_at_eject_timeout" if world.reentry_at_timeout else "playfield" + late_sfx, "at rest playfield.balls=%d but %d ball(s) are loose; world=%r devices=%r"
             % (pf.balls, loose, world.summary(), [(d.name, d.balls) for d in devices]))
    total = sum(d.balls for d in devices) + pf.balls
    if not broken and not ambiguous and (total != m.ball_controller.num_balls_known or total != world.total()):
        viol("rest_total", "entrance_reentry_at_eject_timeout" if world.reentry_at_timeout else "total" + late_sfx, "at rest counts sum to %d, num_balls_known=%d, balls in the world=%d"
             % (total, m.ball_controller.num_balls_known, world.total()))

    # ---- C05 at rest ------------------------------------------------------------------------------------
    for d in devices:
        if d.name in broken:
            continue
        if starved(d):
            ctx.probe("starved_lane_at_rest")
            continue
        if any(u in broken for u in upstream(d.name)):
            continue        # what a source that has given up (broken after max_eject_attempts) still owes is excluded
        if d.available_balls != d.balls or not d.outgoing_balls_handler.is_idle:
            viol("device_not_idle", d.name + (" after_lost_ball_without_spare" if restore_failed[0] else
                                              " after_late_arrival" if d.name in world.late_targets else ""), "at rest %s: balls=%d available_balls=%d outgoing idle=%r"
                 % (d.name, d.balls, d.available_balls, d.outgoing_balls_handler.is_idle))
    if not broken and pf.available_balls != pf.balls and not plan.get("oversub"):
        src_has = sum(world.count(d.name) for d in devices)
        if pf.available_balls > pf.balls and src_has > 0:
            viol("request_not_served", "playfield" + late_sfx, "at rest playfield is still owed %d ball(s) (available_balls=%d, balls=%d) "
                 "while %d ball(s) sit in devices %r" % (pf.available_balls - pf.balls, pf.available_balls, pf.balls, src_has,
                                                         [(d.name, d.balls, d.state) for d in devices]))
    # a device with a queued ball request whose upstream devices physically hold a ball: the request could be served
    for d in devices:
        if d.name in broken or not d.requested_balls:
            continue
        ups = sorted(upstream(d.name))
        have = [u for u in ups if world.count(u) and u not in broken]
        if have:
            viol("request_not_served", "queued_request", "at rest %s still has %d queued ball request(s) while its source(s) %r "
                 "physically hold a ball; world=%r" % (d.name, d.requested_balls, have, world.summary()))
    if m.game is not None and not broken and not world.ambiguous_reentries and "trough_b" not in topo:
        # every ball the game counts as in play was requested for the playfield; once the world is at rest they must
        # all have been delivered (or wait at a manual plunger, or sit in a lock that keeps what it catches), as long
        # as balls were available for them
        waiting = sum(world.count(n) for n in topo["manual"]) + sum(world.count(n) for n in topo["locks"])
        in_devices = sum(world.count(d.name) for d in devices) - waiting
        owed = m.game.balls_in_play - loose - waiting
        if owed > 0 and in_devices > 0:
            viol("request_not_served", "balls_in_play" + late_sfx, "game running with balls_in_play=%d but only %d ball(s) loose and %d waiting "
                 "at a manual plunger while %d ball(s) sit in devices; world=%r"
                 % (m.game.balls_in_play, loose, waiting, in_devices, world.summary()))
    if m.game is not None and not broken and "trough_b" not in topo:
        if m.game.balls_in_play > 0 and loose == 0 and not any(world.count(n) for n in topo["manual"] + topo["locks"]):
            viol("request_not_served", "ball_in_play" + late_sfx, "game running with balls_in_play=%d but no ball is loose and none waits at a "
                 "manual plunger; world=%r" % (m.game.balls_in_play, world.summary()))
    # every physically failed eject was retried or reported
    for e in world.eject_log:
        if e["outcome"] not in ("fallback", "stuck", "shake") or e["dev"] in broken:
            continue
        if e["dev"] in world.uncountable_devs:
            continue        # a newcomer in the target confirmed that eject (arrival ambiguity): MPF rightly saw no failure
        retried = any(t > e["t"] and dv == e["dev"] for t, dv in world.coil_log)
        reported = any(t > e["t"] and dv == e["dev"] for t, dv in failed_events)
        if retried:
            ctx.probe("eject_retry_seen")
        if not retried and not reported:
            # the ball may simply have stayed where it is with nobody wanting it any more (request cancelled, game over)
            dev = m.ball_devices[e["dev"]]
            if dev.outgoing_balls_handler.is_idle and dev.available_balls == dev.balls == world.count(e["dev"]):
                continue
            viol("failed_eject_unreported", e["dev"], "eject of %s at %.3f failed physically (%s) and was neither retried "
                 "nor reported as failed" % (e["dev"], e["t"], e["outcome"]))


def on_crash(ctx, crash, prop):
    if prop == "C05":
        return ("mpf_crash", type(crash.exc).__name__, "exception reached the loop: %s" % crash)
    return None
