"""C17 - Shows run on schedule without drift and clean up after themselves.

SUT: Show (loader: relative/absolute/duration timing, tokens), RunningShow (schedule, loops, sync, pause/resume/
advance/step_back/update/stop), ShowController, show_player (global config player), light_player / coil_player /
event_player as show-step players, Light stacks, SimPlatform lights and drivers.

Oracle (written from the statement, see RULES below): a small control-history model per show instance keeps the
exact (fractions.Fraction) nominal time of the next step; every step announces itself at the seam through an event
posted by the step (event_player inside the show, token in the name identifies the instance); the model is driven
by the order in which the loop *processed* requests and steps.  Clean-up is judged on the light stacks, the
physical coil state and the hardware brightness of every light channel.
"""
import copy
from collections import Counter
from fractions import Fraction

from sim.harness import draw_knobs

ID = "C17"
LEVEL = "exploration"
RUNS = {"quick": 2000, "thorough": 40000}
WALL_CAP = {"quick": 120, "thorough": 3000}
RULE = ("one case = 1-3 generated show definitions (1-8 steps; relative '+x', absolute, `duration:` and default "
        "timing, odd durations 0.007/0.013/0.333/1.001, inserted empty first step, empty middle/last steps, hold "
        "step, tokens for event/light/colour, lights with and without fades, tags, coils) plus a generated history "
        "of 3-16 play/stop/pause/resume/advance/step_back/update requests (plays with sync_ms left out, explicit 0 or "
        "explicit non-zero, on machines with `mpf: default_show_sync_ms` 0/100/250/500) on three slots (direct API or the "
        "show_player), placed at relative offsets or exactly on / 1 ms around a pending step deadline, executed "
        "under a seeded scheduler (stalls, tie permutations); a case is non-trivial when it reached at least one "
        "reach probe; distinct = distinct sequence of observed event kinds")
PROBES = ["op_on_step_deadline", "op_mid_fade", "late_step_after_stall", "back_on_grid_after_stall",
          "catch_up_burst", "loop_wrap", "completed", "stop_mid_fade", "concurrent_same_light", "pause_then_resume",
          "advance_wrap", "step_back_wrap", "sync_wait", "sync_boundary", "negative_start_step", "ticks_1000",
          "update_speed", "stop_in_sync_wait", "replace_by_key", "replace_in_sync", "token_light", "manual_advance",
          "hold_step", "request_after_end", "resume_not_paused", "silent_step", "first_step_offset",
          "start_paused", "advance_while_paused", "coil_released", "default_fade_light", "default_sync_nonzero",
          "explicit_sync0_vs_default", "sync_from_default", "explicit_sync_vs_default", "replay_in_sync_wait",
          "fade_anchor_checked", "update_manual_advance"]
REAL = ["mpf.assets.show.Show/RunningShow", "mpf.core.show_controller.ShowController",
        "mpf.config_players.show_player/light_player/coil_player/event_player", "mpf.core.config_player.ConfigPlayer",
        "mpf.devices.light.Light (stack, fades)", "mpf.devices.driver.Driver", "mpf.core.events.EventManager",
        "MachineController boot"]
STUBS = ["event loop (SimLoop: virtual time, stalls, tie order)", "clock (SimClock)",
         "hardware platform (SimPlatform: recording lights and drivers)", "in-memory data manager"]
ASSUMPTIONS = [
    "loops=N means N repetitions after the first pass (Show.play docstring)",
    "resume of a paused show executes the next step at the resume instant and re-anchors the grid there "
    "(pinned by mpf/tests/test_Shows.py::test_pause_resume_shows)",
    "update(speed) applies to steps scheduled after the update; the already pending step keeps its deadline",
    "advance/step_back on a paused show puts it back into timed running (as implemented; the statement is silent)",
    "requests other than stop during the sync wait of a show are outside the generated space",
    "requests after the end of a show are only generated through the show_player (a config player may forward "
    "any event at any time); for API-driven instances the harness does not call methods of an ended RunningShow",
    "a repeated identical show_player play request (same key, equal config, no played/stopped events) is only "
    "generated while the show still waits for its sync point; whatever the player does with it, the show has to "
    "start at a multiple of sync_ms (a replaced waiter may run the start step once more at that same instant); "
    "repeats that are processed after the show started or after its sync point passed are discarded",
    "a fade started by a step is anchored at the step's instant: the request instant for advance/step_back/resume/"
    "play, the nominal step time for timed steps (anything between nominal and actual for a step late after a stall)",
    "call_soon FIFO order is kept; time does not advance inside one loop iteration",
]
STATE_ABSTRACTION = "(sorted statuses of the live instances, last request kind, number of lights with a stack)"
TECHNIQUE = "deterministic simulation, generated shows + control histories, exact-arithmetic reference schedule"

# oracle rules (violation classes)
#   duration_parse     loader turned the configured timing into other step durations than the statement's semantics
#   step_time          a step ran early, or late without a stall explaining it, or off the nominal grid after a stall
#   step_order         the step that ran is not the one the control history calls for
#   step_missing       a step whose nominal time has passed (loop free) did not run
#   event_missing      played/looped/completed/stopped/... (or the step's own event) not posted at its transition
#   event_twice        played/completed/stopped posted more than once
#   effect_after_end   a step or show event after the show stopped/completed
#   step_while_paused  a step ran while the show was paused
#   unexpected_step    a step ran although no timer may be pending (manual_advance / hold step / not paused resume)
#   residue_after_end  a light stack entry with the key of an ended show
#   stack_mismatch     light stacks differ from "base + what the live shows set"
#   coil_left_on       a coil enabled by an ended show is still on
#   hw_not_restored    hardware brightness / coil state at the end differs from the state before any show ran
#   fade_anchor        a fade started by a step does not run from the step's instant for the configured time
#   crash              exception out of a legal request

SPEEDS = ["1", "0.1", "0.25", "0.5", "1.5", "2", "3.7", "7.3"]
DUR_ALL = ["0.1", "0.25", "0.5", "0.333", "1", "1.5", "0.05", "0.013", "0.007", "1.001", "0.07", "2"]
DUR_FAST = ["0.007", "0.013", "0.02", "0.007"]
COLORS = ["ff0000", "00ff00", "0000ff", "ffffff", "804020", "000000", "123456"]
FADES = [None, None, "100ms", "60ms", "200ms", 30]
KINDS = ["played", "stopped", "looped", "paused", "resumed", "advanced", "stepped_back", "updated", "completed"]
NSLOTS = 3
MAX_TICKS = 3500


def _secs(v):
    """Configured time value -> exact seconds.  '+0.5', '250ms', '1.5s', 0.25, 1."""
    s = str(v).strip().lower()
    if s.startswith("+"):
        s = s[1:]
    if s.endswith("ms"):
        return Fraction(s[:-2]) / 1000
    if s.endswith("s"):
        return Fraction(s[:-1])
    return Fraction(s)


def _sync_arg(op):
    """sync_ms as passed by a play request (None: not given).  Plans recorded before the default-sync swarm
    existed have no sync_arg: there a non-zero sync_ms was passed and 0 was left out."""
    if "sync_arg" in op:
        return op["sync_arg"]
    return op["sync_ms"] or None


def _is_rel(v):
    return str(v)[0] == "+"


def _fmt_rel(ch, d):
    f = ch.choice("relfmt", 3)
    if f == 1:
        return "+%dms" % int(Fraction(d) * 1000)
    if f == 2:
        return "+%ss" % d
    return "+%s" % d


# ------------------------------------------------------------------------------------------------
# plan
# ------------------------------------------------------------------------------------------------
def _gen_step_content(ch, si, i, uses):
    st = {"events": "c17_(tag)_e%d" % i}
    nl = ch.weighted("nlights", [(1, 4), (0, 2), (2, 3)])
    groups = ["a", "b", "t"]
    perm = ch.shuffle_perm("lgroups", 3)
    lights = {}
    for g in [groups[p] for p in perm][:nl]:
        if g == "a":
            key = ch.weighted("lkey_a", [("l1", 3), ("grp", 1)])
        elif g == "b":
            key = "l2"
            if "grp" in lights:
                continue
        else:
            key = "(light)"
            uses.add("light")
        if key == "grp" and "l2" in lights:
            continue
        if key == "(light)":
            col = ch.weighted("lcol_t", [("(color)", 3), (None, 1)])
        else:
            col = None
        if col is None:
            col = ch.pick("lcol", COLORS)
        if ch.flag("lstop", 0.08):
            col = "stop"
        if col == "(color)":
            uses.add("color")
        fade = ch.pick("lfade", FADES)
        if fade is None:
            lights[key] = col
        elif col not in ("stop", "(color)") and isinstance(fade, str) and ch.flag("lexpress", 0.3):
            lights[key] = "%s-f%s" % (col, fade)
        else:
            lights[key] = {"color": col, "fade": fade}
    if lights:
        st["lights"] = lights
    if ch.flag("coil", 0.12):
        if si < 2 and ch.flag("coil_en", 0.7):
            st["coils"] = {"c_en%d" % (si + 1): ch.pick("coil_act", ["enable", "disable", "enable"])}
        else:
            st["coils"] = {"c_pulse": "pulse"}
    return st


def _gen_show(ch, si, fast):
    n = 1 + ch.choice("nsteps", 8)
    durs = [ch.pick("dur", DUR_FAST if fast else DUR_ALL) for _ in range(n)]
    style = ch.weighted("style", [("rel", 3), ("abs", 2), ("mixed", 3), ("dur", 2), ("default", 0.6)])
    uses = set(["tag"])
    steps = [_gen_step_content(ch, si, i, uses) for i in range(n)]
    S = Fraction(0)
    if style in ("rel", "abs", "mixed"):
        if ch.flag("first_offset", 0.15):
            off = ch.pick("first_off", ["0.2", "0.05", "0.5"])
            S = Fraction(off)
            steps[0]["time"] = ("+" + off) if (style == "rel" or ch.flag("fo_rel", 0.5)) else float(off)
        elif ch.flag("first_time0", 0.6):
            steps[0]["time"] = 0
    out = []
    hold = False
    for i in range(n):
        st = steps[i]
        out.append(st)
        d = durs[i]
        last = i == n - 1
        enc = style
        if style == "mixed":
            enc = ch.pick("enc", ["rel", "abs", "dur", "default"])
        if fast and enc == "default":
            enc = "dur"
        if enc == "default":
            durs[i] = d = "1"
        if last:
            if ch.flag("hold_last", 0.06):
                st["duration"] = -1
                hold = True
                continue
            if enc in ("rel", "abs"):
                S += Fraction(d)
                out.append({"time": _fmt_rel(ch, d) if enc == "rel" else float(S)})
            elif enc == "dur":
                st["duration"] = ch.pick("durfmt", [d, "%dms" % int(Fraction(d) * 1000), float(d)])
            continue
        if enc == "dur":
            st["duration"] = ch.pick("durfmt", [d, "%dms" % int(Fraction(d) * 1000), float(d)])
            S += Fraction(d)
        elif enc in ("rel", "abs"):
            S += Fraction(d)
            steps[i + 1]["time"] = _fmt_rel(ch, d) if enc == "rel" else float(S)
            # now and then an empty step in between (only a `time:`): a silent step
            if enc == "rel" and ch.flag("silent_mid", 0.07):
                d2 = ch.pick("dur", DUR_FAST if fast else DUR_ALL)
                out.append({"time": steps[i + 1]["time"]})
                steps[i + 1]["time"] = _fmt_rel(ch, d2)
                S += Fraction(d2)
        else:
            S += 1
    return out, sorted(uses), hold


def model_show(cfg):
    """Effective step list from the statement's timing semantics:
    a step starts at its `time:` (absolute from the show start, or '+x' after the start of the previous step) or,
    without `time:`, when the previous step's duration is over; a step lasts until the next one starts, or
    `duration:`, or 1 s; a show whose first step does not start at 0 begins with an empty step; a trailing step
    that only carries `time:` just ends the step before it."""
    eff = []
    first = cfg[0]
    S = Fraction(0)
    if "time" in first and _secs(first["time"]) != 0:
        S = _secs(first["time"])
        eff.append({"dur": S, "label": None, "lights": [], "coils": [], "yaml": None})
    n = len(cfg)
    for i, st in enumerate(cfg):
        last = i == n - 1
        if last and i != 0 and set(st.keys()) == {"time"}:
            break
        if "duration" in st:
            dur = _secs(st["duration"])
        elif not last and "time" in cfg[i + 1]:
            nt = cfg[i + 1]["time"]
            dur = _secs(nt) if _is_rel(nt) else _secs(nt) - S
        else:
            dur = Fraction(1)
        if dur > 0:
            S += dur
        label = None
        if "events" in st:
            label = st["events"].split("_")[-1]
        lights = []
        for key, val in (st.get("lights") or {}).items():
            if isinstance(val, dict):
                col, fade = val["color"], val.get("fade")
            else:
                col, fade = val, None
                if "-f" in str(val):
                    col, fade = str(val).split("-f")
            lights.append((key, col, fade))
        coils = list((st.get("coils") or {}).items())
        eff.append({"dur": dur, "label": label, "lights": lights, "coils": coils, "yaml": i})
    return eff


def plan(ch, tier):
    knobs = draw_knobs(ch)
    fast = ch.flag("fast", 0.18)
    nshows = 1 + ch.choice("nshows", 3)
    shows, meta = {}, {}
    for si in range(nshows):
        c = ch.sub("show%d" % si)
        cfg, uses, hold = _gen_show(c, si, fast and si == 0)
        name = "sh%d" % si
        shows[name] = cfg
        meta[name] = {"uses": uses, "n": len(model_show(cfg)), "hold": hold}
    slot_via = [ch.weighted("via%d" % k, [("api", 1), ("player", 1)]) for k in range(NSLOTS)]
    nops = 3 + ch.choice("nops", 14)
    if fast:
        nops = 3 + ch.choice("nops_fast", 7)
    default_sync = ch.weighted("default_sync", [(0, 5), (250, 1.5), (500, 1), (100, 0.5)])
    ops = []
    names = sorted(shows)
    paused = []           # plan-time guess of the paused slots (bias only; the run decides)
    manual_slots = []     # plan-time guess of the slots holding a manual_advance show (bias only)
    force_next = None     # (kind, slot): the same play request once more, right after a plain synchronised play
    for j in range(nops):
        slot = ch.weighted("slot", [(0, 4), (1, 2), (2, 1)])
        if j == 0:
            kind = "play"
        elif force_next is not None:
            kind, slot = force_next
            force_next = None
        elif manual_slots and ch.flag("manual_bias", 0.45):
            kind = ch.weighted("op_manual", [("advance", 5), ("step_back", 2), ("update", 1), ("wait", 1)])
            slot = ch.pick("manual_slot", manual_slots)
        elif paused and ch.flag("resume_bias", 0.5):
            kind = ch.weighted("op_paused", [("resume", 5), ("advance", 1), ("step_back", 1), ("update", 1), ("stop", 1)])
            slot = ch.pick("paused_slot", paused)
        elif fast:
            kind = ch.weighted("op_fast", [("wait", 5), ("play", 1.5), ("stop", 0.7), ("pause", 1), ("resume", 1),
                                           ("advance", 1), ("step_back", 1), ("update", 1.5)])
        else:
            kind = ch.weighted("op", [("play", 3), ("stop", 2), ("pause", 2), ("resume", 2.5), ("advance", 2),
                                      ("step_back", 1.5), ("update", 1.5), ("wait", 1)])
        if fast and j > 0 and kind in ("play", "stop") and slot == 0:
            slot = 1 + ch.choice("fast_slot", 2)      # the long-running show on slot 0 is left alone
        if kind == "pause" and slot not in paused:
            paused.append(slot)
        elif kind in ("resume", "stop", "play") and slot in paused:
            paused.remove(slot)
        op = {"op": kind, "slot": slot}
        w = ch.weighted("when", [("rel", 5), ("deadline", 4)])
        if kind == "wait":
            op["when"] = ["rel", ch.pick("waitdt", [1.0, 2.5, 0.7] if not fast else [1.0, 2.0, 3.0])]
        elif kind == "replay":
            op["when"] = ["rel", ch.pick("replay_dt", [0.0, 0.001, 0.01, 0.03, 0.05, 0.1])]
            if ch.flag("replay_again", 0.25):
                force_next = ("replay", slot)
        elif w == "rel" or j == 0:
            op["when"] = ["rel", ch.pick("dt", [0.0, 0.001, 0.01, 0.05, 0.1, 0.25, 0.37, 0.5, 1.0, 0.03, 0.0])]
        else:
            op["when"] = ["deadline", ch.choice("dl_idx", 3), ch.pick("dl_delta", [0.0, 0.0, 0.0, -0.001, 0.001, 0.02])]
        if kind == "play":
            name = names[0] if (fast and j == 0) else ch.pick("pshow", names)
            n = meta[name]["n"]
            op["show"] = name
            op["speed"] = ch.pick("speed", SPEEDS) if not (fast and j == 0) else ch.pick("fspeed", ["7.3", "3.7", "7.3", "2"])
            op["loops"] = ch.weighted("loops", [(-1, 4), (0, 3), (1, 2), (3, 2)])
            if fast and j == 0:
                op["loops"] = -1
            ss = 1
            if ch.flag("start_step", 0.35):
                ss = ch.randint("ss", -n, n)
                if ss == 0:
                    ss = 1
            op["start_step"] = ss
            # sync_arg: what the request passes (None = not given -> `mpf: default_show_sync_ms` applies, an explicit
            # value - including 0 = "start at once" - wins); sync_ms: the resulting effective sync cycle
            op["sync_arg"] = ch.weighted("sync", [(None, 4), (0, 3), (100, 1), (250, 1), (500, 1), (1000, 0.5)])
            op["sync_ms"] = default_sync if op["sync_arg"] is None else op["sync_arg"]
            op["priority"] = ch.weighted("prio", [(0, 3), (1, 1), (3, 1), (7, 1), (10, 1)])
            op["manual_advance"] = ch.flag("manual", 0.12) and not (fast and j == 0)
            op["start_running"] = not ch.flag("start_paused", 0.08) or (fast and j == 0)
            tok = {}
            if "light" in meta[name]["uses"]:
                tok["light"] = ch.pick("tok_light", ["l3", "l4"])
            if "color" in meta[name]["uses"]:
                tok["color"] = ch.pick("tok_color", COLORS)
            op["tokens"] = tok
            if op["sync_ms"] and j > 0 and ch.flag("on_sync_multiple", 0.3):
                op["when"] = ["sync", ch.choice("sync_k", 2)]      # request exactly on a multiple of sync_ms
            # plain: a show_player entry without events_when_played/stopped - only then the show_player may
            # recognise a repeated identical request ("nothing to do" / "advance") instead of replacing the show
            # (not when the start step is an empty one: without `played` the start would be unobservable)
            first = model_show(shows[name])[(ss - 1) if ss > 0 else (ss % n)]
            op["plain"] = slot_via[slot] == "player" and ch.flag("plain", 0.35) and first["label"] is not None
            if op["plain"] and op["sync_ms"] and ch.flag("replay", 0.7):
                force_next = ("replay", slot)
            if op["manual_advance"]:
                if slot not in manual_slots:
                    manual_slots.append(slot)
            elif slot in manual_slots:
                manual_slots.remove(slot)
        elif kind == "update":
            op["speed_idx"] = ch.choice("uspeed", len(SPEEDS))
            # API slots only: switch manual_advance on/off as well
            op["manual"] = ch.weighted("umanual", [(None, 6), (True, 1.5), (False, 1)])
        elif kind == "stop" and slot in manual_slots:
            manual_slots.remove(slot)
        ops.append(op)
    base = {}
    for ln in ("l1", "l2", "l3", "l4"):
        if ch.flag("base_" + ln, 0.4):
            base[ln] = [ch.pick("base_col", ["404040", "ff00ff", "101010"]), ch.pick("base_prio", [0, 5, 2])]
    return {"knobs": knobs, "shows": shows, "slot_via": slot_via, "ops": ops, "base": base, "fast": fast,
            "default_sync": default_sync,
            "tail_wait": ch.pick("tail_wait", [0.0, 0.5, 2.0, 0.1])}


def shrink(plan):
    # fewer shows' steps do not shrink independently of the ops; offer "no base colours" and "no stalls"
    if plan.get("base"):
        p = dict(plan)
        p["base"] = {}
        yield p
    if plan.get("tail_wait"):
        p = dict(plan)
        p["tail_wait"] = 0.0
        yield p


def warm():
    from sim.machine import preload
    preload("c17")


def on_crash(ctx, crash):
    exc = crash.exc
    return ("crash", type(exc).__name__, "exception out of a legal show request/step: %r (last request: %r)"
            % (exc, ctx.info.get("last_op")))


# ------------------------------------------------------------------------------------------------
# execute
# ------------------------------------------------------------------------------------------------
class Inst:

    def __init__(self, tag, name, steps, op, via, slot):
        self.tag = tag
        self.name = name
        self.steps = steps
        self.n = len(steps)
        self.via = via
        self.slot = slot
        self.speed = Fraction(op["speed"])
        self.loops = op["loops"]
        self.prio = op["priority"]
        self.tokens = dict(op["tokens"])
        self.manual = op["manual_advance"]
        self.status = "new"          # new | sync | running | paused | ended
        self.idx = 0
        self.cands = []              # candidate nominal times of the next timed step (None: no timer may be pending)
        self.k = 0                   # steps since the last anchor
        self.open = None             # the tick being observed: {"t", "need", "opt"}
        self.counts = Counter()
        self.lights = {}             # light name -> rgb tuple set under this show's context
        self.coils = set()           # coils enabled under this show's context
        self.ctx_key = None
        self.last_op = "play"
        self.ticks = 0
        self.end_t = None
        self.end_how = None
        self.pending_old = None      # instance this one replaces when it starts (show_player, sync_ms)
        self.replaced_by = None
        self.rs = None               # the RunningShow (stimulus placement only)
        self.late = False
        self.started = False
        self.start_running = op["start_running"]
        self.req_after_end = None
        self.resolve_pause = False
        self.end_ambiguous = False
        self.pause_unknown = False
        self.must_start_t = None
        self.plain = bool(op.get("plain"))   # no events_when_played / events_when_stopped configured
        self.j = None                # index of the play request (its show_player event can be posted again)
        self.start_idx = None
        self.start_step = 1
        self.shadow = []             # contexts of RunningShows this instance replaced by an identical request
        self.dup_start = 0           # replaced sync-waiters that may still run the start step at the start instant
        self.shadow_rs = []          # the replaced RunningShow objects (did one of them really run its start step?)
        self.dup_used = 0
        self.start_t = None
        self.start_label = None
        self.tick_fades = []         # (light, fade seconds) of the step executed last
        self.sync_ms = 0

    def live(self):
        return self.status in ("sync", "running", "paused")


def execute(ctx, plan):     # noqa: C901  (one scenario, kept in one place on purpose)
    from mpf.core.rgb_color import RGBColor
    shows_cfg = plan["shows"]
    models = {name: model_show(cfg) for name, cfg in shows_cfg.items()}
    slot_via = plan["slot_via"]
    ops = plan["ops"]

    # -- show_player entries for the slots driven through the config player ------------------------
    sp = {}
    for j, op in enumerate(ops):
        if op["op"] == "play" and slot_via[op["slot"]] == "player":
            tag = "i%d" % j
            tok = dict(op["tokens"])
            tok["tag"] = tag
            e = {"action": "play", "key": "k%d" % op["slot"], "speed": op["speed"], "loops": op["loops"],
                 "start_step": op["start_step"], "priority": op["priority"], "manual_advance": op["manual_advance"],
                 "start_running": op["start_running"], "show_tokens": tok}
            if _sync_arg(op) is not None:
                e["sync_ms"] = _sync_arg(op)
            for kd in KINDS:
                if op.get("plain") and kd in ("played", "stopped"):
                    continue
                e["events_when_" + kd] = "c17_%s_%s" % (tag, kd)
            sp["c17op_play_%d" % j] = {op["show"]: e}
    for k in range(NSLOTS):
        if slot_via[k] != "player":
            continue
        for kind in ("stop", "pause", "resume", "advance", "step_back"):
            sp["c17op_%s_%d" % (kind, k)] = {"k%d" % k: {"action": kind, "key": "k%d" % k}}
        for si, s in enumerate(SPEEDS):
            sp["c17op_update_%d_%d" % (k, si)] = {"k%d" % k: {"action": "update", "key": "k%d" % k, "speed": s}}

    def inject(s):
        # MPF validates show configs in place: hand it a private copy
        s.machine.mpf_config._show_config.update(copy.deepcopy(shows_cfg))    # pylint: disable=protected-access

    patches = {"show_player": sp} if sp else {}
    if plan.get("default_sync"):
        patches["mpf"] = {"default_show_sync_ms": plan["default_sync"]}
        ctx.probe("default_sync_nonzero")
        for op in ops:
            if op["op"] == "play":
                ctx.probe("explicit_sync0_vs_default" if _sync_arg(op) == 0 else
                          "sync_from_default" if _sync_arg(op) is None else "explicit_sync_vs_default")
    sim = ctx.new_sim("c17", platform="simhw", patches=patches or None, pre_boot=inject)
    sim.boot()
    m = sim.machine
    loop = sim.loop
    hw = sim.hw
    light_names = ["l1", "l2", "l3", "l4"]
    default_fade = {"l4": 0.040}

    # -- loader: durations ---------------------------------------------------------------------------
    for name in sorted(models):
        got = m.shows[name].show_steps
        exp = models[name]
        if len(got) != len(exp):
            ctx.violation("duration_parse", "step_count", "show %s %r loaded as %d steps, statement's semantics give %d"
                          % (name, shows_cfg[name], len(got), len(exp)))
        for i, (g, e) in enumerate(zip(got, exp)):
            if abs(Fraction(g["duration"]) - e["dur"]) > Fraction(1, 10 ** 9):
                k = ctx.violation("duration_parse", "dur=%s" % float(e["dur"]),
                                  "show %s step %d: configured timing gives a duration of %s s, loaded as %r s (%r)"
                                  % (name, i, float(e["dur"]), g["duration"], shows_cfg[name]))
                if k:
                    e["dur"] = Fraction(g["duration"])      # known finding: follow the SUT to keep judging the rest
        if any(e["label"] is None for e in exp):
            ctx.probe("silent_step")
        if exp[0]["yaml"] is None:
            ctx.probe("first_step_offset")
        if exp[-1]["dur"] < 0:
            ctx.probe("hold_step")

    # -- base colours, snapshot -----------------------------------------------------------------------
    base = {}
    for ln, (col, prio) in sorted(plan["base"].items()):
        m.lights[ln].color(col, key="base", priority=prio, fade_ms=0)
        base[ln] = (prio, tuple(RGBColor(col).rgb))
    sim.run_quiet(0.1)

    def hw_snapshot():
        return {num: round(l.current_brightness, 9) for num, l in sorted(hw.sim_lights.items())}
    snap0 = hw_snapshot()

    insts = {}            # tag -> Inst
    order = []            # instances in creation order
    slots = {}            # slot -> latest Inst
    nplays = [0]
    state = {"last": None}

    from sim.tap import EventLog
    elog = EventLog(sim, want=lambda n: n.startswith("c17_"), ctx=ctx)

    # -- helpers ---------------------------------------------------------------------------------------
    def landing(t):
        sl = loop.stall_log
        return bool(sl) and abs(sl[-1][1] - t) <= 1e-9

    def sig(inst, what):
        if inst.status == "ended" and inst.req_after_end:
            return "%s:ended_by=%s,then=%s" % (what, inst.end_how, inst.req_after_end)
        return "%s:last=%s" % (what, inst.last_op)

    def end(inst, how, t):
        inst.status = "ended"
        inst.end_t = t
        inst.end_how = how
        inst.cands = []
        loop.call_soon(after_end, inst)

    def resolve(inst, key):
        if key == "grp":
            return ["l1", "l2"]
        if key == "(light)":
            return [inst.tokens["light"]]
        return [key]

    def apply_effects(inst, st):
        inst.tick_fades = []
        for key, col, _fade in st["lights"]:
            if col == "(color)":
                col = inst.tokens["color"]
            for ln in resolve(inst, key):
                if col != "stop" and _fade:
                    f = str(_fade).lower()
                    inst.tick_fades.append((ln, Fraction(f[:-2] if f.endswith("ms") else f) / 1000))
                if key == "(light)":
                    ctx.probe("token_light")
                if col == "stop":
                    inst.lights.pop(ln, None)
                else:
                    inst.lights[ln] = tuple(RGBColor(col).rgb)
                    if any(o is not inst and o.live() and ln in o.lights for o in order):
                        ctx.probe("concurrent_same_light")
        for coil, act in st["coils"]:
            if act == "enable":
                inst.coils.add(coil)
            else:
                inst.coils.discard(coil)

    def run_tick(inst, extra, t):
        """Model: execute the next step (statement: loops, completion).  Returns (observables, duration)."""
        content = Counter(extra)
        if inst.idx < 0:
            inst.idx %= inst.n
        if inst.idx >= inst.n:
            if inst.loops != 0:
                if inst.loops > 0:
                    inst.loops -= 1
                inst.idx = 0
                content["looped"] += 1
                ctx.probe("loop_wrap")
            else:
                content["completed"] += 1
                if not inst.plain:
                    content["stopped"] += 1
                ctx.probe("completed")
                end(inst, "complete", t)
                return content, None
        st = inst.steps[inst.idx]
        if st["label"]:
            content[st["label"]] += 1
        apply_effects(inst, st)
        inst.idx += 1
        inst.ticks += 1
        if inst.ticks == 1000:
            ctx.probe("ticks_1000")
        return content, st["dur"]

    def next_cands(inst, bases, dur, pause_after=False):
        if dur is None:
            return []
        if inst.manual or dur <= 0 or pause_after:
            return [None]
        out = []
        for b in bases:
            c = b + dur / inst.speed
            if c not in out:
                out.append(c)
        return out

    def close_open(inst):
        o = inst.open
        if o is None:
            return
        if state.get("discard"):
            inst.open = None
            return
        missing = sorted(x for x, c in o["need"].items() if c > 0)
        inst.open = None
        if missing:
            ctx.violation("event_missing", sig(inst, ",".join(_generic(x) for x in missing)),
                          "instance %s (%s): expected %r at t=%.9f (request/transition %s) but it was not posted"
                          % (inst.tag, inst.name, missing, o["t"], inst.last_op))

    def forced(inst, t, extra, pause_after=False):
        """A request executes the next step right now and re-anchors the grid at the request instant."""
        close_open(inst)
        content, dur = run_tick(inst, extra, t)
        inst.open = {"t": t, "need": content, "opt": Counter()}
        inst.k = 0
        if inst.status != "ended":
            inst.cands = next_cands(inst, [Fraction(t)], dur, pause_after)
            if inst.tick_fades:
                loop.call_soon(check_fades, inst, inst.ticks, [Fraction(t)], t, list(inst.tick_fades))

    def optional(inst, t, names):
        o = inst.open
        if o is None or o["t"] != t:
            close_open(inst)
            o = inst.open = {"t": t, "need": Counter(), "opt": Counter()}
        for nme in names:
            o["opt"][nme] += 1

    def _generic(x):
        return "step" if x[:1] == "e" and x[1:].isdigit() else x

    def observe(t, name, kwargs):
        if state.get("discard"):
            return          # the case left the generated space: nothing is judged any more
        parts = name.split("_", 2)
        inst = insts.get(parts[1])
        if inst is None:
            return
        x = parts[2]
        inst.counts[x] += 1
        if x in ("played", "completed", "stopped") and inst.counts[x] > 1:
            ctx.violation("event_twice", sig(inst, x), "instance %s (%s): %s posted %d times (t=%.9f)"
                          % (inst.tag, inst.name, x, inst.counts[x], t))
            return
        o = inst.open
        if o is not None and o["t"] == t:
            if o["need"].get(x, 0) > 0:
                o["need"][x] -= 1
                return
            if o["opt"].get(x, 0) > 0:
                o["opt"][x] -= 1
                return
        # an identical play request repeated during the sync wait replaced a RunningShow that was itself armed for
        # the same sync point: it may still run the start step there before it is stopped (same instant, same step)
        # (only if such a replaced show really executed a step - otherwise, e.g. for a one-step show catching up
        # after a stall, a second identical event at the start instant is the show's own next loop)
        if inst.dup_start > 0 and inst.start_t == t and x == inst.start_label and inst.ticks == 1 and \
                sum(1 for o in inst.shadow_rs if o.current_step_index is not None) > inst.dup_used:
            inst.dup_start -= 1
            inst.dup_used += 1
            ctx.probe("replay_double_start")
            return
        # replacement through the show_player with sync_ms: the old show stops when the new one starts
        if x == "stopped" and inst.replaced_by is not None and inst.live() and inst.replaced_by.status == "sync" \
                and completion_due(inst, t) and start_plausible(inst.replaced_by, t):
            # both the show's own completion and its synchronised replacement are due at this instant (exact tie, or
            # both overdue after a stall): the loop may run either first; if the replacement wins there is no
            # `completed`.  Accept both outcomes (the statement does not order them).
            new = inst.replaced_by
            close_open(inst)
            inst.last_op = "replaced_or_completed"
            inst.end_ambiguous = True
            end(inst, "stop", t)
            inst.open = {"t": t, "need": Counter(), "opt": Counter({"completed": 1})}
            inst.replaced_by = None
            new.pending_old = None
            ctx.probe("replace_vs_completion_tie")
            return
        if x == "stopped" and inst.replaced_by is not None and inst.live() and inst.replaced_by.status == "sync" \
                and not completion_due(inst, t):
            new = inst.replaced_by
            ok = match_time(new, new.cands, t, "replace")
            close_open(inst)
            inst.last_op = "replaced"
            end(inst, "stop", t)
            inst.replaced_by = None
            new.pending_old = None
            new.cands = ok
            new.must_start_t = t           # the new show has to start at this very instant
            return
        close_open(inst)
        if inst.status == "ended":
            ctx.violation("effect_after_end", sig(inst, _generic(x)),
                          "instance %s (%s) ended (%s) at %.9f but %s was posted at %.9f"
                          % (inst.tag, inst.name, inst.end_how, inst.end_t, name, t))
            return
        if inst.status == "paused":
            ctx.violation("step_while_paused", sig(inst, _generic(x)), "instance %s (%s) is paused but %s was posted at %.9f"
                          % (inst.tag, inst.name, name, t))
            return
        if inst.status == "new":
            raise AssertionError("event %s for an instance that was never played" % name)
        if not inst.cands or None in inst.cands:
            k = ctx.violation("unexpected_step", sig(inst, _generic(x)),
                              "instance %s (%s): %s posted at %.9f although no timed step may be pending "
                              "(manual_advance=%s, status=%s)" % (inst.tag, inst.name, name, t, inst.manual, inst.status))
            if k:
                resync(inst)
            return
        # a timed tick: skip silent steps (nothing observable), then the tick must contain x
        cands = list(inst.cands)
        extra = []
        start_tick = False
        if inst.status == "sync":
            start_tick = True
            extra = [] if inst.plain else ["played"]
            inst.status = "running"
            inst.started = True
            if inst.must_start_t is not None and inst.must_start_t != t and \
                    (extra or inst.steps[inst.idx % inst.n]["label"]):
                # (without a `played` event and with a silent first step the start itself is not observable)
                ctx.violation("step_time", sig(inst, "replace_start"), "instance %s replaced its predecessor at %.9f "
                              "but started at %.9f" % (inst.tag, inst.must_start_t, t))
            if inst.pending_old is not None and inst.pending_old.live() and inst.pending_old.plain:
                # no `stopped` event configured: the replaced show goes silently at this instant
                old = inst.pending_old
                close_open(old)
                old.last_op = "replaced"
                old.replaced_by = None
                inst.pending_old = None
                end(old, "stop", t)
            if inst.pending_old is not None and inst.pending_old.live():
                # the old show had to stop first (its `stopped` precedes our first event)
                ctx.violation("event_missing", sig(inst.pending_old, "stopped"),
                              "instance %s was to be replaced by %s at its synchronised start %.9f but did not stop"
                              % (inst.pending_old.tag, inst.tag, t))
        first_idx = inst.idx
        guard = 0
        while True:
            guard += 1
            if guard > 4 * inst.n + 8:
                raise AssertionError("model: endless silent steps")
            content, dur = run_tick(inst, extra, t)
            extra = []
            if content:
                break
            cands = next_cands(inst, cands, dur)
            if None in cands:
                ctx.violation("unexpected_step", sig(inst, _generic(x)), "instance %s: %s at %.9f but the show is "
                              "holding at a silent step" % (inst.tag, name, t))
                return
        if content.get(x, 0) <= 0:
            k = ctx.violation("step_order", sig(inst, _generic(x)),
                              "instance %s (%s): the control history calls for %r next, but %s was posted at %.9f"
                              % (inst.tag, inst.name, sorted(content), name, t))
            if k:
                resync(inst)
            return
        ok = match_time(inst, cands, t, name)
        content[x] -= 1
        inst.open = {"t": t, "need": content, "opt": Counter()}
        inst.k += 1
        if start_tick:
            inst.start_t = t
            inst.start_label = x if inst.idx == first_idx + 1 else None
        if inst.tick_fades and inst.status != "ended" and (inst.ticks <= 40 or inst.ticks % 16 == 0):
            loop.call_soon(check_fades, inst, inst.ticks, list(ok), t, list(inst.tick_fades))
        if inst.status != "ended":
            pause_after = start_tick and not inst.start_running
            inst.cands = next_cands(inst, ok, dur, pause_after)
            if pause_after:
                inst.status = "paused"
        if inst.ticks > MAX_TICKS and not state.get("guard_stop"):
            state["guard_stop"] = True
            if state.get("next") is not None:
                state["next"].cancel()
            done[0] = True

    def start_plausible(new, t):
        """Could the sync-waiting show `new` start at t (on time, or late at a stall landing instant)?"""
        ft = Fraction(t)
        for c in new.cands:
            if c is None:
                continue
            d = ft - c
            if d >= -2e-9 and (d <= 2e-9 or landing(t)):
                return True
        return False

    def completion_due(inst, t):
        """Is the next timed tick of inst its completion, nominally due by t?"""
        if inst.status != "running" or not inst.cands or None in inst.cands or inst.loops != 0:
            return False
        T = min(inst.cands)
        idx = inst.idx
        while idx < inst.n:
            st = inst.steps[idx]
            if st["label"] is not None or st["dur"] <= 0:
                return False
            T += st["dur"] / inst.speed
            idx += 1
        return T <= Fraction(t) + Fraction(1, 10 ** 9) * (inst.k + 2)

    def sync_silent(inst, now):
        """Silent (empty) steps are unobservable at the seam: whether one has already run when a request is
        processed is read off the SUT's position (only for them), its nominal time must not lie in the future."""
        rs = inst.rs
        if rs is None or inst.status != "running" or not inst.cands or None in inst.cands:
            return
        for _ in range(inst.n + 2):
            idx = inst.idx
            if idx >= inst.n or idx < 0:
                return
            st = inst.steps[idx]
            if st["label"] is not None or rs.next_step_index <= idx or None in inst.cands:
                return
            if min(inst.cands) > Fraction(now) + Fraction(1, 10 ** 9) * (inst.k + 2):
                ctx.violation("step_time", sig(inst, "early_silent"), "instance %s: silent step %d nominally at %s "
                              "already executed at %.9f" % (inst.tag, idx, float(min(inst.cands)), now))
            close_open(inst)
            _content, dur = run_tick(inst, [], now)
            inst.k += 1
            inst.cands = next_cands(inst, inst.cands, dur)

    def match_time(inst, cands, t, what):
        tol = 1e-9 * (inst.k + 2)
        ft = Fraction(t)
        ok = []
        early = None
        for c in cands:
            d = ft - c
            if d < -tol:
                early = c
                continue
            if d <= tol:
                ok.append(c)
                if inst.late:
                    ctx.probe("back_on_grid_after_stall")
                    inst.late = False
            elif landing(t):
                ok.append(c)
                if inst.late:
                    ctx.probe("catch_up_burst")
                inst.late = True
                ctx.probe("late_step_after_stall")
        if not ok:
            k = ctx.violation("step_time", sig(inst, "early" if early is not None else "late"),
                              "instance %s (%s, speed %s): %s at %.9f, nominal %s (k=%d since the last anchor; "
                              "last stall %r)" % (inst.tag, inst.name, float(inst.speed), what, t,
                                                  [float(c) for c in cands], inst.k, loop.stall_log[-1:]))
            if k:
                return [ft]
        return ok

    def resync(inst):
        """After a known finding: take the SUT's word for where the show is (keeps judging everything else)."""
        rs = inst.rs
        if rs is None:
            return
        inst.idx = rs.next_step_index
        inst.cands = [Fraction(rs.next_step_time)]
        inst.open = None

    elog.listeners.append(observe)

    def first_observable(inst):
        """Nominal time of the next observable timed tick (None: none pending)."""
        if inst.status not in ("sync", "running") or not inst.cands or None in inst.cands:
            return None
        T = max(inst.cands)
        if inst.status == "sync" and not inst.plain:
            return T          # `played` is observable
        if inst.status == "sync" and not inst.start_running:
            # no `played` event and the show pauses after its first step: only that step can tell
            st0 = inst.steps[inst.idx % inst.n]
            return T if st0["label"] else None
        idx = inst.idx
        for _ in range(2 * inst.n + 4):
            if idx >= inst.n:
                return T          # wrap: looped / completed are observable
            st = inst.steps[idx]
            if st["label"]:
                return T
            if st["dur"] <= 0 or inst.manual:
                return None
            T += st["dur"] / inst.speed
            idx += 1
        return None

    def check_missed(now):
        if state.get("discard"):
            return
        bound = now
        if landing(now):
            bound = loop.stall_log[-1][0]
        for inst in order:
            T = first_observable(inst)
            if T is not None and T < Fraction(bound) - Fraction(1, 10 ** 9) * (inst.k + 2):
                k = ctx.violation("step_missing", sig(inst, "timed"),
                                  "instance %s (%s): next step nominally at %.9f has not run at %.9f (loop free)"
                                  % (inst.tag, inst.name, float(T), now))
                if k:
                    resync(inst)

    # -- light stacks / coils ----------------------------------------------------------------------------
    def expected_stack(ln):
        exp = {}
        if ln in base:
            exp["base"] = base[ln]
        for inst in order:
            if inst.live() and ln in inst.lights:
                exp[inst.ctx_key + ".light_player"] = (inst.prio, inst.lights[ln])
        return exp

    def check_stacks(now, why):
        if state.get("discard"):
            return 0
        nstack = 0
        for ln in light_names:
            light = m.lights[ln]
            exp = expected_stack(ln)
            got = {}
            for e in light.stack:
                if e.dest_color is None:
                    # a fade-out left by removing a key from a light with a default fade: must be short-lived
                    owner = [i for i in order if i.ctx_key and e.key == i.ctx_key + ".light_player"]
                    lim = default_fade.get(ln, 0.0)
                    if e.dest_time and now > e.dest_time + 1e-6 and not landing(now):
                        ctx.violation("residue_after_end", "fadeout:%s" % ln, "light %s keeps an expired fade-out entry "
                                      "%r at %.9f" % (ln, e, now))
                    if owner and lim == 0.0 and not owner[0].live() and now > owner[0].end_t + 0.25:
                        ctx.violation("residue_after_end", "fadeout:%s" % ln, "light %s keeps fade-out %r" % (ln, e))
                    continue
                k2 = e.key
                for i in order:
                    if i.shadow and i.live() and any(k2 == sh + ".light_player" for sh in i.shadow):
                        # a RunningShow replaced by an identical request: transiently stands in for its successor
                        k2 = i.ctx_key + ".light_player"
                        if k2 in got:
                            k2 = None
                        break
                if k2 is not None:
                    got[k2] = (e.priority, tuple(e.dest_color.rgb))
            if got:
                nstack += 1
            ctx.log("stack", ln, sorted(got.items()), t=now)
            for key in sorted(got):
                if key not in exp:
                    owner = [i for i in order if i.ctx_key and key == i.ctx_key + ".light_player"]
                    if owner and not owner[0].live():
                        ctx.violation("residue_after_end", sig(owner[0], "light"),
                                      "light %s still carries %r of instance %s which ended (%s) at %.9f; now %.9f (%s)"
                                      % (ln, light.stack, owner[0].tag, owner[0].end_how, owner[0].end_t, now, why))
                    else:
                        ctx.violation("stack_mismatch", "extra:%s" % ln, "light %s: unexpected stack entry %s in %r, "
                                      "expected %r (%s)" % (ln, key, light.stack, exp, why))
            for key in sorted(exp):
                if key not in got:
                    ctx.violation("stack_mismatch", "lost:%s" % ln, "light %s: entry %s %r is gone, stack %r (%s at %.9f)"
                                  % (ln, key, exp[key], light.stack, why, now))
                elif got[key] != exp[key]:
                    ctx.violation("stack_mismatch", "value:%s" % ln, "light %s: entry %s is %r, expected %r (%s at %.9f)"
                                  % (ln, key, got[key], exp[key], why, now))
        return nstack

    def check_fades(inst, tickno, anchors, t_obs, fades):
        """A step runs at its instant: a fade it starts runs from that instant (nominal step time; for a step that
        ran late after a stall anything between nominal and actual is accepted) and lasts the configured time."""
        if inst.ticks != tickno or not inst.live() or state.get("discard"):
            return          # a later step has already replaced the entries
        key = inst.ctx_key + ".light_player"
        tol = 1e-9 * (inst.k + 2)
        for ln, fade in fades:
            ent = [e for e in m.lights[ln].stack if e.key == key and e.dest_color is not None]
            if not ent or not ent[0].dest_time:
                continue
            e = ent[0]
            ctx.probe("fade_anchor_checked")
            st, dt = Fraction(e.start_time), Fraction(e.dest_time)
            ok = any(abs(st - a) <= tol for a in anchors) or (min(anchors) - tol <= st <= Fraction(t_obs) + tol)
            if not ok or abs(dt - st - fade) > tol:
                ctx.violation("fade_anchor", sig(inst, "manual" if inst.manual else "timed"),
                              "instance %s (%s): step %d executed at %.9f (nominal %s) started a %s s fade on %s, but "
                              "the light fades from %.9f to %.9f" % (inst.tag, inst.name, tickno, t_obs,
                                                                     [float(a) for a in anchors], float(fade), ln,
                                                                     e.start_time, e.dest_time))

    def check_coils(inst, now):
        if state.get("discard"):
            return
        for coil in sorted(inst.coils):
            if any(o is not inst and o.live() and coil in o.coils for o in order):
                continue       # relaxation: a coil has no stack; shared between live shows -> unspecified
            num = str(m.coils[coil].hw_driver.number)
            ctx.probe("coil_released")
            if hw.sim_drivers[num].sim_enabled:
                ctx.violation("coil_left_on", sig(inst, coil), "coil %s enabled by instance %s is still on after the "
                              "show ended (%s) at %.9f" % (coil, inst.tag, inst.end_how, inst.end_t))

    def after_end(inst):
        now = loop.time()
        if any(m.lights[ln].fade_in_progress for ln in light_names):
            ctx.probe("stop_mid_fade")
        if any(ln in default_fade for ln in inst.lights):
            ctx.probe("default_fade_light")
        check_stacks(now, "after end of %s" % inst.tag)
        check_coils(inst, now)

    # -- requests -------------------------------------------------------------------------------------------
    def m_stop(inst, t, how="stop"):
        if not inst.live():
            return
        close_open(inst)
        if inst.status == "sync":
            ctx.probe("stop_in_sync_wait")
            inst.open = {"t": t, "need": Counter(), "opt": Counter({"stopped": 1})}
            inst.counts["stopped"] -= 0
        elif inst.plain:
            inst.open = {"t": t, "need": Counter(), "opt": Counter()}
        else:
            inst.open = {"t": t, "need": Counter({"stopped": 1}), "opt": Counter()}
        old = inst.pending_old
        end(inst, how, t)
        if old is not None:
            inst.pending_old = None
            old.replaced_by = None
            old.last_op = "replaced"
            m_stop(old, t)

    def sync_cands(sync_ms, t):
        period = Fraction(sync_ms, 1000)
        ft = Fraction(t)
        q = ft / period
        T0 = (q.numerator // q.denominator) * period
        if T0 < ft:
            T0 += period
        cands = [T0]
        if T0 - ft <= Fraction(1, 10 ** 9):
            cands.append(T0 + period)
            ctx.probe("sync_boundary")
        # float noise just above a multiple
        elif ft - (T0 - period) <= Fraction(1, 10 ** 9):
            cands.append(T0 - period)
        return cands

    def m_replay(inst, t):
        """The very same show_player play request again (same key, equal config, no played/stopped events).
        Statement: the show honours its sync point - whatever the player does with the repeated request (keep the
        waiting show, or replace it by an identical one waiting for the same point), the first step runs at a
        multiple of sync_ms, not before.  Only generated while the show still waits for its sync point."""
        passed = [c for c in inst.cands if c < Fraction(t) - Fraction(1, 10 ** 9)]
        if passed and (landing(t) or len(passed) == len(inst.cands)):
            # processed late (stall) after the sync point has nominally passed while the start is still queued:
            # the waiting show starts now AND is replaced by one waiting for the next point - outside the space
            state["discard"] = "repeated play request processed after the sync point"
            return
        # (a candidate that passed with the loop free is refuted: the show did not start there)
        inst.cands = [c for c in inst.cands if c not in passed]
        ctx.probe("replay_in_sync_wait")
        inst.last_op = "replay"
        for c in sync_cands(inst.sync_ms, t):
            if c not in inst.cands:
                inst.cands.append(c)

    def m_play(inst, op, t):
        ss = op["start_step"]
        if ss > 0:
            inst.idx = ss - 1
        else:
            inst.idx = ss % inst.n
            ctx.probe("negative_start_step")
        inst.start_idx = inst.idx
        inst.start_step = ss
        nplays[0] += 1
        inst.ctx_key = "show_%d" % nplays[0]
        if inst.manual:
            ctx.probe("manual_advance")
        if op["sync_ms"]:
            # statement: "honouring ... sync": the start is delayed to the next multiple of sync_ms.
            # relaxation: a request exactly on a multiple may start at once or one period later.
            ctx.probe("sync_wait")
            inst.sync_ms = op["sync_ms"]
            inst.cands = sync_cands(op["sync_ms"], t)
            inst.status = "sync"
        else:
            inst.status = "running"
            inst.started = True
            forced(inst, t, [] if inst.plain else ["played"], pause_after=not op["start_running"])
            if not op["start_running"]:
                inst.status = "paused"
        if not op["start_running"]:
            ctx.probe("start_paused")

    def m_ctl(inst, kind, op, t):
        """Model one request processed at t."""
        st = inst.status
        inst_last = kind
        if st == "ended":
            ctx.probe("request_after_end")
            inst.req_after_end = kind
            optional(inst, t, [{"pause": "paused", "resume": "resumed", "advance": "advanced",
                                "step_back": "stepped_back"}.get(kind, "x")])
            return
        inst.last_op = inst_last
        if kind == "stop":
            m_stop(inst, t)
        elif kind == "pause":
            if st == "running":
                close_open(inst)
                inst.open = {"t": t, "need": Counter({"paused": 1}), "opt": Counter()}
                inst.status = "paused"
                inst.pause_unknown = False
                inst.cands = [None]
            else:
                optional(inst, t, ["paused"])
        elif kind == "resume":
            if st == "paused":
                ctx.probe("pause_then_resume")
                inst.status = "running"
                forced(inst, t, ["resumed"])
            else:
                # not paused: nothing to resume; the schedule must not move
                ctx.probe("resume_not_paused")
                inst.last_op = "resume_not_paused"
                optional(inst, t, ["resumed"])
        elif kind in ("advance", "step_back"):
            if st == "paused" or inst.pause_unknown:
                # statement silent: the show may stay paused or go back to timed running; decided by whether
                # the SUT armed a step timer (observable at the loop), see resolve_pause()
                ctx.probe("advance_while_paused")
                inst.resolve_pause = True
            if kind == "step_back":
                inst.idx -= 2
                if inst.idx < 0:
                    ctx.probe("step_back_wrap")
            elif inst.idx >= inst.n:
                ctx.probe("advance_wrap")
            inst.status = "running"
            forced(inst, t, ["advanced" if kind == "advance" else "stepped_back"])
        elif kind == "update":
            ctx.probe("update_speed")
            inst.speed = Fraction(SPEEDS[op["speed_idx"]])
            if inst.via == "api" and op.get("manual") is not None:
                # from now on steps are (not) scheduled by time; a step that is already armed still runs
                ctx.probe("update_manual_advance")
                inst.manual = op["manual"]
            optional(inst, t, ["updated"])

    def has_timer(rs):
        for h in loop._scheduled:      # pylint: disable=protected-access
            if not h._cancelled and getattr(h._callback, "__self__", None) is rs:
                return True
        return False

    def resolve_pause(inst):
        if not inst.resolve_pause:
            return
        inst.resolve_pause = False
        if inst.status != "running" or inst.rs is None:
            return
        if inst.cands and None not in inst.cands:
            if not has_timer(inst.rs):
                inst.status = "paused"
                inst.cands = [None]
            inst.pause_unknown = False
        else:
            inst.pause_unknown = True     # no timer either way (manual_advance / hold step)

    def sut_rs(inst):
        if inst.rs is not None:
            return inst.rs
        try:
            rs = m.show_player.instances["_global"]["show_player"].get("k%d" % inst.slot)
        except (KeyError, AttributeError):
            rs = None
        return rs

    def pre(kind, t):
        ctx.info["last_op"] = kind
        state["last"] = kind
        for i in order:
            sync_silent(i, t)
        check_missed(t)
        if any(m.lights[ln].fade_in_progress for ln in light_names):
            ctx.probe("op_mid_fade")

    def post(t):
        ctx.state(tuple(sorted(i.status for i in order if i.live())), state["last"],
                  sum(1 for ln in light_names if m.lights[ln].stack))

    def new_inst(j, op):
        tag = "i%d" % j
        inst = Inst(tag, op["show"], models[op["show"]], op, slot_via[op["slot"]], op["slot"])
        insts[tag] = inst
        order.append(inst)
        return inst

    # API-driven slot ------------------------------------------------------------------------------------------
    def api_request(j, op):
        t = loop.time()
        kind = op["op"]
        slot = op["slot"]
        cur = slots.get(slot)
        if kind == "play":
            if cur is not None and cur.live():
                pre("stop", t)
                ctx.log("op", "stop(implicit)", cur.tag, t=t)
                cur.last_op = "stop"
                m_stop(cur, t)
                cur.rs.stop()
            pre("play", t)
            inst = new_inst(j, op)
            ctx.log("op", "play", inst.tag, op["show"], op["speed"], op["loops"], op["start_step"], op["sync_ms"],
                    op["priority"], t=t)
            slots[slot] = inst
            m_play(inst, op, t)
            tok = dict(op["tokens"])
            tok["tag"] = inst.tag
            ev = {"events_when_" + kd: ["c17_%s_%s" % (inst.tag, kd)] for kd in KINDS}
            rs = m.shows[op["show"]].play(priority=op["priority"], speed=float(op["speed"]),
                                          start_step=op["start_step"], loops=op["loops"],
                                          sync_ms=_sync_arg(op), manual_advance=op["manual_advance"],
                                          show_tokens=tok, start_running=op["start_running"], **ev)
            inst.rs = rs
            if rs.context != inst.ctx_key:
                raise AssertionError("context bookkeeping: %s vs %s" % (rs.context, inst.ctx_key))
            if inst.status != "sync":
                close_open(inst)
            post(t)
            return
        if cur is None:
            ctx.log("op", kind, "noinst", t=t)
            return
        if cur.status == "ended" or (cur.status == "sync" and kind != "stop") or \
                (kind == "resume" and cur.pause_unknown):
            ctx.log("op", kind, "skipped", cur.status, t=t)
            return
        pre(kind, t)
        ctx.log("op", kind, cur.tag, cur.status, t=t)
        m_ctl(cur, kind, op, t)
        rs = cur.rs
        if kind == "stop":
            rs.stop()
        elif kind == "pause":
            rs.pause()
        elif kind == "resume":
            rs.resume()
        elif kind == "advance":
            rs.advance()
        elif kind == "step_back":
            rs.step_back()
        elif kind == "update":
            rs.update(speed=float(SPEEDS[op["speed_idx"]]), manual_advance=op.get("manual"))
        # everything a request does happens synchronously
        close_open_keep_opt(cur)
        resolve_pause(cur)
        post(t)

    def close_open_keep_opt(inst):
        o = inst.open
        if o is not None and any(c > 0 for c in o["need"].values()):
            close_open(inst)

    # show_player-driven slot ---------------------------------------------------------------------------------
    pending_player = []     # requests posted, not yet dispatched: (event name, j, op)

    def player_request(j, op):
        t = loop.time()
        kind = op["op"]
        slot = op["slot"]
        cur = slots.get(slot)
        if kind == "replay":
            if cur is None or not cur.plain or cur.status != "sync" or cur.j is None:
                ctx.log("op", kind, "skipped", cur.status if cur else None, t=t)
                return
            evn = "c17op_play_%d" % cur.j
            pending_player.append((evn, j, op))
            sim.post(evn)
            return
        if kind == "play":
            evn = "c17op_play_%d" % j
        elif kind == "update":
            evn = "c17op_update_%d_%d" % (slot, op["speed_idx"])
        else:
            evn = "c17op_%s_%d" % (kind, slot)
        if kind != "play":
            if cur is None:
                ctx.log("op", kind, "noinst", t=t)
                return
            if (cur.status == "sync" and kind != "stop") or (kind == "resume" and cur.pause_unknown):
                ctx.log("op", kind, "skipped", cur.status, t=t)
                return
            if kind == "update" and cur.manual:
                ctx.log("op", kind, "skipped", "manual", t=t)
                return
        if kind == "play" and op["sync_ms"] and cur is not None and cur.status == "sync":
            # a synchronised replacement of a show that is itself still waiting for its start: outside the space
            ctx.log("op", kind, "skipped", "replace-in-sync-wait", t=t)
            return
        pending_player.append((evn, j, op))
        sim.post(evn)

    def player_pre(evn):
        def handler(**kwargs):
            t = loop.time()
            if not pending_player or pending_player[0][0] != evn:
                raise AssertionError("player request bookkeeping: %r vs %r" % (evn, pending_player[:1]))
            _, j, op = pending_player[0]
            kind = op["op"]
            slot = op["slot"]
            cur = slots.get(slot)
            pre(kind, t)
            if kind == "replay":
                ctx.log("op", "replay", cur.tag, cur.status, "player", t=t)
                if cur.status == "sync":
                    m_replay(cur, t)
                elif cur.live() and cur.start_step > 0 and cur.idx == cur.start_idx + 1 and cur.ticks == 1:
                    pass        # it started meanwhile and still sits on its start step: "already there", nothing to do
                else:
                    state["discard"] = "repeated play request on a show that is past its start step"
                return
            if kind == "play":
                inst = new_inst(j, op)
                inst.j = j
                ctx.log("op", "play", inst.tag, op["show"], op["speed"], op["loops"], op["start_step"], op["sync_ms"],
                        op["priority"], "player", t=t)
                if cur is not None and cur.live():
                    ctx.probe("replace_by_key")
                    cur.last_op = "replaced"
                    if op["sync_ms"]:
                        ctx.probe("replace_in_sync")
                        # the old show keeps running until the new one starts in sync
                        if cur.status == "sync":
                            # never started itself: it goes (and takes along what it was to replace) when we start
                            pass
                        inst.pending_old = cur
                        cur.replaced_by = inst
                    else:
                        m_stop(cur, t)
                slots[slot] = inst
                m_play(inst, op, t)
            else:
                if cur is None:
                    return
                if cur.status == "sync" and kind != "stop":
                    # became a sync-waiter between posting and dispatch: the SUT will act on it; outside the space
                    state["discard"] = "request during sync wait"
                    return
                ctx.log("op", kind, cur.tag, cur.status, "player", t=t)
                if cur.status == "ended" and cur.end_how == "stop":
                    # the show_player forgot the instance when it stopped it: nothing can happen
                    return
                m_ctl(cur, kind, op, t)
        return handler

    def player_post(evn):
        def handler(**kwargs):
            t = loop.time()
            _, j, op = pending_player.pop(0)
            cur = slots.get(op["slot"])
            if cur is not None and op["op"] == "replay":
                try:
                    rs2 = m.show_player.instances["_global"]["show_player"].get("k%d" % cur.slot)
                except (KeyError, AttributeError):
                    rs2 = None
                if rs2 is not None and rs2 is not cur.rs and cur.live():
                    # the player replaced the waiting RunningShow by an identical one
                    nplays[0] += 1
                    if rs2.context != "show_%d" % nplays[0]:
                        raise AssertionError("context bookkeeping (replay): %s vs show_%d" % (rs2.context, nplays[0]))
                    cur.shadow.append(cur.ctx_key)
                    cur.ctx_key = rs2.context
                    old_rs = cur.rs
                    cur.rs = rs2
                    if cur.status == "sync":
                        cur.dup_start += 1
                        cur.shadow_rs.append(old_rs)
                close_open_keep_opt(cur)
            elif cur is not None:
                if op["op"] == "play":
                    cur.rs = sut_rs(cur)
                    if cur.rs is not None and cur.rs.context != cur.ctx_key:
                        raise AssertionError("context bookkeeping: %s vs %s" % (cur.rs.context, cur.ctx_key))
                    if cur.status != "sync":
                        close_open(cur)
                else:
                    close_open_keep_opt(cur)
                    resolve_pause(cur)
            post(t)
        return handler

    for evn in sorted(sp):
        m.events.add_handler(evn, player_pre(evn), priority=100000)
        m.events.add_handler(evn, player_post(evn), priority=-100000)

    # -- the request chain ---------------------------------------------------------------------------------------
    idx = [0]
    done = [False]

    def live_deadlines():
        out = []
        for inst in order:
            if inst.live() and inst.rs is not None and inst.cands and None not in inst.cands:
                out.append(inst.rs.next_step_time)
        return sorted(out)

    def schedule_next():
        if state.get("guard_stop") or idx[0] >= len(ops):
            done[0] = True
            return
        op = ops[idx[0]]
        w = op["when"]
        now = loop.time()
        if w[0] == "rel":
            t = now + w[1]
        elif w[0] == "sync":
            period = op["sync_ms"] / 1000.0
            t = (int(now / period) + 1 + w[1]) * period
        else:
            dls = [d for d in live_deadlines() if d >= now]
            if dls:
                d = dls[w[1] % len(dls)]
                t = d if w[2] == 0.0 else max(now, d + w[2])
                if w[2] == 0.0:
                    ctx.probe("op_on_step_deadline")
            else:
                t = now + 0.01
        state["next"] = sim.at(t, run_op)

    def run_op():
        j = idx[0]
        op = ops[j]
        idx[0] += 1
        if op["op"] == "replay" and slot_via[op["slot"]] == "api":
            ctx.log("op", "replay", "skipped", "api", t=loop.time())
        elif op["op"] != "wait":
            if slot_via[op["slot"]] == "api":
                api_request(j, op)
            else:
                player_request(j, op)
        schedule_next()

    schedule_next()
    guard = 0
    while not done[0]:
        sim.run(0.25)
        guard += 1
        if guard > 400:
            raise AssertionError("request chain did not finish")
    if plan["tail_wait"] and not state.get("guard_stop"):
        sim.run(plan["tail_wait"])

    # -- wind down: stop whatever is still live, through its own channel -------------------------------------------
    stop_op = {"op": "stop"}
    for k in range(NSLOTS):
        cur = slots.get(k)
        if cur is None or not cur.live():
            continue
        o = dict(stop_op, slot=k)
        if slot_via[k] == "api":
            sim.after(0.003, api_request, -1, o)
        else:
            sim.after(0.003, player_request, -1, o)
        sim.run(0.01)
    sim.run_quiet(0.5)
    if state.get("discard"):
        from sim.harness import Discard
        raise Discard(state["discard"])
    now = loop.time()
    check_missed(now)
    for inst in order:
        close_open(inst)
        if inst.live():
            # only possible for an old instance whose replacement never started: it went with it
            ctx.violation("event_missing", sig(inst, "stopped"), "instance %s is still live at the end" % inst.tag)

    # timers of shows that ended: let them fire (sound: only what they *do* is judged)
    horizon = now
    for h in list(loop._scheduled):     # pylint: disable=protected-access
        if h._cancelled:
            continue
        owner = getattr(h._callback, "__self__", None)
        if owner is not None and owner.__class__.__name__ == "RunningShow":
            horizon = max(horizon, h._when)
    if horizon > now:
        ctx.log("pending_show_timer", round(horizon - now, 6), t=now)
        sim.run_quiet(min(horizon - now, 40.0) + 0.3)
        now = loop.time()
        for inst in order:
            close_open(inst)

    # -- final: everything as if no show had ever run ------------------------------------------------------------------
    check_stacks(now, "end of run")
    for inst in order:
        if inst.started or inst.end_how:
            if inst.plain:
                pass
            elif inst.started and inst.counts["played"] != 1:
                ctx.violation("event_missing" if inst.counts["played"] == 0 else "event_twice", sig(inst, "played"),
                              "instance %s: played posted %d times" % (inst.tag, inst.counts["played"]))
            if inst.started and not inst.plain and inst.counts["stopped"] != 1:
                ctx.violation("event_missing" if inst.counts["stopped"] == 0 else "event_twice", sig(inst, "stopped"),
                              "instance %s: stopped posted %d times (ended by %s)"
                              % (inst.tag, inst.counts["stopped"], inst.end_how))
            exp_completed = 1 if inst.end_how == "complete" else 0
            if inst.end_ambiguous:
                exp_completed = inst.counts["completed"] if inst.counts["completed"] in (0, 1) else 0
            if inst.counts["completed"] != exp_completed:
                ctx.violation("event_missing" if exp_completed else "effect_after_end", sig(inst, "completed"),
                              "instance %s: completed posted %d times, ended by %s"
                              % (inst.tag, inst.counts["completed"], inst.end_how))
    snap1 = hw_snapshot()
    if snap1 != snap0:
        diff = {k: (snap0[k], snap1[k]) for k in snap0 if snap0[k] != snap1[k]}
        ctx.violation("hw_not_restored", "lights", "hardware brightness differs from the state before any show ran: %r "
                      "(stacks: %r)" % (diff, {ln: m.lights[ln].stack for ln in light_names}))
    for num, d in sorted(hw.sim_drivers.items()):
        if d.sim_enabled:
            ctx.violation("hw_not_restored", "coil:%s" % hw.coil_name(num), "coil %s is on after all shows ended"
                          % hw.coil_name(num))
    ctx.log("end", [(i.tag, i.end_how, i.ticks) for i in order], t=now)
