"""C14 board firmware models on top of SimSerial.

Three firmware models answer MPF's real communicators byte-for-byte the way the test-suite mocks do
(mpf/tests/platforms/fast.py MockFastNetNeuron, mpf/tests/test_OPP.py MockOppSocket,
mpf/tests/test_PKONE.py BaseMockPKONE), but
  * the byte transport is SimSerial (real serial_asyncio.SerialTransport + StreamReader on top),
  * every reply is fed through `Line.send()` with a tape-chosen latency, so it arrives chunked,
  * replies may be dropped / duplicated (command channel faults) and the outgoing byte stream may be
    damaged by line noise (bit flips, inserted / deleted / truncated bytes, garbage bursts).

Nothing in here looks at MPF objects: the models only see bytes written to the port.
"""
import re

from sim.serial import SimSerial


# ---------------------------------------------------------------------------------------------
# transport with one global, ordered log of both directions


class TapSerial(SimSerial):
    """SimSerial + one ordered event list: ("tx", t, bytes) MPF wrote / ("rx", t, bytes) chunk handed to MPF."""

    def __init__(self, sim, name, chunking="random"):
        super().__init__(sim, name, chunking)
        self.events = []
        self.listeners = []          # fn(kind, t, data) called synchronously (oracles)

    def read(self, size=1):
        out = super().read(size)
        if out:
            t = self.loop.time()
            self.events.append(("rx", t, out))
            for fn in self.listeners:
                fn("rx", t, out)
        return out

    def write(self, data):
        data = bytes(data)
        t = self.loop.time()
        self.events.append(("tx", t, data))
        for fn in self.listeners:
            fn("tx", t, data)
        return super().write(data)

    def delivered(self, start=0):
        """All bytes handed to MPF so far (from event index `start`)."""
        return b"".join(d for k, _, d in self.events[start:] if k == "rx")


# ---------------------------------------------------------------------------------------------
# noise


def apply_noise(data, noise):
    """Damage `data` (bytes) as described by the plan entry `noise` (dict) and return the new bytes.

    kinds: flip (pos, bit) | insert (pos, bytes) | delete (pos, n) | truncate (n: drop the last n bytes)
           | replace (pos, byte) | lenient (pos: index among the digit characters, byte)
    Positions are taken modulo the length, so that a plan entry stays meaningful while the minimiser
    shortens frames.
    """
    if not noise or not data:
        return data
    b = bytearray(data)
    k = noise["kind"]
    n = len(b)
    if k == "flip":
        b[noise["pos"] % n] ^= 1 << (noise["bit"] % 8)
    elif k == "replace":
        b[noise["pos"] % n] = noise["byte"] & 0xff
    elif k == "insert":
        p = noise["pos"] % (n + 1)
        b[p:p] = bytes(noise["bytes"])
    elif k == "delete":
        p = noise["pos"] % n
        del b[p:p + max(1, noise["n"])]
    elif k == "truncate":
        del b[max(0, n - max(1, noise["n"])):]
    elif k == "lenient":
        # one digit of a number field becomes a character that lenient parsers swallow (int(' 1'), int('+3'),
        # bytes.fromhex('0 1')): the frame keeps its length and its framing, only the field is no longer well formed
        digits = [i for i, c in enumerate(b) if c in b"0123456789ABCDEFabcdef"]
        if digits:
            b[digits[noise["pos"] % len(digits)]] = noise["byte"] & 0xff
        else:
            b[noise["pos"] % n] = noise["byte"] & 0xff
    else:
        raise AssertionError("unknown noise kind %r" % (k,))
    return bytes(b)


class Line:
    """Board -> MPF direction of one serial link: latency, loss/duplication of replies, noise."""

    def __init__(self, ser):
        self.ser = ser
        self.sent = bytearray()        # every byte put on the wire (after noise), in wire order
        self.frames = []               # (t_sent, bytes as intended, bytes on the wire)
        self.stat_noise = 0

    def send(self, data, delay=0.0, noise=None):
        wire = apply_noise(data, noise) if noise else data
        if noise and wire != data:
            self.stat_noise += 1
        self.frames.append((self.ser.loop.time(), bytes(data), bytes(wire)))
        self.sent.extend(wire)
        self.ser.feed(wire, delay)


# ---------------------------------------------------------------------------------------------
# FAST Neuron NET


HEX2 = "%02X"


class FastNeuronBoard:
    """Firmware model of a FAST Neuron NET processor with an I/O loop.

    Protocol knowledge is the one of MockFastNetNeuron + TestFastNeuron.create_expected_commands:
    ID:/CH:/WD:/NN:/SL:/DL:/TL:/SA: commands, '\r' terminated, one reply per command.
    """

    def __init__(self, ser, io_boards, policy=None):
        self.ser = ser
        self.line = Line(ser)
        self.io_boards = io_boards             # [(model string, drivers, switches)]
        self.rxbuf = b""
        self.commands = []                     # (t, cmd str) every complete command received
        self.sw_cfg = {i: ["00", "00", "00"] for i in range(104)}      # mode, debounce close, debounce open
        self.drv_cfg = {i: ["00"] * 8 for i in range(48)}              # trigger, switch, mode, p1..p5
        self.closed = [0] * 112                # raw switch bits as SA: reports them
        self.last_snapshot = [0] * 112         # what the most recent SA: frame said
        self.queries = []                      # futures of SA: queries the workload started (kept alive)
        # policy(cmd, reply) -> list of (reply bytes, delay); default: one reply, at once
        self.policy = policy or (lambda cmd, reply: [(reply, 0.0)])
        self.mute = False                      # True: swallow commands without answering (replay runs)
        ser.on_write = self.on_write

    # -- MPF -> board ---------------------------------------------------------------------------
    def on_write(self, data):
        self.rxbuf += data
        while True:
            pos = self.rxbuf.find(b"\r")
            if pos < 0:
                break
            raw, self.rxbuf = self.rxbuf[:pos], self.rxbuf[pos + 1:]
            if not raw:
                continue
            cmd = raw.decode("ascii", "replace")
            self.commands.append((self.ser.loop.time(), cmd))
            if self.mute:
                continue
            reply = self.reply_to(cmd)
            if reply is None:
                continue
            for data_out, delay in self.policy(cmd, reply):
                self.line.send(data_out, delay)

    def reply_to(self, cmd):
        head, arg = cmd[:3], cmd[3:]
        if head == "ID:":
            return b"ID:NET FP-CPU-2000  02.13\r"
        if head == "CH:":
            return b"CH:P\r"
        if head == "WD:":
            return b"WD:P\r"
        if head == "NN:":
            node = int(arg, 16)
            if node < len(self.io_boards):
                model, drv, sw = self.io_boards[node]
                return ("NN:%02X,%-16s,01.10,%02X,%02X,00,00,00,00,00,00\r" % (node, model, drv, sw)).encode()
            return ("NN:%02X,!Node Not Found!,00.00,00,00,00,00,00,00,00,00\r" % node).encode()
        if head == "SL:":
            parts = arg.split(",")
            num = int(parts[0], 16)
            if len(parts) == 1:
                cfg = self.sw_cfg.get(num, ["00", "00", "00"])
                return ("SL:%02X,%s\r" % (num, ",".join(cfg))).encode()
            if num in self.sw_cfg:
                self.sw_cfg[num] = parts[1:4]
            return b"SL:P\r"
        if head == "DL:":
            parts = arg.split(",")
            num = int(parts[0], 16)
            if len(parts) == 1:
                cfg = self.drv_cfg.get(num, ["00"] * 8)
                return ("DL:%02X,%s\r" % (num, ",".join(cfg))).encode()
            if num in self.drv_cfg:
                self.drv_cfg[num] = parts[1:9]
            return b"DL:P\r"
        if head == "TL:":
            return b"TL:P\r"
        if head == "SA:":
            return self.sa_frame()
        return b"XX:F\r"

    def sa_frame(self):
        self.last_snapshot = list(self.closed)
        raw = bytearray(14)
        for i, v in enumerate(self.closed):
            if v:
                raw[i // 8] |= 1 << (i % 8)
        return ("SA:0E,%s\r" % raw.hex().upper()).encode()

    # -- board -> MPF: switch reports --------------------------------------------------------------
    @staticmethod
    def switch_frame(num, active):
        """'-L:hh' = switch became active (closed), '/L:hh' = inactive (open); hh = two upper-case hex digits."""
        return ("%sL:%02X\r" % ("-" if active else "/", num)).encode()


FAST_SWITCH_RE = re.compile(r"([-/])L:([0-9A-Fa-f]{2})")


FAST_SA_RE = re.compile(r"SA:0[Ee],([0-9A-Fa-f]{28})")


def fast_classify_sa(line):
    """Classify a line of a Neuron NET->host stream with respect to the full switch report 'SA:0E,<14 bytes hex>'.

    returns ("must", [bit of switch 0..111])  exactly one well-formed report (count byte 0E, 28 hex digits)
            ("may", bits)                     noise glued in front of a well-formed report
            ("mustnot", None|bits)            a line that starts with SA: and is not well formed (bits: a well-formed
                                              report is glued to its end - decoding that one is tolerated)
            (None, None)                      the line has nothing to do with SA:
    """
    if b"SA:" not in line:
        return None, None
    try:
        s = line.decode("ascii")
    except UnicodeDecodeError:
        s = None
    m = FAST_SA_RE.fullmatch(s) if s is not None else None
    cls = "must"
    if m is None:
        try:
            m = FAST_SA_RE.fullmatch(line[-34:].decode("ascii")) if len(line) > 34 else None
        except UnicodeDecodeError:
            m = None
        cls = "may"
    if m is None:
        return ("mustnot", None) if line.startswith(b"SA:") else (None, None)
    raw = bytes.fromhex(m.group(1))
    bits = [(raw[i // 8] >> (i % 8)) & 1 for i in range(112)]
    if cls == "may" and line.startswith(b"SA:"):
        # a damaged SA: line with a well-formed report glued to its end: the line reaches the SA: processor;
        # it is malformed, but the relaxation "may" allows decoding the glued report (bits given)
        return "mustnot", bits
    return cls, bits


def fast_reference_lines(stream):
    """Split a delivered FAST byte stream at '\\r' (the protocol's only framing rule).

    Returns (complete lines as bytes, unterminated rest)."""
    parts = stream.split(b"\r")
    return [p for p in parts[:-1] if p], parts[-1]


def fast_classify(line):
    """Classify one complete line of the NET->host stream with respect to switch reports.

    returns ("must", num, state)  the whole line is exactly one well-formed switch report
            ("may", num, state)   noise glued in front of a well-formed report (no delimiter between): the
                                  statement allows dropping the line or decoding the report
            ("mustnot", None, None) anything else: must never change a switch
    """
    try:
        s = line.decode("ascii")
    except UnicodeDecodeError:
        s = None
    if s is not None:
        m = FAST_SWITCH_RE.fullmatch(s)
        if m:
            return "must", int(m.group(2), 16), 1 if m.group(1) == "-" else 0
    tail = line[-5:]
    try:
        m = FAST_SWITCH_RE.fullmatch(tail.decode("ascii"))
    except UnicodeDecodeError:
        m = None
    if m and len(line) > 5:
        return "may", int(m.group(2), 16), 1 if m.group(1) == "-" else 0
    return "mustnot", None, None


# ---------------------------------------------------------------------------------------------
# OPP gen2


def crc8(data):
    """CRC-8, polynomial x^8+x^2+x+1 (0x07), initial value 0xff - as specified for the OPP serial protocol."""
    crc = 0xff
    for b in data:
        crc ^= b
        for _ in range(8):
            crc = ((crc << 1) ^ 0x07) & 0xff if crc & 0x80 else (crc << 1) & 0xff
    return crc


OPP_LEN = {0x00: 7, 0x02: 7, 0x07: 7, 0x08: 7, 0x0d: 7, 0x13: 8, 0x14: 7, 0x17: 5, 0x19: 11}


class OppChain:
    """Firmware model of a chain of OPP gen2 boards behind one serial port.

    boards: list of dicts {"addr": 0x20.., "wings": [w0..w3], "version": (a,b,c,d), "has_matrix": bool}
    State: self.inputs[addr] = 32-bit vector (bit = 1: input high = switch open; OPP inputs are active low),
           self.matrix[addr] = 64-bit vector.
    Like the real chain, a command group is answered in order and the terminating EOM is passed through.
    """

    def __init__(self, ser, boards, policy=None):
        self.ser = ser
        self.line = Line(ser)
        self.boards = {b["addr"]: b for b in boards}
        self.order = [b["addr"] for b in boards]
        self.inputs = {b["addr"]: 0xffffffff for b in boards}
        self.matrix = {b["addr"]: 0xffffffffffffffff for b in boards if b.get("has_matrix")}
        self.rxbuf = b""
        self.commands = []
        self.polls = 0
        self.mute = False
        # policy(kind, reply bytes) -> list of (bytes, delay, noise); kind: "eom"|"inv"|"cfg"|"vers"|"poll"
        self.policy = policy or (lambda kind, reply: [(reply, 0.0, None)])
        self.on_poll = None              # fn() called before a poll group is answered (workload hook)
        ser.on_write = self.on_write

    def input_frame(self, addr, value=None):
        v = self.inputs[addr] if value is None else value
        body = bytes([addr, 0x08, (v >> 24) & 0xff, (v >> 16) & 0xff, (v >> 8) & 0xff, v & 0xff])
        return body + bytes([crc8(body)])

    def matrix_frame(self, addr, value=None):
        v = self.matrix[addr] if value is None else value
        body = bytes([addr, 0x19]) + bytes((v >> (8 * (7 - i))) & 0xff for i in range(8))
        return body + bytes([crc8(body)])

    def on_write(self, data):
        self.rxbuf += data
        out = bytearray()
        kind = None
        while self.rxbuf:
            b0 = self.rxbuf[0]
            if b0 == 0xff:
                self.rxbuf = self.rxbuf[1:]
                self.commands.append((self.ser.loop.time(), b"\xff"))
                out += b"\xff"
                self._flush(kind or "eom", out)
                out = bytearray()
                kind = None
                continue
            if b0 == 0xf0:
                self.rxbuf = self.rxbuf[1:]
                self.commands.append((self.ser.loop.time(), b"\xf0"))
                out += b"\xf0" + bytes(self.order)
                kind = "inv"
                continue
            if len(self.rxbuf) < 2:
                break
            cmd = self.rxbuf[1]
            if cmd == 0x40:
                if len(self.rxbuf) < 6:
                    break
                ln = 9 + self.rxbuf[5]
            else:
                ln = OPP_LEN.get(cmd)
                if ln is None:
                    raise AssertionError("OPP model: unknown command %s" % self.rxbuf.hex())
            if len(self.rxbuf) < ln:
                break
            msg, self.rxbuf = self.rxbuf[:ln], self.rxbuf[ln:]
            self.commands.append((self.ser.loop.time(), bytes(msg)))
            addr = msg[0]
            if addr not in self.boards:
                continue
            if cmd == 0x0d:
                body = bytes([addr, 0x0d]) + bytes(self.boards[addr]["wings"])
                out += body + bytes([crc8(body)])
                kind = "cfg"
            elif cmd == 0x02:
                body = bytes([addr, 0x02]) + bytes(self.boards[addr]["version"])
                out += body + bytes([crc8(body)])
                kind = "vers"
            elif cmd == 0x00:
                body = bytes([addr, 0x00, 0x01, 0x23, 0x45, 0x67])
                out += body + bytes([crc8(body)])
                kind = "id"
            elif cmd == 0x08:
                if kind != "poll":
                    self.polls += 1
                    if self.on_poll is not None and not self.mute:
                        self.on_poll()
                out += self.input_frame(addr)
                kind = "poll"
            elif cmd == 0x19:
                if kind != "poll":
                    self.polls += 1
                    if self.on_poll is not None and not self.mute:
                        self.on_poll()
                if addr in self.matrix:
                    out += self.matrix_frame(addr)
                kind = "poll"
            # every other command (solenoid/incand/led configuration) produces no reply, like the suite's mock
        if out:
            self._flush(kind or "eom", out)

    def _flush(self, kind, out):
        if self.mute:
            return
        for data_out, delay, noise in self.policy(kind, bytes(out)):
            self.line.send(data_out, delay, noise)


def opp_valid_windows(stream):
    """Every checksum-valid input frame window actually present in a byte stream.

    returns list of (end offset, addr, kind "inp"|"mtx", value) sorted by end offset.
    """
    out = []
    n = len(stream)
    for i in range(n - 6):
        b0 = stream[i]
        if (b0 & 0xe0) != 0x20:
            continue
        c = stream[i + 1]
        if c == 0x08:
            if crc8(stream[i:i + 6]) == stream[i + 6]:
                v = int.from_bytes(stream[i + 2:i + 6], "big")
                out.append((i + 7, b0, "inp", v))
        elif c == 0x19 and i + 11 <= n:
            if crc8(stream[i:i + 10]) == stream[i + 10]:
                v = int.from_bytes(stream[i + 2:i + 10], "big")
                out.append((i + 11, b0, "mtx", v))
    out.sort()
    return out


# ---------------------------------------------------------------------------------------------
# PKONE Nano


class PkoneNano:
    """Firmware model of a PKONE Nano controller with extension boards (35 switches each).

    Commands and replies are ASCII, terminated by 'E' (BaseMockPKONE).  Every command is acknowledged with its
    3-letter opcode unless it has a data reply (PCN, PCB, PSA).
    """

    def __init__(self, ser, extensions=(0, 1), policy=None):
        self.ser = ser
        self.line = Line(ser)
        self.extensions = list(extensions)
        self.rxbuf = b""
        self.commands = []
        self.active = {a: [0] * 35 for a in self.extensions}     # raw: 1 = closed
        self.mute = False
        self.policy = policy or (lambda cmd, reply: [(reply, 0.0)])
        ser.on_write = self.on_write

    def on_write(self, data):
        self.rxbuf += data
        while True:
            pos = self.rxbuf.find(b"E")
            if pos < 0:
                break
            raw, self.rxbuf = self.rxbuf[:pos], self.rxbuf[pos + 1:]
            if not raw:
                continue
            cmd = raw.decode("ascii", "replace")
            self.commands.append((self.ser.loop.time(), cmd))
            if self.mute:
                continue
            reply = self.reply_to(cmd)
            if reply is None:
                continue
            for data_out, delay in self.policy(cmd, reply):
                self.line.send(data_out, delay)

    def reply_to(self, cmd):
        op = cmd[:3]
        if op == "PCN":
            return b"PCNF11H1E"
        if op == "PCB":
            a = int(cmd[3])
            if a in self.extensions:
                return ("PCB%dXF11H2PYE" % a).encode()
            return ("PCB%dNE" % a).encode()
        if op == "PSA":
            a = int(cmd[3])
            return ("PSA%d%sE" % (a, "".join(str(v) for v in self.active.get(a, [0] * 35)))).encode()
        return (op + "E").encode()

    @staticmethod
    def switch_frame(board, num, state):
        return ("PSW%d%02d%dE" % (board, num, state)).encode()


PKONE_SWITCH_RE = re.compile(r"PSW([0-7])(\d\d)([01])")


def pkone_reference_lines(stream):
    parts = stream.split(b"E")
    return [p for p in parts[:-1] if p], parts[-1]


def pkone_classify(line):
    """Same three classes as fast_classify, for 'PSW<board><nn><state>' frames."""
    try:
        s = line.decode("ascii")
    except UnicodeDecodeError:
        s = None
    if s is not None:
        m = PKONE_SWITCH_RE.fullmatch(s)
        if m:
            return "must", (int(m.group(1)), int(m.group(2))), int(m.group(3))
    try:
        m = PKONE_SWITCH_RE.fullmatch(line[-7:].decode("ascii"))
    except UnicodeDecodeError:
        m = None
    if m and len(line) > 7:
        return "may", (int(m.group(1)), int(m.group(2))), int(m.group(3))
    return "mustnot", None, None
