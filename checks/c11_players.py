"""C11 - Player state is isolated per player and restored on their next turn.

SUT: a device-less multi-player game (balls end through `ball_drain`, as in MpfFakeGameTestCase) with two
game modes holding persisted counters / accrual / sequence, shots (3-state profile, persist_enable) + two shot
groups (one with enable/disable_rotation_events), achievements, a timer, a non-persisted counter, variable_player
scoring on int/float/str player vars, and a machine-wide score queue (SS style digit-by-digit scoring).

Oracles (all written from the statement):
  model      a per-player shadow (models/c11_model.py) that is changed only by events dispatched while the
             owning mode is loaded for that player; compared with the real Player.vars of *every* player after
             every stimulus dispatch and at every game life-cycle event  (=> restored exactly, isolated).
  snapshot   model-free: every other player's vars deep-copied at player_turn_started are unchanged at
             player_turn_ended.
  events     model-free: replaying the player_<var> events (value/prev_value/change/player_num) reproduces
             the simple player vars exactly (=> one correct event per change).
  views      whenever a game mode is live, its devices are bound to the current player's storage and show the
             shadow's value/enabled/completed/state/ticks.
Every dispatch is classified from the SUT's own mode flags: LIVE (mode active, not starting/stopping: the
documented effect MUST apply to the player who is up), DEAD (mode not loaded: NO player's state may change),
TRANSIENT (mode starting/stopping).

Relaxations (what the statement leaves open; marked R-... in the code):
  R-transient                 an event dispatched while the owning mode is starting/stopping may or may not count,
                              but only for the player whose ball it is (every subset of its effects is accepted).
  R-timeout-earlier-ball      a logic_block_timeout armed by the same player in an earlier ball may still fire.
  R-timeout-rearm-at-restore  a restored, still running block may restart its timeout at ball start.
  R-m2-window                 restart_on_next_ball is only asserted when m2 was not started/stopped by hand and was
                              not mid-transition around the ball change.
  R-timer-restart             timers have no persistence option: the (mode)_(timer)_tick variable restarts from
                              start_value whenever the player's mode loads; what is checked is that it belongs to
                              the player (nobody else's turn touches it) and that events replay to its value.
  R-intended-cross-write      `player: 1` in a variable_player entry (variable gift) is an intended write.
  R-queued-score-arrives-late points queued through the score queue (sq_pts) arrive digit by digit; they may reach
                              their owner after his turn (exempt from the snapshot oracle), but every step must be
                              covered by points this very player queued in his own ball and has not received yet,
                              and what he earned in earlier balls has arrived when his next ball starts.
  R-group-havoc               the achievements q_a/q_b of the on-demand mode m2 are driven by the achievement group ag of
                              m1; what the group does to them is not modelled: their state may change in any way, but
                              only for the player who is up and only while m2 is loaded for him (otherwise: violation).
Achievement group ag2 (g_a, g_b, g_c; same mode, auto_select off, disable_random) is modelled exactly: its own state
(enabled, current member) starts from scratch at every mode load, everything else comes from the achievements of
the player who is up - so a player's achievement trace depends on his own events only.
Shot group sg2 (enable_rotation_events): rotation starts from the config (off) whenever its mode starts.
Not relaxed: a player variable or persisted device state of a player who is not up never changes; a delayed
control event or timeout scheduled in one player's ball never lands in another player's state; MPF survives any
event between turns / games.
"""
import copy

from sim.harness import draw_knobs
from models import c11_model as M

ID = "C11"
LEVEL = "exploration"
RUNS = {"quick": 1200, "thorough": 30000}
WALL_CAP = {"quick": 120, "thorough": 1800}
RULE = ("one case = one generated multi-player game history (1-4 players, 1-3 balls, 30-120 operations: progress "
        "events for counters/accrual/sequence/shots/shot group/achievements/timer/variable_player, switch hits, "
        "drains, extra balls, add-player, early end_game, new games; some events posted from inside game "
        "life-cycle events (ball_ending, mode stopping, between players) and at pending timer deadlines) under a "
        "per-run configuration swarm (balls, players, mode start event, profile loop, timeouts, slow transitions) "
        "and a seeded scheduler (stalls, tie permutations); non-trivial = reached a reach probe; distinct = "
        "distinct sequence of observed life-cycle/dispatch kinds")
PROBES = ["turn_change", "restore_with_progress", "extra_ball", "early_end_game", "new_game", "players_3plus",
          "dispatch_live", "dispatch_transient", "dispatch_dead_in_game", "dispatch_no_game", "hook_post",
          "hold_window", "lb_complete", "lb_timeout", "dl_fired", "timer_tick", "m2_restart_next_ball",
          "histories_differ", "may_applied", "may_skipped", "op_on_timer_deadline", "mode_started_while_ball_ending",
          "sq_step", "sq_step_after_game", "sq_pending_at_ball_end", "sg2_rotate_enabled", "sg2_rotate_disabled",
          "timer_resume", "timer_pause_pending_at_unload", "q_ach_changed_by_group", "group_event_without_m2", "ag2_rotate_with_selection",
          "ag2_rotate_without_selection", "mode_stopping_at_ball_ending"]
REAL = ["mpf.core.player.Player", "mpf.modes.game.code.game.Game", "mpf.core.mode.Mode / ModeController",
        "mpf.devices.logic_blocks (Counter, Accrual, Sequence)", "mpf.devices.shot / shot_group / shot_profile",
        "mpf.devices.achievement", "mpf.devices.timer", "mpf.core.enable_disable_mixin",
        "mpf.config_players.variable_player", "mpf.core.events.EventManager", "MachineController boot"]
STUBS = ["event loop (SimLoop: virtual time, stalls, tie order)", "clock (SimClock)", "virtual hardware platform",
         "in-memory data manager", "playfield.add_ball (no ball devices: balls are ball_drain events)"]
ASSUMPTIONS = ["a ball ends when a `ball_drain` event reports the ball (no ball devices, as in MpfFakeGameTestCase)",
               "a variable_player entry that names its player (`player: 1`, variable `gift`) is an intended cross-player "
               "write: it is modelled as such and exempt from the snapshot oracle",
               "debounce windows (multiple_hit_window, delay_switch) are not configured: they are wall-clock features",
               "timer tick instants are not checked here (C13 does); only which player's variable they change"]
TECHNIQUE = ("deterministic simulation of the real game/mode/device code on a virtual-time loop; per-player shadow model "
             "driven by what was dispatched; faults: loop stalls, tie permutations, slow life-cycle transitions (queue "
             "holds), events injected inside life-cycle events and on pending timer deadlines")
STATE_ABSTRACTION = "(phase of the game life cycle, #players, current player, class of last dispatch, progress bucket)"

LIVE, TRANSIENT, DEAD = "live", "transient", "dead"
MODES = ("m2", "m1")        # handler priority order (m2 runs at 200, m1 at 100)
HI, LO = 500000, -500000
PRE, POST = 10 ** 9, -10 ** 9

LIFE = ["game_will_start", "game_starting", "game_started", "player_added",
        "player_turn_will_start", "player_turn_starting", "player_turn_started",
        "ball_will_start", "ball_starting", "ball_started", "ball_will_end", "ball_ending", "ball_ended",
        "player_turn_will_end", "player_turn_ending", "player_turn_ended", "game_will_end", "game_ending", "game_ended",
        "mode_m1_will_start", "mode_m1_starting", "mode_m1_started", "mode_m1_will_stop", "mode_m1_stopping",
        "mode_m1_stopped", "mode_m2_will_start", "mode_m2_starting", "mode_m2_started", "mode_m2_will_stop",
        "mode_m2_stopping", "mode_m2_stopped"]
HOOKABLE = [e for e in LIFE if e not in ("game_will_start", "game_starting", "player_added")]
HOLD_POINTS = [("ball_ending", "hi"), ("ball_ending", "lo"), ("ball_starting", "hi"), ("player_turn_ending", "lo"),
               ("player_turn_starting", "lo"), ("mode_m1_stopping", "lo"), ("mode_m2_stopping", "lo"),
               ("game_ending", "lo")]

FAMILIES = [
    ("c_up", 5, ["ev_c_up"] * 5 + ["ev_c_up_restart", "ev_c_up_restart", "ev_c_up_add", "ev_c_up_jump"]),
    ("c_down", 3, ["ev_c_down"] * 3 + ["ev_c_down_enable"] * 3 + ["ev_c_down_disable", "ev_c_down_reset"]),
    ("c_np", 1, ["ev_c_np"]),
    ("c_dl", 2, ["ev_c_dl"]),
    ("a1", 4, ["ev_a1_s0", "ev_a1_s1", "ev_a1_s2", "ev_a1_s0", "ev_a1_s1", "ev_a1_s2", "ev_a1_restart", "ev_a1_disable"]),
    ("q1", 3, ["ev_q1_s0", "ev_q1_s1", "ev_q1_s2", "ev_q1_s0", "ev_q1_s1", "ev_q1_s2", "ev_q1_reset", "ev_q1_enable"]),
    ("shots", 5, ["sw:s_sh_a", "sw:s_sh_b", "sw:s_sh_c", "sw:s_sh_a", "ev_sh_a_hit", "ev_sh_a_advance", "ev_sh_a_reset",
                  "ev_sh_b_disable", "ev_sh_b_restart", "ev_sh_b_jump2", "ev_sh_c_enable", "ev_sh_c_enable",
                  "ev_sh_c_disable", "ev_sh_c_jump1"]),
    ("sg", 3, ["ev_sg_rotate", "ev_sg_rotate_left", "ev_sg_reset", "ev_sg_enable", "ev_sg_disable",
               "ev_sg2_rotate", "ev_sg2_rotate", "ev_sg2_rot_on", "ev_sg2_rot_off"]),
    ("sq", 2, ["ev_sq_30", "ev_sq_20", "ev_sq_120", "ev_sq_2"]),
    ("ach", 3, ["ev_ach1_start", "ev_ach1_stop", "ev_ach1_complete", "ev_ach1_disable", "ev_ach1_enable", "ev_ach1_reset",
                "ev_ach1_select", "ev_ach1_unselect", "ev_ach2_start", "ev_ach2_stop", "ev_ach2_complete",
                "ev_ach2_enable", "ev_ach2_enable", "ev_ach2_disable"]),
    ("ag", 3, ["ev_ag_rotate", "ev_ag_rotate", "ev_ag_rotate_left", "ev_ag_start", "ev_ag_enable", "ev_ag_disable",
               "ev_q_a_complete", "ev_q_b_stop"]),
    ("ag2", 4, ["ev_ag2_rotate", "ev_ag2_rotate", "ev_ag2_rotate_left", "ev_ag2_start", "ev_ag2_select", "ev_ag2_enable",
                "ev_ag2_disable", "ev_g_a_select", "ev_g_b_select", "ev_g_c_select", "ev_g_b_select", "ev_g_complete",
                "ev_g_stop", "ev_g_reset"]),
    ("timer", 2, ["ev_t1_start", "ev_t1_start", "ev_t1_stop", "ev_t1_add", "ev_t1_jump", "ev_t1_pause", "ev_t1_pause"]),
    ("vars", 4, ["ev_score", "ev_score", "ev_float", "ev_str1", "ev_str2", "ev_int_set", "ev_int_add", "ev_new_var", "ev_eb", "ev_gift"]),
    ("m2", 3, ["ev_m2_start", "ev_m2_start", "ev_m2_stop", "ev_c_m2", "ev_c_m2", "ev_m2_str", "ev_score"]),
]
# short scripted progressions (a random prefix is played): they get blocks completed / profiles advanced so that
# the players' histories differ in the interesting places
COMBOS = [
    ["ev_q1_s0", "ev_q1_s1", "ev_q1_s2"],
    ["ev_c_down_enable", "ev_c_down", "ev_c_down", "ev_c_down"],
    ["ev_a1_s0", "ev_a1_s1", "ev_a1_s2"],
    ["ev_c_up", "ev_c_up", "ev_c_up"],
    ["sw:s_sh_a", "sw:s_sh_a", "sw:s_sh_a"],
    ["ev_ach1_start", "ev_ach1_complete"],
    ["ev_ach2_enable", "ev_ach2_start", "ev_ach2_stop"],
    ["ev_sh_c_enable", "sw:s_sh_c", "ev_sg_rotate"],
    ["ev_t1_start", "ev_t1_add", "ev_t1_add", "ev_t1_add"],
    ["ev_m2_start", "ev_c_m2", "ev_c_m2"],
    ["ev_sq_30", "ev_sq_20", "ev_sq_120"],
    ["ev_sg2_rot_on", "sw:s_sh_a", "ev_sg2_rotate", "ev_sg2_rotate"],
    ["sw:s_sh_b", "ev_sg2_rotate"],
    ["ev_t1_start", "ev_t1_pause"],
    ["ev_g_b_select", "ev_ag2_rotate"],
    ["ev_ag2_rotate", "ev_ag2_start"],
    ["ev_g_c_select", "ev_ag2_start", "ev_g_complete"],
    ["ev_m2_start", "ev_ag_rotate", "ev_ag_start"],
    ["ev_ag_rotate", "ev_ag_rotate", "ev_ag_start"],
    ["ev_t1_pause"],
]
DTS = [0.0, 0.0, 0.001, 0.01, 0.05, 0.1, 0.25, 0.3, 0.7, 1.5]


def _gen_stim(ch, focus=()):
    fam = ch.weighted("fam", [(i, f[1] * (5 if i in focus else 1)) for i, f in enumerate(FAMILIES)])
    return ch.pick("ev.%s" % FAMILIES[fam][0], FAMILIES[fam][2])


def _gen_when(ch):
    w = ch.weighted("when", [("rel", 6), ("timer", 2)])
    if w == "rel":
        return ["rel", ch.pick("dt", DTS)]
    return ["timer", ch.choice("t_idx", 3), ch.pick("t_delta", [0.0, 0.0, -0.001, 0.001])]


def plan(ch, tier):
    knobs = draw_knobs(ch)
    plain = ch.flag("cfg.plain", 0.3)
    cfg = {
        "balls": ch.weighted("cfg.balls", [(2, 4), (1, 2), (3, 2)]),
        "players": ch.weighted("cfg.players", [(2, 4), (3, 3), (4, 2), (1, 1)]),
        "m1_start": ch.weighted("cfg.m1_start", [("ball_starting", 3), ("ball_started", 2)]),
        "loop": ch.flag("cfg.loop", 0.5),
        "t1_run": ch.flag("cfg.t1_run", 0.3),
        "m2_restart": ch.flag("cfg.m2_restart", 0.5),
        "lb_timeout": {},
        "holds": [],
    }
    if not plain:
        to = ch.weighted("cfg.lbto", [(0, 5), (800, 2), (2000, 2)])
        if to:
            cfg["lb_timeout"] = {"c_up": to}
        for i, (ev, pr) in enumerate(HOLD_POINTS):
            if ch.flag("cfg.hold%d" % i, 0.25 if ev == "mode_m2_stopping" else 0.12):
                cfg["holds"].append([ev, pr, ch.pick("cfg.hold_ms", [10, 100, 300, 1000])])
    # swarm over the workload too: a few device families get most of the events of this run
    focus = sorted(set(ch.choice("focus", len(FAMILIES)) for _ in range(3)))
    ops = [{"op": "start", "when": ["rel", 0.05]}]
    ngames = 1 + (1 if ch.flag("second_game", 0.45) else 0)
    for g in range(ngames):
        if g:
            ops.append({"op": "start", "when": ["rel", ch.pick("dtg", [0.05, 0.5, 1.2])]})
        nturns = cfg["players"] * cfg["balls"] + ch.choice("extra_turns", 3)
        if g:
            nturns = 1 + ch.choice("turns2", 4)
        to_add = cfg["players"] - 1
        for t in range(nturns):
            n = ch.choice("burst", 11)
            burst = []
            for _ in range(n):
                k = ch.weighted("kind", [("ev", 20), ("arm", 0 if plain else 3), ("wait", 1), ("combo", 3)])
                if k == "combo":
                    c = ch.pick("combo", COMBOS)
                    for nm in c[:1 + ch.choice("combo_len", len(c))]:
                        burst.append({"op": "ev", "name": nm, "when": ["rel", ch.pick("combo_dt", [0.0, 0.01, 0.05])]})
                    continue
                if k == "ev":
                    prev = [b for b in burst if b["op"] == "ev"]
                    if prev and ch.flag("repeat", 0.3):
                        nm = prev[-1]["name"]       # hammer on the same device: that is how blocks get completed
                    else:
                        nm = _gen_stim(ch, focus)
                    burst.append({"op": "ev", "name": nm, "when": _gen_when(ch)})
                elif k == "arm":
                    burst.append({"op": "arm", "hook": ch.pick("hook", HOOKABLE), "prio": ch.pick("hprio", ["hi", "lo"]),
                                  "events": [_gen_stim(ch, focus) for _ in range(1 + ch.choice("nhook", 3))],
                                  "when": ["rel", 0.0]})
                else:
                    burst.append({"op": "wait", "when": ["rel", ch.pick("wait", [0.3, 1.0, 2.2])]})
            if t == 0:
                for _ in range(to_add):
                    burst.insert(ch.choice("addpos", len(burst) + 1),
                                 {"op": "add_player", "when": ["rel", ch.pick("dta", [0.0, 0.01, 0.1])]})
            ops.extend(burst)
            if ch.flag("end_game", 0.04):
                ops.append({"op": "end_game", "when": _gen_when(ch)})
            elif ch.flag("stop_then_drain", 0.12):
                # a game mode whose stop was requested just before the drain (still stopping at ball_ending when its
                # mode_<m>_stopping queue is held)
                if ch.flag("std_start", 0.6):
                    ops.append({"op": "ev", "name": "ev_m2_start", "when": ["rel", ch.pick("std_dt0", [0.01, 0.1])]})
                ops.append({"op": "ev", "name": "ev_m2_stop", "when": ["rel", ch.pick("std_dt1", [0.01, 0.05, 0.1])]})
                ops.append({"op": "drain", "when": ["rel", ch.pick("std_dt2", [0.0, 0.001, 0.01, 0.05])]})
            else:
                ops.append({"op": "drain", "when": _gen_when(ch)})
        # a few events with no ball in play / no game
        for _ in range(ch.choice("tail", 4)):
            ops.append({"op": "ev", "name": _gen_stim(ch, focus), "when": _gen_when(ch)})
    return {"knobs": knobs, "cfg": cfg, "ops": ops}


def shrink(plan):
    cfg = plan["cfg"]
    if cfg["holds"]:
        for i in range(len(cfg["holds"])):
            p = copy.deepcopy(plan)
            del p["cfg"]["holds"][i]
            yield p
    for i, op in enumerate(plan["ops"]):
        if op["when"] != ["rel", 0.05]:
            p = copy.deepcopy(plan)
            p["ops"][i]["when"] = ["rel", 0.05]
            yield p
        if op["op"] == "arm" and len(op["events"]) > 1:
            for j in range(len(op["events"])):
                p = copy.deepcopy(plan)
                del p["ops"][i]["events"][j]
                yield p


_WARM_MODULES = [
    "mpf.config_players.blinkenlight_player", "mpf.config_players.block_event_player", "mpf.config_players.coil_player",
    "mpf.config_players.event_player", "mpf.config_players.flasher_player", "mpf.config_players.hardware_sound_player",
    "mpf.config_players.light_player", "mpf.config_players.queue_event_player", "mpf.config_players.queue_relay_player",
    "mpf.config_players.random_event_player", "mpf.config_players.score_queue_player",
    "mpf.config_players.segment_display_player", "mpf.config_players.show_player", "mpf.config_players.variable_player",
    "mpf.core.async_mode", "mpf.core.ball_controller", "mpf.core.bcp.bcp", "mpf.core.light_controller",
    "mpf.core.mode_controller", "mpf.core.randomizer", "mpf.core.service_controller", "mpf.core.settings_controller",
    "mpf.core.show_controller", "mpf.modes.attract.code.attract", "mpf.modes.game.code.game",
    "mpf.platforms.driver_light_platform", "mpf.platforms.virtual"]


def warm():
    """Zygote: parse the YAML once and import (only import) the modules every boot loads by name."""
    import importlib
    from sim.machine import preload
    preload("c11")
    for mod in _WARM_MODULES:
        try:
            importlib.import_module(mod)
        except ImportError:
            pass


def on_crash(ctx, crash):
    """An exception reached the loop: the statement implies MPF keeps running on any event between turns."""
    import traceback
    exc = crash.exc
    tb = "".join(traceback.format_exception(type(exc), exc, exc.__traceback__)) if exc else str(crash)
    if "event_add" in tb or "event_subtract" in tb or "event_jump" in tb:
        if "NoneType" in tb:
            return ("crash", "counter control event while no player state is loaded",
                    "a counter control_event dispatched while its game mode is not running raised: %s" % exc)
    if "_logic_block_timeout" in tb:
        return ("timeout_leak", "logic_block_timeout fired with no player loaded (crash)",
                "a logic block timeout armed during a player's ball fired after the mode was unloaded: %s" % exc)
    if "_handle_score_queue" in tb and "NoneType" in tb:
        return ("unjustified_change", "score queued after ball_ending stopped waiting is worked off after the game ended (crash)",
                "a score queue entry queued while the last ball was already ending is worked off after the game "
                "stopped: machine.game is None -> %s" % exc)
    if "is not supposed to run outside of game" in tb:
        if ctx.info.get("late_start"):
            return ("binding", "%s was started while the ball was ending and outlives the game" % ctx.info["late_start"],
                    "a game mode started after ball_will_end was not stopped by ball end and was still active when "
                    "the game stopped: %s" % exc)
        return ("binding", "game mode still running at game end",
                "a game mode survived ball end and was still active when the game stopped: %s" % exc)
    return None


class _Stop(Exception):
    """Raised after a *known* finding: the model cannot be resynchronised, the run ends here (counted as ok)."""


def execute(ctx, plan):
    h = Harness(ctx, plan)
    try:
        h.run()
    except Exception:        # pylint: disable=broad-except
        if h.tainted:
            return
        raise


class Harness:

    def __init__(self, ctx, plan):
        self.ctx = ctx
        self.plan = plan
        self.cfg = plan["cfg"]
        self.tainted = False
        self.players = {}            # number -> shadow
        self.dev = M.new_dev()
        self.replica = {}            # number -> {var: value} rebuilt from player_<var> events only
        self.cur = None              # stimulus dispatch in progress
        self.in_load = None
        self.armed = []              # one-shot hook posts
        self.snap = None
        self.emit_exp = {}
        self.emit_act = {}
        self.game_no = 0
        self.phase = "idle"
        self.turns = 0
        self.turns_in_game = 0
        self.last_turn_player = None
        self.progress_by_player = {}
        self.idx = 0
        self.done = False
        self.end_m2 = {}             # player -> was m2 live when this player's last ball began to end (None: unclear)
        self.m2_touch = {}           # player -> m2 start/stop events dispatched while that player was up since then
        self.tick_complete_pending = False   # a processed tick reached end_value: timer_t1_complete follows
        self.stopping_at_end = {}    # mode -> it was already stopping when ball_ending was dispatched
        self.posting_player = None   # Player object that is posting a player_<var> event right now
        self.prev_players = []       # Player objects of the game that ended last
        self.old_late = []           # [Player object of a finished game, points it queued after the ball end stopped waiting]
        self.sq_due = {}             # player -> points earned in earlier balls that must have arrived at ball_started
        self.sq_released = False     # ... and has stopped waiting (the ball end goes on whatever is queued now)
        self.sq_block = False        # the score queue's ball_ending handler has started (ball end waits for the queue)
        self.reload_race = {}        # mode -> it was started again before the clean-up of its previous stop ran
        self.ball_phase = "none"     # "ending" from ball_will_end until the next ball_will_start
        self.late_start = {}         # mode -> it was started while the ball was ending (and is still loaded)

    # ------------------------------------------------------------------ boot
    def run(self):
        ctx, cfg = self.ctx, self.cfg
        patches = {"game": {"balls_per_game": cfg["balls"]}, "shot_profiles": {"tri": {"loop": cfg["loop"]}}}
        mp = {"m1": {"mode": {"start_events": cfg["m1_start"]}, "timers": {"t1": {"start_running": cfg["t1_run"]}}},
              "m2": {"mode": {"restart_on_next_ball": cfg["m2_restart"]}}}
        if cfg["lb_timeout"].get("c_up"):
            mp["m1"]["counters"] = {"c_up": {"logic_block_timeout": "%dms" % cfg["lb_timeout"]["c_up"]}}
        sim = self.sim = ctx.new_sim("c11", patches=patches, mode_patches=mp)
        sim.boot()
        m = self.m = sim.machine
        m.playfield.add_ball = lambda **kw: None
        m.ball_controller.num_balls_known = 3
        self.modes = {"m1": m.modes["m1"], "m2": m.modes["m2"]}
        self.install()
        self.schedule_next()
        guard = 0
        while not self.done:
            sim.run(0.5)
            guard += 1
            if guard > 2000:
                raise AssertionError("op chain did not finish")
        sim.run_quiet(6.0)
        # liveness bound from the configuration: every queued point costs at most one 200 ms chime step
        left = sum(sum(v) for v in self.dev["sq"].values())
        if left and not self.tainted and self.m.game is not None:
            sim.run_quiet(1.0 + 0.2 * left)
        if not self.tainted:
            self.check_all("final")
            self.check_sq_delivered(None, "final")

    def install(self):
        from sim.tap import EventLog
        from mpf.core.mode import Mode
        sim, m = self.sim, self.m
        self.log = EventLog(sim)        # every posted event, synchronously; we only use the listener
        self.log.records = _Null()
        self.log.listeners.append(self.on_post)
        h = self
        orig_add, orig_rm = Mode._add_mode_devices, Mode._remove_mode_devices

        def _add(mode):
            if mode.name not in h.modes or h.modes[mode.name] is not mode:
                return orig_add(mode)
            h.in_load = mode.name
            try:
                orig_add(mode)
            finally:
                h.in_load = None
            h.on_load(mode)
            return None

        def _rm(mode):
            if mode.name in h.modes and h.modes[mode.name] is mode:
                h.on_unload_before(mode)
            orig_rm(mode)
            if mode.name in h.modes and h.modes[mode.name] is mode:
                h.on_unload(mode)
        Mode._add_mode_devices = _add
        Mode._remove_mode_devices = _rm
        from mpf.core.player import Player
        orig_send = Player._send_variable_event

        def _send(player, *args, **kwargs):
            # read-only: remember which Player object posts the player_<var> event (player_num alone is ambiguous
            # once a new game has started: the previous game's Player 1 and the new Player 1 share the number)
            h.posting_player = player
            try:
                return orig_send(player, *args, **kwargs)
            finally:
                h.posting_player = None
        Player._send_variable_event = _send

        def mk(fn, name):
            def handler(**kwargs):
                fn(name, kwargs)
            return handler
        for name in sorted(M.EFFECTS):
            m.events.add_handler(name, mk(self.pre, name), priority=PRE)
            m.events.add_handler(name, mk(self.post, name), priority=POST)
        for name in LIFE:
            m.events.add_handler(name, mk(self.on_life, name), priority=PRE)
            m.events.add_handler(name, mk(self.fire_armed_hi, name), priority=HI)
            m.events.add_handler(name, mk(self.fire_armed_lo, name), priority=LO)
        # runs immediately before the score queue's own ball_ending handler (priority 1) starts to wait
        m.events.add_handler("ball_ending", self.sq_block_entered, priority=2)
        # same priority as the queue's handler, registered later: runs right after that handler stopped waiting
        m.events.add_handler("ball_ending", self.sq_block_left, priority=1)
        for ev, pr, ms in self.cfg["holds"]:
            m.events.add_handler(ev, self.mk_hold(ev, pr, ms), priority=(HI if pr == "hi" else LO) - 1)

    def sq_block_entered(self, **kwargs):
        self.sq_block = True

    def sq_block_left(self, **kwargs):
        self.sq_released = True

    def mk_hold(self, ev, pr, ms):
        def hold(queue=None, **kwargs):
            if queue is None or self.tainted:
                return
            self.ctx.log("hold", ev, pr, ms, t=self.sim.now)
            self.ctx.probe("hold_window")
            queue.wait()
            self.sim.after(ms / 1000.0, queue.clear)
        return hold

    # ------------------------------------------------------------------ helpers
    @property
    def game(self):
        return self.m.game

    def cur_pnum(self):
        g = self.m.game
        if g is None or g.player is None:
            return None
        return g.player.vars["number"]

    def mode_class(self, name):
        md = self.modes[name]
        if md._active and not md.stopping and not md._starting:
            return LIVE
        if not md._active and not md._starting and not md.mode_devices and not md.event_handlers:
            return DEAD
        return TRANSIENT

    def shadow(self, num):
        if num not in self.players:
            self.players[num] = M.new_player(num)
        return self.players[num]

    def x_for(self, num, emits, players=None, dev=None):
        ps = (players if players is not None else self.players)
        if num not in ps:
            ps[num] = M.new_player(num)
        return M.X(ps[num], dev if dev is not None else self.dev, self.sim.now, emits, num, self.cfg)

    def bad(self, rule, sig, msg):
        """Report; returns normally only for a recorded known finding - then the run is over."""
        if self.tainted:
            raise _Stop()
        self.ctx.log("violation", rule, sig, t=self.sim.now)
        self.ctx.violation(rule, sig, msg)
        self.tainted = True
        self.done = True
        raise _Stop()

    # ------------------------------------------------------------------ taps
    def on_load(self, mode):
        if self.tainted:
            return
        name = mode.name
        p = mode.player
        num = p.vars["number"] if p is not None else None
        self.ctx.log("load", name, num, t=self.sim.now)
        if num is None:
            self.bad("binding", "%s loaded without a player" % name, "game mode %s loaded its devices with player None" % name)
        self.late_start[name] = self.ball_phase == "ending"
        self.reload_race[name] = self.dev["attached"][name] is not None
        if self.reload_race[name]:
            self.ctx.probe("mode_restarted_before_cleanup")
            self.bad("binding", "%s was restarted before the clean-up of its previous stop and runs without its devices" % name,
                     "game mode %s was started between Mode._stopped and _mode_stopped_callback of its previous run "
                     "(devices loaded twice for player %r, then removed by the stale clean-up: double handlers first, "
                     "no devices afterwards)" % (name, num))
        if self.late_start[name]:
            self.ctx.info["late_start"] = name
            self.ctx.probe("mode_started_while_ball_ending")
        emits = []
        x = self.x_for(num, emits)
        if name == "m1" and self.progress_of(num):
            self.ctx.probe("restore_with_progress")
        M.model_load(x, name)
        self.add_emits(emits)

    def on_unload_before(self, mode):
        if self.tainted:
            return
        if mode.name == "m1":
            self.sync_dl("unload")
        if mode.name == "m2" and self.m.game is not None:
            # changes the group made through events we do not hook must be taken over while m2 is still loaded
            diff = self.compare(self.players, self.dev)
            if diff is not None and diff[1].startswith("achievements of m2"):
                self.report_diff(diff, "unload:m2")

    def on_unload(self, mode):
        if self.tainted:
            return
        self.ctx.log("unload", mode.name, t=self.sim.now)
        M.model_unload(self.dev, mode.name)

    def add_emits(self, emits):
        for e in emits:
            if e in M.EMIT_UNIVERSE:
                self.emit_exp[e] = self.emit_exp.get(e, 0) + 1
                if e.endswith("_complete") and e.startswith("logicblock"):
                    self.ctx.probe("lb_complete")
                    self.ctx.probe("complete_" + e[11:-9])

    # every posted event passes here synchronously (before it is queued)
    def on_post(self, t, name, kwargs):
        if self.tainted:
            return
        if name in M.EMIT_UNIVERSE:
            self.emit_act[name] = self.emit_act.get(name, 0) + 1
        if name.startswith("player_") and "prev_value" in kwargs and "player_num" in kwargs:
            self.on_var_event(name[7:], kwargs)
        elif name == "mode_m1_will_stop":
            # Mode.stop() clears the mode's delays right after posting this: pending delayed counts are dropped
            self.sync_dl("will_stop")
            self.dev["dl"] = []
        elif name in ("timer_t1_started", "timer_t1_complete") and self.cur is None and self.in_load is None:
            if name == "timer_t1_complete" and self.tick_complete_pending:
                self.tick_complete_pending = False      # the completion of the tick that was just processed
            else:
                self.on_timer_resume(name)
        elif name == "c_up_timeout":
            self.on_timeout("c_up")

    def on_var_event(self, var, kw):
        ctx = self.ctx
        num, value, prev, change = kw["player_num"], kw["value"], kw["prev_value"], kw["change"]
        ctx.log("var", var, num, repr(value), repr(prev), repr(change), t=self.sim.now)
        g = self.m.game
        owner = self.posting_player
        if owner is not None and (g is None or all(owner is not q for q in g.player_list)):
            # The Player object belongs to a game that is over.  Only one thing may still reach it: chime steps of
            # score queue entries this very player queued while his last ball was already ending
            # (R-queued-score-arrives-late); they go to the player who earned them, never to the new game.
            self.on_finished_player_event(owner, var, kw)
            return
        if g is None:
            self.bad("isolation", "player variable changed while no game is running: %s" % var,
                     "player_%s %r posted after the game ended" % (var, kw))
        if not isinstance(num, int) or not 1 <= num <= len(g.player_list):
            self.bad("var_event", "player_num out of range", "player_%s posted with player_num=%r" % (var, num))
        actual = g.player_list[num - 1].vars.get(var, _MISSING)
        if actual is _MISSING or M.canon_value(actual) != M.canon_value(value):
            self.bad("var_event", "value differs from variable: %s" % var,
                     "player_%s value=%r but player %d's variable is %s"
                     % (var, value, num, "<not set>" if actual is _MISSING else repr(actual)))
        rep = self.replica.setdefault(num, {})
        try:
            exp_change = value - prev
        except TypeError:
            exp_change = prev != value
        if change != exp_change or isinstance(change, bool) != isinstance(exp_change, bool):
            self.bad("var_event", "change inconsistent: %s" % var,
                     "player_%s value=%r prev_value=%r change=%r (expected %r)" % (var, value, prev, change, exp_change))
        announce = (not change) and M.canon_value(prev) == M.canon_value(value)
        if var in rep:
            if M.canon_value(rep[var]) != M.canon_value(prev):
                self.bad("var_event", "prev_value does not chain: %s" % var,
                         "player_%s for player %d: prev_value=%r but the last event left %r (lost or duplicated event)"
                         % (var, num, prev, rep[var]))
        elif not announce and not (prev == 0 and not isinstance(prev, bool)):
            self.bad("var_event", "first event with non-zero prev_value: %s" % var,
                     "player_%s for player %d: first event has prev_value=%r" % (var, num, prev))
        rep[var] = value
        if announce:
            return
        # justification of changes that happen outside a stimulus dispatch / a mode load
        if self.cur is not None or self.in_load is not None:
            return
        curp = self.cur_pnum()
        if var == "ball":
            if num != curp or change != 1:
                self.bad("unjustified_change", "ball", "player_ball %r for player %r while player %r is up" % (kw, num, curp))
            self.shadow(num)["vars"]["ball"] = value
            return
        if var == "extra_balls" and change == -1:
            ps = self.shadow(num)
            if num != curp or ps["vars"].get("extra_balls", 0) <= 0:
                self.bad("unjustified_change", "extra_balls", "extra ball taken from player %r (%r), shadow %r"
                         % (num, kw, ps["vars"].get("extra_balls")))
            ps["vars"]["extra_balls"] -= 1
            ctx.probe("extra_ball")
            return
        if var == "sq_pts":
            # the score queue delivers queued points digit by digit, outside any dispatch: every step must be
            # charged to points this very player earned (queued during his own ball) and has not received yet
            pool = self.dev["sq"].setdefault(num, [0, 0, 0])
            if not isinstance(change, int) or change <= 0 or sum(pool) < change:
                owed = dict((k, list(v)) for k, v in sorted(self.dev["sq"].items()) if sum(v))
                late = [q for q in sorted(self.dev["sq"]) if q != num and self.dev["sq"][q][2] >= change]
                msg = ("score queue added %r to player %r (player up: %r) who has %r undelivered queued points; "
                       "undelivered [certain, possible, queued after the ball end stopped waiting] per player: %r"
                       % (change, num, curp, pool, owed))
                if not late and isinstance(change, int) and any(0 < change <= e[1] for e in self.old_late):
                    self.bad("unjustified_change", "score queued after ball_ending stopped waiting is credited to the next player",
                             msg + " - points queued while the last ball of the previous game was ending went to a player of this game")
                if late and isinstance(change, int) and change > 0:
                    self.bad("unjustified_change", "score queued after ball_ending stopped waiting is credited to the next player",
                             msg + " - the points player %d queued while his game mode was stopping went to player %r" % (late[0], num))
                self.bad("unjustified_change", "queued score credited to a player who did not earn it", msg)
            rest = change
            for i in (0, 1, 2):
                take = min(pool[i], rest)
                pool[i] -= take
                rest -= take
                if i == 0 and take:      # the queue is FIFO: what was earned in earlier balls arrives first
                    self.sq_due[num] = max(0, self.sq_due.get(num, 0) - take)
                    if num != curp:
                        # queued while the ball end was still going to wait for the queue: must arrive within the turn
                        self.bad("isolation", "score queued before the ball ended reaches its owner in another player's turn",
                                 "score queue added %r to player %r while player %r is up; these points were queued "
                                 "before ball_ending stopped waiting for the queue, so the turn must not have ended"
                                 % (change, num, curp))
            ps = self.shadow(num)
            ps["vars"]["sq_pts"] = ps["vars"].get("sq_pts", 0) + change
            ctx.probe("sq_step")
            if num != curp:
                ctx.probe("sq_step_after_turn")
            return
        if var == M.TICK and change == 1:
            att = self.dev["attached"]["m1"]
            if att != num or not self.dev["t1_running"]:
                self.bad("unjustified_change", "timer tick for a player whose timer is not running",
                         "timer t1 ticked player %r's variable (m1 loaded for %r, model running=%r)"
                         % (num, att, self.dev["t1_running"]))
            emits = []
            M.t1_tick(self.x_for(num, emits))
            self.add_emits(emits)
            if "timer_t1_complete" in emits:
                self.tick_complete_pending = True
            ctx.probe("timer_tick")
            return
        self.bad("unjustified_change", "player variable changed outside any event of that player's turn: %s" % var,
                 "player_%s %r posted outside a stimulus dispatch and outside a mode load" % (var, kw))

    def on_timer_resume(self, name):
        """t1 started (or completed at once) outside any event dispatch: the timed resume of a pause-with-value."""
        sim = self.sim
        att = self.dev["attached"]["m1"]
        pz = self.dev["t1_pause"]
        self.ctx.log("timer_resume", name, att, pz and pz["owner"], t=sim.now)
        self.ctx.probe("timer_resume")
        if att is None or pz is None or pz["seq"] != self.dev["seq"]["m1"] or not sim.late_ok(pz["deadline"]):
            self.bad("unjustified_change", "timer resumed by a pause that does not belong to this ball",
                     "%s at %.3f outside any event: m1 is loaded for %r (load #%r), the only pending timed pause is %r - "
                     "a resume scheduled in an earlier ball/turn (or never) started the timer"
                     % (name, sim.now, att, self.dev["seq"]["m1"], pz))
        emits = []
        self.dev["t1_pause"] = None
        M.t1_start(self.x_for(att, emits))
        self.add_emits(emits)

    def on_finished_player_event(self, owner, var, kw):
        value, change = kw["value"], kw["change"]
        pool = None
        if self.m.game is None and any(owner is q for q in self.prev_players) and self.dev["sq"].get(kw["player_num"]):
            pool = self.dev["sq"][kw["player_num"]]          # the game just ended, its pools were not archived yet
            avail = sum(pool)
        else:
            ent = [e for e in self.old_late if e[0] is owner]
            avail = ent[0][1] if ent else 0
        ok = (var == "sq_pts" and isinstance(change, int) and 0 < change <= avail and
              M.canon_value(owner.vars.get(var)) == M.canon_value(value))
        if not ok:
            self.bad("isolation", "variable of a player of a finished game changed: %s" % var,
                     "player_%s %r was posted by a Player object of a game that is over (undelivered queued points of "
                     "that player: %r)" % (var, kw, avail))
        if pool is not None:
            rest = change
            for i in (0, 1, 2):
                take = min(pool[i], rest)
                pool[i] -= take
                rest -= take
                if i == 0 and take:
                    self.bad("isolation", "score queued before the ball ended reaches its owner after the game",
                             "score queue added %r to player %r after the game ended; these points were queued before "
                             "ball_ending stopped waiting for the queue, so the ball must not have ended" % (change, kw["player_num"]))
        else:
            ent[0][1] -= change
        self.ctx.probe("sq_step_after_game")

    def on_timeout(self, name):
        """<name>_timeout was posted: the logic block is about to be reset by its timeout."""
        ctx, sim = self.ctx, self.sim
        att = self.dev["attached"][M.LB[name]["mode"]]
        arm = self.dev["timeout"].get(name)
        ctx.log("timeout", name, att, arm and arm["owner"], t=sim.now)
        ctx.probe("lb_timeout")
        to = self.cfg["lb_timeout"][name] / 1000.0
        if att is None:
            self.bad("timeout_leak", "logic_block_timeout fired with no player loaded",
                     "%s_timeout fired at %.3f while no player's state is loaded (armed by player %r)"
                     % (name, sim.now, arm and arm["owner"]))
        ok = False
        if arm is not None and arm["owner"] == att and sim.late_ok(arm["deadline"]):
            # armed by this player's own enable/reset.  R-timeout-earlier-ball: whether a timer armed in an
            # earlier ball of the *same* player survives the ball change is left open by the statement.
            ok = True
        ra = self.dev["restore_arm"].get(name)
        if not ok and ra is not None and self.dev["load_time"]["m1"] == ra and sim.late_ok(ra + to):
            # R-timeout-rearm-at-restore: a restored running block may restart its timeout at ball start
            ok = True
        if not ok:
            self.bad("timeout_leak", "logic_block_timeout armed in another player's turn reset this player's progress",
                     "%s_timeout fired at %.3f during player %r's ball, but the pending timeout was armed by %r"
                     % (name, sim.now, att, arm))
        x = self.x_for(att, [])
        M.lb_reset(x, name)
        self.dev["restore_arm"][name] = None

    # ------------------------------------------------------------------ delayed counter c_dl
    def sync_dl(self, where):
        """c_dl counts DL_DELAY after ev_c_dl.  Its value must be base + (number of own pending counts that fired)."""
        att = self.dev["attached"]["m1"]
        if att is None:
            return
        g = self.m.game
        if g is None or att > len(g.player_list):
            return
        st = g.player_list[att - 1].vars.get("c_dl_state")
        sh = self.shadow(att)["lbs"].get("c_dl")
        if st is None or sh is None:
            return
        now = self.sim.now
        pend = sorted(self.dev["dl"], key=lambda d: d["deadline"])
        possible = [d for d in pend if d["deadline"] <= now + 1e-9]
        # timers that became due during an injected stall run in one batch at the landing instant, and a delay
        # callback flushes the event queue itself: inside that batch only deadlines before the nominal wake-up
        # time have certainly been processed
        safe = now
        sl = self.sim.loop.stall_log
        if sl and abs(sl[-1][1] - now) <= 1e-9:
            safe = min(now, sl[-1][0])
        must = [d for d in possible if d["must"] and d["deadline"] < safe - 1e-9]
        k = st.value - sh[0]
        if k > len(possible) or k < 0:
            self.bad("delayed_leak", "c_dl progressed without an event of this player's ball",
                     "player %d's c_dl is %r, shadow %r + at most %d own delayed counts due by %.3f (%s); "
                     "a delayed count scheduled outside this ball landed here" % (att, st.value, sh[0], len(possible), now, where))
        if k < len(must):
            self.bad("effect", "c_dl delayed count lost",
                     "player %d's c_dl is %r, shadow %r + %d delayed counts that were due before %.3f"
                     % (att, st.value, sh[0], len(must), now))
        if k:
            self.ctx.probe("dl_fired", k)
        for d in possible[:max(k, len(must))]:
            self.dev["dl"].remove(d)
        sh[0] = st.value

    # ------------------------------------------------------------------ stimulus dispatch
    def pre(self, name, kwargs):
        if self.tainted:
            return
        self.cur = {"name": name, "cls": {mn: self.mode_class(mn) for mn in MODES}, "pnum": self.cur_pnum(),
                    "att": dict(self.dev["attached"])}
        # A score queue entry keeps the ball from ending if it is queued before the queue's ball_ending handler
        # starts to wait, or while that handler is still waiting (queue not empty).  Once the handler has been
        # released (queue ran empty during ball_ending) a new entry is worked off after the ball ended.
        if self.sq_block and self.m.score_queues["sq_pts"]._score_queue_empty.is_set():
            self.sq_released = True     # latched until the next ball: a later entry clears the flag again, too late
        self.dev["sq_gate"] = self.sq_released
        if name in ("ev_m2_start", "ev_m2_stop"):
            self.m2_touch[self.cur["pnum"]] = self.m2_touch.get(self.cur["pnum"], 0) + 1

    def post(self, name, kwargs):
        if self.tainted:
            return
        cur, self.cur = self.cur, None
        if cur is None or cur["name"] != name:
            raise AssertionError("dispatch bracket broken for %s" % name)
        ctx = self.ctx
        cls = cur["cls"]
        self.sync_dl("dispatch")
        effs = []
        for eff in M.EFFECTS[name]:
            mode, fn = eff[0], eff[1]
            c = cls[mode]
            tgt = cur["att"][mode]
            if c == DEAD or tgt is None:
                continue
            if tgt != cur["pnum"]:
                # the mode's devices are (still) loaded for somebody who is not up: nothing of this event may reach
                # that player's state (R-transient only speaks about the player whose ball it is)
                continue
            if len(eff) > 2:
                tgt = eff[2]        # variable_player entry that names its player explicitly
            effs.append((c == LIVE, mode, fn, tgt))
        kinds = sorted(set(cls[eff[0]] for eff in M.EFFECTS[name])) or ["-"]
        ctx.log("dispatch", name, cur["pnum"], kinds, t=self.sim.now)
        if self.m.game is None:
            ctx.probe("dispatch_no_game")
        elif LIVE in kinds:
            ctx.probe("dispatch_live")
        elif TRANSIENT in kinds:
            ctx.probe("dispatch_transient")
        elif DEAD in kinds:
            ctx.probe("dispatch_dead_in_game")
        if name.startswith("ev_ag_") and self.m.game is not None and self.dev["attached"]["m2"] is None \
                and cls["m1"] == LIVE:
            ctx.probe("group_event_without_m2")
        if name in ("ev_ag2_rotate", "ev_ag2_rotate_left", "ev_ag2_select") and effs and cur["pnum"] is not None:
            g2 = self.dev["ag2"]
            xx = self.x_for(cur["pnum"], [])
            if g2["enabled"] and g2["sel"]:
                ctx.probe("ag2_rotate_with_selection")
                if not [n for n in M.G_ACH if n != g2["sel"] and M._g_selectable(xx, n)] and not M._g_selectable(xx, g2["sel"]):
                    ctx.probe("ag2_rotate_nothing_available")
            elif g2["enabled"]:
                ctx.probe("ag2_rotate_without_selection")
        if name == "ev_sg2_rotate" and effs:
            ctx.probe("sg2_rotate_enabled" if self.dev["sg2_rot"] else "sg2_rotate_disabled")
        may = [e for e in effs if not e[0]]
        if not may:
            emits = []
            for must, mode, fn, tgt in effs:
                x = self.x_for(tgt, emits)
                x.must = True
                fn(x)
            self.add_emits(emits)
        else:
            # R-transient: an event dispatched while the owning mode is starting or stopping may or may not count
            # (for the player whose ball it is); every subset of those effects is accepted, nothing else.
            n = len(may)
            chosen = None
            first_diff = None
            for mask in range((1 << n) - 1, -1, -1):
                players = copy.deepcopy(self.players)
                dev = copy.deepcopy(self.dev)
                emits = []
                i = 0
                for must, mode, fn, tgt in effs:
                    if not must:
                        take = bool(mask >> i & 1)
                        i += 1
                        if not take:
                            continue
                    x = self.x_for(tgt, emits, players, dev)
                    x.must = must
                    fn(x)
                diff = self.compare(players, dev, emits)
                if diff is None:
                    chosen = (players, dev, emits, mask)
                    break
                if first_diff is None:
                    first_diff = diff
            if chosen is None:
                self.report_diff(first_diff, "dispatch:%s:%s" % (name, "+".join(kinds)))
            self.players, self.dev = chosen[0], chosen[1]
            self.add_emits(chosen[2])
            ctx.probe("may_applied" if chosen[3] else "may_skipped")
        self.note_progress()
        self.check_all("dispatch:%s:%s" % (name, "+".join(kinds)))

    # ------------------------------------------------------------------ comparison
    def compare(self, players, dev, extra_emits=()):
        """None when the SUT equals the model, else (player number or None, key, expected, actual)."""
        g = self.m.game
        if g is None:
            return None
        for p in g.player_list:
            num = p.vars["number"]
            if num not in players:
                players[num] = M.new_player(num)
            exp = M.canon_shadow(players[num])
            act = canon_actual(p)
            qe, qa = _split_q(exp), _split_q(act)
            if qe != qa:
                # R-group-havoc: what the achievement group does to q_a/q_b is not modelled.  Their state may change
                # in any way - but only for the player who is up and only while their mode (m2) is loaded for him.
                if num == self.cur_pnum() and dev["attached"]["m2"] == num and players[num]["ach"] is not None \
                        and isinstance(p.vars.get("achievements"), dict):
                    for n in M.Q_ACH:
                        if n in p.vars["achievements"]:
                            players[num]["ach"][n] = list(p.vars["achievements"][n])
                        else:
                            players[num]["ach"].pop(n, None)
                    self.ctx.probe("q_ach_changed_by_group")
                else:
                    return (num, "achievements of m2 (q_a/q_b)", qe, qa)
            if exp != act:
                for k in sorted(set(exp) | set(act)):
                    if exp.get(k) != act.get(k):
                        return (num, k, exp.get(k), act.get(k))
        t1 = self.m.timers["t1"]
        if bool(t1.running) != bool(dev["t1_running"]):
            return (None, "t1.running", dev["t1_running"], t1.running)
        if dev["attached"]["m1"] is not None:
            rot = bool(self.m.shot_groups["sg2"].rotation_enabled)
            if rot != bool(dev["sg2_rot"]):
                return (None, "sg2.rotation_enabled", dev["sg2_rot"], rot)
        if dev["attached"]["m1"] is not None:
            en = bool(self.m.achievement_groups["ag2"].enabled)
            if en != bool(dev["ag2"]["enabled"]):
                return (None, "ag2.enabled", dev["ag2"]["enabled"], en)
        cnp = self.m.counters["c_np"]
        act = None if cnp._state is None else [cnp._state.value, bool(cnp._state.enabled), bool(cnp._state.completed)]
        exp = dev["c_np"] and [dev["c_np"][0], bool(dev["c_np"][1]), bool(dev["c_np"][2])]
        if act != exp:
            return (None, "c_np", exp, act)
        exp_e = dict(self.emit_exp)
        for e in extra_emits:
            if e in M.EMIT_UNIVERSE:
                exp_e[e] = exp_e.get(e, 0) + 1
        for e in sorted(set(exp_e) | set(self.emit_act)):
            if exp_e.get(e, 0) != self.emit_act.get(e, 0):
                return (None, "emitted:" + e, exp_e.get(e, 0), self.emit_act.get(e, 0))
        return None

    def report_diff(self, diff, where):
        num, key, exp, act = diff
        curp = self.cur_pnum()
        msg = "%s: player %r %s is %r, model says %r (player up: %r, t=%.3f)" % (where, num, key, act, exp, curp, self.sim.now)
        if num is not None and num != curp:
            self.bad("isolation", "state of a player who is not up changed: %s" % key, msg)
        if where.startswith("dispatch"):
            self.bad("effect", "%s after %s" % (key, where.split(":")[1]), msg)
        ev = where.split(":", 1)[1]
        if ev in ("player_added", "game_will_start", "game_starting", "game_started") or (
                self.turns_in_game == 0 and not ev.startswith("mode_")):
            self.bad("new_game_initial", "%s at %s" % (key, ev), msg)
        if ev in ("player_turn_will_start", "player_turn_starting", "player_turn_started", "ball_will_start",
                  "ball_starting", "ball_started") or (ev.startswith("mode_") and "start" in ev):
            self.bad("restore", "%s at %s" % (key, ev), msg)
        self.bad("state", "%s at %s" % (key, where), msg)

    def check_all(self, where):
        if self.tainted:
            return
        g = self.m.game
        if g is None:
            return
        self.sync_dl(where)
        diff = self.compare(self.players, self.dev)
        if diff is not None:
            self.report_diff(diff, where)
        # events oracle: the simple variables are exactly what the player_<var> events say
        for p in g.player_list:
            num = p.vars["number"]
            if not p._events_enabled:
                continue
            rep = self.replica.get(num, {})
            for k, v in p.vars.items():
                if isinstance(v, (int, float, str)):
                    if k not in rep or M.canon_value(rep[k]) != M.canon_value(v):
                        self.bad("var_event", "variable changed without a matching event: %s" % k,
                                 "%s: player %d's %s is %r but the player_%s events say %r"
                                 % (where, num, k, v, k, rep.get(k, "<no event>")))
        # views oracle
        curp = self.cur_pnum()
        for mn in MODES:
            att = self.dev["attached"][mn]
            if self.late_start.get(mn) and att is not None and curp is not None and att != curp:
                # the mode that was started after ball_will_end still has the previous player's devices loaded
                # (live *or* already stopping: its handlers still act on that player's state, and while it is
                # stopping ModeController._ball_starting cannot restart it for the player who is up now)
                self.bad("binding", "%s was started while the ball was ending and outlives the ball" % mn,
                         "%s: game mode %s was started after ball_will_end; ball end did not stop it: its devices are "
                         "still loaded for player %r (mode %s) while player %r is up"
                         % (where, mn, att, self.mode_class(mn), curp))
            if att is not None and curp is not None and att != curp and not self.late_start.get(mn):
                # ball_ending waits for every game mode to finish stopping - also for one whose stop had been
                # requested before the drain - so no mode can have a player's devices loaded in another player's turn
                if self.stopping_at_end.get(mn):
                    self.bad("binding", "%s was stopping at ball_ending and outlives the ball" % mn,
                             "%s: game mode %s was already stopping (its mode_%s_stopping queue still held) when ball_ending "
                             "was dispatched; the ball ended without waiting for it: its handlers are registered and its "
                             "devices loaded for player %r (mode %s) while player %r is up"
                             % (where, mn, mn, att, self.mode_class(mn), curp))
                self.bad("binding", "%s still has the previous player's devices loaded after the turn changed" % mn,
                         "%s: game mode %s has its devices loaded for player %r (mode %s) while player %r is up"
                         % (where, mn, att, self.mode_class(mn), curp))
            if self.mode_class(mn) != LIVE:
                continue
            att = self.dev["attached"][mn]
            if att is None or curp is None or att != curp:
                if self.reload_race.get(mn):
                    self.bad("binding", "%s was restarted before the clean-up of its previous stop and runs without its devices" % mn,
                             "%s: game mode %s was started between Mode._stopped and _mode_stopped_callback of its "
                             "previous run; the stale clean-up removed the devices and handlers of the new run: it is "
                             "active with devices loaded for player %r while player %r is up" % (where, mn, att, curp))
                if self.late_start.get(mn):
                    self.bad("binding", "%s was started while the ball was ending and outlives the ball" % mn,
                             "%s: game mode %s was started after ball_will_end; ball end did not stop it: it is active "
                             "with its devices loaded for player %r while player %r is up" % (where, mn, att, curp))
                self.bad("binding", "%s live with devices loaded for another player" % mn,
                         "%s: game mode %s is active with its devices loaded for player %r while player %r is up"
                         % (where, mn, att, curp))
            self.check_views(mn, g.player_list[curp - 1], where)

    def check_views(self, mn, p, where):
        m = self.m
        sh = self.shadow(p.vars["number"])

        def need(cond, what, exp, act):
            if not cond:
                self.bad("binding", "device view differs from the current player's state: %s" % what,
                         "%s: %s shows %r, player %d's state is %r" % (where, what, act, p.vars["number"], exp))
        for name in M.MODE_LBS[mn]:
            c = M.LB[name]
            d = getattr(m, c["kind"] + "s")[name]
            if c["persist"]:
                need(d._state is p.vars.get(name + "_state"), name + " storage", "player's own state object", "another object")
                st = sh["lbs"].get(name)
                if st is not None and name != "c_dl":
                    need(d.value == st[0] and bool(d.enabled) == st[1] and bool(d.completed) == st[2], name,
                         st, [d.value, d.enabled, d.completed])
        if mn == "m2":
            for n in M.Q_ACH:
                a = m.achievements[n]
                need(a._player is p, n + " player", "current player", a._player)
        if mn != "m1":
            return
        for n in M.SHOT_ORDER:
            s = m.shots[n]
            need(s.player is p, n + " player", "current player", s.player)
            need(s.state == sh["vars"].get("shot_" + n, 0), n + ".state", sh["vars"].get("shot_" + n, 0), s.state)
            need(bool(s.enabled) == bool(sh["vars"].get("shot_%s_enabled" % n)), n + ".enabled",
                 sh["vars"].get("shot_%s_enabled" % n), s.enabled)
        for n in sorted(M.ACH):
            a = m.achievements[n]
            need(a._player is p, n + " player", "current player", a._player)
            exp = sh["ach"][n] if sh["ach"] else None
            need(exp is not None and a.state == exp[0] and bool(a.selected) == exp[1], n, exp, [a.state, a.selected])
        t1 = m.timers["t1"]
        need(t1.player is p, "t1 player", "current player", t1.player)
        need(t1.ticks == sh["vars"].get(M.TICK), "t1.ticks", sh["vars"].get(M.TICK), t1.ticks)

    # ------------------------------------------------------------------ life cycle
    def on_life(self, name, kwargs):
        if self.tainted:
            return
        ctx = self.ctx
        curp = self.cur_pnum()
        ctx.log("life", name, curp, t=self.sim.now)
        self.phase = name
        g = self.m.game
        if name == "ball_will_start" and curp is not None:
            self.sq_due[curp] = self.dev["sq"].get(curp, [0, 0, 0])[0]
        if name in ("ball_will_end", "ball_will_start"):
            self.sq_block = False
            self.sq_released = False
        if name == "ball_will_end":
            self.ball_phase = "ending"
        elif name in ("ball_will_start", "game_ended"):
            self.ball_phase = "starting" if name == "ball_will_start" else "none"
        if name == "game_will_start":
            self.players = {}
            self.replica = {}
            self.snap = None
            self.game_no += 1
            self.last_turn_player = None
            self.turns_in_game = 0
            self.progress_by_player = {}
            self.end_m2 = {}
            self.m2_touch = {}
            self.check_sq_delivered(None, "game_will_start")
            for q in sorted(self.dev["sq"]):
                if self.dev["sq"][q][2] > 0 and q <= len(self.prev_players):
                    self.old_late.append([self.prev_players[q - 1], self.dev["sq"][q][2]])
            self.dev["sq"] = {}
            self.sq_due = {}
            if self.game_no > 1:
                ctx.probe("new_game")
        elif name == "player_added":
            num = kwargs["num"]
            self.shadow(num)
            if num >= 3:
                ctx.probe("players_3plus")
        elif name in ("mode_m1_starting", "mode_m2_starting"):
            mn = name[5:7]
            att = self.dev["attached"][mn]
            if att is not None:
                M.model_starting(self.x_for(att, []), mn)
        elif name == "player_turn_started":
            num = kwargs["number"]
            if self.last_turn_player is not None and self.last_turn_player != num:
                ctx.probe("turn_change")
            self.last_turn_player = num
            self.turns += 1
            self.turns_in_game += 1
            # snapshot oracle (model-free)
            self.snap = (num, {p.vars["number"]: canon_actual(p) for p in g.player_list if p.vars["number"] != num})
            prog = set(v for v in self.progress_by_player.values())
            if len(prog) > 1:
                ctx.probe("histories_differ")
        elif name == "player_turn_ended":
            if self.snap is not None and self.snap[0] == kwargs["number"]:
                for p in g.player_list:
                    q = p.vars["number"]
                    if q in self.snap[1]:
                        now = canon_actual(p)
                        now.pop("gift", None)       # the machine's one intended cross-player variable (player: 1)
                        self.snap[1][q].pop("gift", None)
                        # R-queued-score-arrives-late: points a player queued in his own ball may reach him after
                        # his turn; that every step is his own is enforced by the pool rule in on_var_event
                        now.pop("sq_pts", None)
                        self.snap[1][q].pop("sq_pts", None)
                        if now != self.snap[1][q]:
                            ks = [k for k in sorted(set(now) | set(self.snap[1][q])) if now.get(k) != self.snap[1][q].get(k)]
                            self.bad("isolation", "snapshot of another player's variables changed during a turn: %s" % ks[0],
                                     "during player %d's turn player %d's %s changed from %r to %r"
                                     % (self.snap[0], q, ks[0], self.snap[1][q].get(ks[0]), now.get(ks[0])))
            self.snap = None
        elif name == "ball_started":
            if self.cfg["m2_restart"] and self.dev["attached"]["m2"] is not None:
                ctx.probe("m2_restart_next_ball")
        elif name == "ball_ending":
            for mn in MODES:
                self.stopping_at_end[mn] = bool(self.modes[mn].stopping)
                if self.stopping_at_end[mn]:
                    ctx.probe("mode_stopping_at_ball_ending")
            if self.dev["t1_pause"] is not None:
                ctx.probe("timer_pause_pending_at_unload")
            if sum(self.dev["sq"].get(curp, [0, 0, 0])):
                ctx.probe("sq_pending_at_ball_end")
            c = self.mode_class("m2")
            self.end_m2[curp] = True if c == LIVE else (False if c == DEAD else None)
            self.m2_touch[curp] = 0
        elif name == "game_ended":
            if g is not None:
                self.prev_players = list(g.player_list)
        elif name == "game_will_end":
            if g is not None and g.player is not None:
                balls = self.cfg["balls"]
                if g.player.vars.get("ball", 0) < balls or curp != g.num_players:
                    ctx.probe("early_end_game")
        if not name.endswith("_starting") or not name.startswith("mode_"):
            # (for mode_<m>_starting the model was advanced ahead of MPF's own handlers: checked in the late hook)
            self.check_all("life:" + name)
        ctx.state(name, g and g.num_players, curp, self.progress_of(curp))

    def fire_armed_hi(self, name, kwargs):
        self._fire(name, "hi")

    def fire_armed_lo(self, name, kwargs):
        if not self.tainted:
            self.check_all("life_late:" + name)
            if name == "ball_started":
                self.check_restart_on_next_ball()
                self.check_sq_delivered(self.cur_pnum(), "ball_started")
        self._fire(name, "lo")

    def _fire(self, name, prio):
        if self.tainted or not self.armed:
            return
        for a in list(self.armed):
            if a["hook"] == name and a["prio"] == prio:
                self.armed.remove(a)
                self.ctx.log("hook_post", name, prio, a["events"], t=self.sim.now)
                self.ctx.probe("hook_post")
                for e in a["events"]:
                    self.stim(e)

    def check_sq_delivered(self, num, where):
        """What a player earned through the score queue has arrived when his next ball starts / when the run ends."""
        if num is not None:
            # at ball_started: only what was earned in earlier balls (recorded at ball_will_start) must have arrived
            if self.sq_due.get(num, 0) > 0:
                self.bad("restore", "queued score never delivered to the player who earned it",
                         "%s: player %d earned %d queued points (score_queue sq_pts) in earlier balls which have not "
                         "arrived when his next ball starts" % (where, num, self.sq_due[num]))
            return
        for q in sorted(self.dev["sq"]):
            if self.dev["sq"][q][0] > 0:
                self.bad("restore", "queued score never delivered to the player who earned it",
                         "%s: player %d earned %d queued points (score_queue sq_pts) which never arrived"
                         % (where, q, self.dev["sq"][q][0]))

    def check_restart_on_next_ball(self):
        """restart_on_next_ball is tracked per player: m2 runs in this ball iff it ran when *this* player's last ball ended."""
        curp = self.cur_pnum()
        g = self.m.game
        if curp is None or g is None:
            return
        lst = g.player.vars.get("restart_modes_on_next_ball")
        if lst:
            self.bad("restore", "restart_modes_on_next_ball not consumed", "player %d starts a ball with %r pending" % (curp, lst))
        if self.m2_touch.get(curp, 0) != 0 or self.end_m2.get(curp, False) is None:
            return      # R-m2-window: m2 was started/stopped by hand around the ball change, or it was mid-transition
        ended_running = self.end_m2.get(curp, False)      # a player without an earlier ball has nothing to restart
        expect = bool(self.cfg["m2_restart"] and ended_running)
        actual = self.dev["attached"]["m2"] == curp
        if expect != actual:
            self.bad("restore", "m2 restart_on_next_ball follows another player's history",
                     "player %d's ball started with m2 %s, but m2 was %s when this player's previous ball ended "
                     "(restart_on_next_ball=%r)" % (curp, "running" if actual else "not running",
                                                    "running" if ended_running else "not running", self.cfg["m2_restart"]))

    # ------------------------------------------------------------------ progress bookkeeping (probes only)
    def progress_of(self, num):
        if num is None or num not in self.players:
            return None
        ps = self.players[num]
        out = []
        for k in sorted(ps["lbs"]):
            st = ps["lbs"][k]
            if st[0] != M.lb_start_value(k) or st[2]:
                out.append(k)
        for n in M.SHOT_ORDER:
            if ps["vars"].get("shot_" + n, 0):
                out.append(n)
        return tuple(out)

    def note_progress(self):
        num = self.cur_pnum()
        if num is not None:
            self.progress_by_player[num] = self.progress_of(num)

    # ------------------------------------------------------------------ operations
    def stim(self, name):
        if name.startswith("sw:"):
            self.sim.hit_switch(name[3:], 1)
            self.sim.hit_switch(name[3:], 0)
        else:
            self.sim.post(name)

    def schedule_next(self):
        ops = self.plan["ops"]
        if self.idx >= len(ops) or self.tainted:
            self.done = True
            return
        w = ops[self.idx]["when"]
        now = self.sim.now
        if w[0] == "rel":
            t = now + w[1]
        else:
            times = [x for x in self.sim.loop.pending_timer_times() if x > now + 1e-9 and x < now + 3.0]
            if times:
                d = times[w[1] % len(times)]
                t = max(now, d + w[2])
                if w[2] == 0.0:
                    self.ctx.probe("op_on_timer_deadline")
            else:
                t = now + 0.05
        self.sim.at(t, self.run_op)

    def run_op(self):
        if self.tainted:
            self.done = True
            return
        op = self.plan["ops"][self.idx]
        self.idx += 1
        kind = op["op"]
        self.ctx.log("op", kind, op.get("name") or op.get("hook"), t=self.sim.now)
        if kind == "ev":
            self.stim(op["name"])
        elif kind == "drain":
            self.sim.post("ball_drain", balls=1)
        elif kind == "start":
            if self.m.game is None:
                self.sim.post("start_my_game")
        elif kind == "add_player":
            self.sim.post("add_my_player")
        elif kind == "end_game":
            self.sim.post("end_game")
        elif kind == "arm":
            self.armed.append({"hook": op["hook"], "prio": op["prio"], "events": list(op["events"])})
        self.schedule_next()


def _split_q(canon):
    """Take the m2 achievements out of a canonical player dict (in place); return them."""
    a = canon.get("achievements")
    if not a or a[0] != "ach":
        return ()
    canon["achievements"] = ("ach", tuple(e for e in a[1] if e[0] not in M.Q_ACH))
    return tuple(e for e in a[1] if e[0] in M.Q_ACH)


class _Null:
    def append(self, x):
        pass


_MISSING = object()


def canon_actual(p):
    """Canonical, comparable copy of a real Player's variables (same shape as M.canon_shadow)."""
    out = {}
    for k, v in p.vars.items():
        if k == "restart_modes_on_next_ball":
            continue            # checked at stable points only (list of Mode objects)
        if k == "achievements":
            if isinstance(v, dict):
                out[k] = ("ach", tuple(sorted((n, a[0], bool(a[1])) for n, a in v.items())))
            else:
                out[k] = ("?", repr(v))
        elif hasattr(v, "completed") and hasattr(v, "enabled"):
            out[k] = ("lb", M.canon_value(v.value), bool(v.enabled), bool(v.completed))
        elif isinstance(v, (int, float, str, list)):
            out[k] = M.canon_value(v)
        else:
            out[k] = ("?", repr(v))
    return out
