"""C20 - Credits: balance follows the pricing table and stays within bounds.

SUT: the real credits mode (mpf/modes/credits/code/credits.py) in a device-less fake game
(attract + game modes, no ball devices), real machine variables, settings controller, switch
controller, event bus, delay manager; in-memory data managers ("earnings", "machine_vars").

One run = one configuration (price, coin values, 1-3 pricing tiers, max_credits, expiry times,
persist time, free play, balls/players) + one history of coins, service credits, credit events,
start presses, drains, game ends, hours passing, free-play toggles, slam tilts, resets, reboots.
Operations are loop timers (sim.at): they race with MPF's own expiry timers, several operations
can land in one loop iteration ("tie"), and loop stalls batch them.

Oracle: a reference ledger in *credits* (exact Fractions, derived from money: coin value / price),
driven by what the SUT processed.  Every change of the machine variable `credit_units` is observed
synchronously and must be explained by exactly one cause:
  coin / service credit / credit event (bracketed by the harness), player_added (bracketed by two
  observer handlers around the credits handler), slam tilt / credits_reset, or - outside any bracket -
  an expiry that was due.
"""
import math
from fractions import Fraction as F

from sim.harness import draw_knobs, Discard   # noqa: F401

ID = "C20"
LEVEL = "exploration"
RUNS = {"quick": 2000, "thorough": 100000}
WALL_CAP = {"quick": 80, "thorough": 900}
RULE = ("one case = one credits configuration (price, 1-3 coin switches with values/audit classes, 1-3 pricing "
        "tiers - quarter based, 'odd' or dime/nickel based with prices like .30/.60/.70/.15/.35 whose float quotients "
        "are inexact -, max_credits, full/fractional expiry, persist time, free play at boot, balls per game, max "
        "players, optionally a handler that holds the player_adding queue and releases it 0/50/1000 ms later, "
        "alone or together with a start press before/after the release in the same callback) "
        "x one generated history of 6-45 operations (coins, coin bursts, service credits, credit events, start "
        "presses, double presses, drains, game ends, waits of ms..hours, toggle/enable free/credit play, slam tilt, "
        "credits/earnings reset, reboot after an off time) executed on the real credits/game/attract modes under a "
        "seeded scheduler (loop stalls, same-instant tie permutations, several operations in one loop iteration, "
        "operations placed exactly on a pending expiry deadline +-1ms); non-trivial = reached at least one reach "
        "probe; distinct = distinct sequence of observed event kinds")
PROBES = ["coin_credited", "coin_at_cap", "coin_crosses_cap", "tier_bonus", "tier_wrap", "tier_ambiguous",
          "fractional_balance", "service_credit", "award_credit", "start_accepted", "start_denied",
          "player_add_accepted", "player_add_denied", "player_deducted", "second_player", "game_ended",
          "expiry_full", "expiry_frac", "op_on_expiry_deadline", "coin_ties_with_expiry", "redundant_enable_credit",
          "redundant_enable_free", "toggle_to_free", "toggle_to_credit", "coin_in_free_play", "free_game",
          "slam_tilt", "credits_reset", "earnings_reset", "reboot_kept", "reboot_dropped", "ops_same_iteration",
          "start_pair_same_iteration", "expiry_during_game", "coin_during_game", "boot_free_then_credit",
          "game_without_player", "player_adding_held", "start_while_adding_released", "decimal_config",
          "inexact_float_quotient"]
REAL = ["mpf.modes.credits.code.credits.Credits", "mpf.modes.game.code.game.Game", "mpf.modes.attract.code.attract.Attract",
        "mpf.core.machine_vars.MachineVariables", "mpf.core.settings_controller.SettingsController",
        "mpf.core.switch_controller.SwitchController", "mpf.core.events.EventManager", "mpf.core.delays.DelayManager",
        "mpf.core.mode_controller.ModeController", "mpf.core.ball_controller.BallController (start gate)",
        "MachineController boot"]
STUBS = ["event loop (SimLoop: virtual time, stalls, tie order)", "clock (SimClock, wall clock continues across reboots)",
         "virtual hardware platform", "in-memory data managers (earnings, machine_vars) carried across reboots",
         "playfield.add_ball (no ball devices: fake game as in MpfFakeGameTestCase)"]
ASSUMPTIONS = ["call_soon FIFO order is kept (asyncio guarantees it)",
               "time does not advance inside one loop iteration; lateness only through injected stalls",
               "switch handlers run synchronously inside process_switch (true for handlers without ms)",
               "amounts are decimals with at most 2 places; the reference ledger uses the exact decimal "
               "(Fraction of the config string), never the float; audit sums are compared within 1e-6"]
STATE_ABSTRACTION = "(balance bucket, free play, game active, players, last op kind)"
TECHNIQUE = "deterministic simulation, config swarm, reference ledger in exact fractions"

def money(x):
    """A float sum of money as kept by the SUT's audits, without binary noise (0.30000000000000004 -> 3/10)."""
    return F(x).limit_denominator(100000)


def D(x):
    """Exact value of a configured amount: the decimal the operator wrote (0.3 is 3/10, not the float)."""
    return F(str(x))


COIN_SW = ["s_left_coin", "s_center_coin", "s_right_coin"]
SETTING_PRICES = [0.25, 0.5, 0.75, 1.0, 2.0]
TOL = 1e-6

REL_DT = [(0.0, 5), (0.001, 1), (0.05, 3), (1.0, 3), (30.0, 1), (600.0, 1), (899.0, 0.5), (900.0, 0.7), (901.0, 0.5),
          (3600.0, 1), (7199.0, 0.5), (7200.0, 0.7), (7201.0, 0.5), (10000.0, 0.5)]


# ----------------------------------------------------------------------------------------------
# plan


def _gen_cfg_decimal(ch):
    """Dime / nickel based configurations: prices and tier prices whose float quotient by the unit is inexact."""
    nickel = ch.flag("cfg.nickel", 0.35)
    if nickel:
        cents = ch.pick("cfg.dprice", [15, 35, 30, 60, 70, 45, 55, 25, 120])
        coinset = [5, 10, 25, 50, 100]
        first = 5
    else:
        cents = ch.pick("cfg.dprice", [30, 60, 70, 120, 20, 40, 90, 140, 50])
        coinset = [10, 20, 50, 100, 200]
        first = ch.weighted("cfg.dcoin0", [(10, 4), (20, 1)])
    ncoin = 1 + ch.weighted("cfg.ncoin", [(2, 3), (1, 2), (0, 1)])
    coins = []
    for i in range(ncoin):
        v = first if i == 0 else ch.pick("cfg.coinval", coinset)
        coins.append({"sw": COIN_SW[i], "value": v / 100.0,
                      "type": ch.weighted("cfg.cointype", [("money", 3), ("token", 1)]),
                      "label": ch.weighted("cfg.label", [(None, 2), ("Slot %d" % i, 1), ("Door", 1)])})
    tiers = [[cents / 100.0, 1]]
    ntier = ch.weighted("cfg.ntier", [(2, 4), (1, 3), (3, 2)])
    if ntier >= 2:
        k = ch.pick("cfg.t2k", [2, 3, 4, 5, 8])
        c2 = k + ch.weighted("cfg.t2bonus", [(1, 3), (0, 1), (2, 1)])
        p2 = cents * k
        tiers.append([p2 / 100.0, c2])
        if ntier >= 3:
            k3 = ch.pick("cfg.t3k", [2, 3])
            p3 = p2 * k3
            c3 = c2 * k3 + ch.weighted("cfg.t3bonus", [(1, 3), (0, 1), (3, 1)])
            tiers.append([p3 / 100.0, c3])
    return cents / 100.0, coins, tiers


def _gen_cfg(ch):
    cfg = _gen_cfg_inner(ch)
    # a handler holds the player_adding queue event (a mode that plays an intro for every new player);
    # it is released after hold_dt, optionally together with a start press in the same callback
    cfg["hold"] = ch.weighted("cfg.hold", [("none", 5), ("added", 3), ("all", 1)])
    cfg["hold_dt"] = ch.weighted("cfg.hold_dt", [(0.0, 2), (0.05, 2), (1.0, 1)])
    cfg["release_press"] = ch.weighted("cfg.release_press", [("after", 3), ("none", 2), ("before", 1)])
    return cfg


def _gen_cfg_inner(ch):
    decimal = ch.flag("cfg.decimal", 0.25)
    odd = (not decimal) and ch.flag("cfg.odd", 0.05)
    if decimal:
        price, coins, tiers = _gen_cfg_decimal(ch)
    elif odd:
        price = ch.pick("cfg.price_odd", [1.25, 2.5, 2.0, 0.75, 5.0, 1.5])
        vals = [0.5, 1.0, 2.0, 5.0]
    else:
        price = ch.weighted("cfg.price", [(0.5, 4), (0.25, 2), (0.75, 2), (1.0, 2), (2.0, 1)])
        vals = [0.25, 0.5, 1.0, 2.0]
    ncoin = 0 if decimal else 1 + ch.weighted("cfg.ncoin", [(2, 3), (1, 2), (0, 1)])
    coins = coins if decimal else []
    for i in range(ncoin):
        if i == 0 and not odd:
            v = ch.weighted("cfg.coin0", [(0.25, 4), (0.5, 2), (1.0, 2), (2.0, 0.5)])
        else:
            v = ch.pick("cfg.coinval", vals)
        coins.append({"sw": COIN_SW[i], "value": v,
                      "type": ch.weighted("cfg.cointype", [("money", 3), ("token", 1)]),
                      "label": ch.weighted("cfg.label", [(None, 2), ("Slot %d" % i, 1), ("Door", 1)])})
    if not decimal:
        tiers = [[price, 1]]
    ntier = 0 if decimal else ch.weighted("cfg.ntier", [(1, 4), (2, 4), (3, 2)])
    if ntier >= 2:
        p2 = price * ch.pick("cfg.t2k", [2, 3, 4, 5, 8])
        if ch.flag("cfg.t2round", 0.3):
            cand = [x for x in (1.0, 2.0, 3.0, 5.0) if x > price]
            if cand:
                p2 = ch.pick("cfg.t2r", cand)
        c2 = int(math.ceil(p2 / price - 1e-9)) + ch.weighted("cfg.t2bonus", [(1, 3), (0, 1), (2, 1)])
        tiers.append([p2, c2])
        if ntier >= 3:
            p3 = p2 * ch.pick("cfg.t3k", [2, 3])
            c3 = int(math.ceil(p3 * c2 / p2 - 1e-9)) + ch.weighted("cfg.t3bonus", [(1, 3), (0, 1), (3, 1)])
            tiers.append([p3, c3])
    cfg = {
        "price": price, "coins": coins, "tiers": tiers,
        "max_credits": ch.weighted("cfg.max", [(0, 2), (2, 2), (3, 2), (5, 2), (12, 2), (30, 1)]),
        "exp_full_ms": ch.weighted("cfg.full", [(0, 3), (7200000, 2), (30000, 2), (600000, 1)]),
        "exp_frac_ms": ch.weighted("cfg.frac", [(0, 3), (900000, 2), (10000, 2)]),
        "persist_secs": ch.weighted("cfg.persist", [(3600, 3), (0, 1), (60, 1)]),
        "free_play": ch.flag("cfg.free", 0.12),
        "balls_per_game": ch.pick("cfg.balls", [1, 2, 3]),
        "max_players": ch.pick("cfg.players", [4, 1, 2]),
        "price_setting": (price in SETTING_PRICES) and ch.flag("cfg.psetting", 0.2),
        "service": ch.flag("cfg.service", 0.8),
    }
    return cfg


def _gen_when(ch, cfg, first):
    kinds = [("rel", 6), ("tie", 1.6 if not first else 0)]
    if cfg["exp_full_ms"]:
        kinds.append(("full", 1.2))
    if cfg["exp_frac_ms"]:
        kinds.append(("frac", 1.2))
    k = ch.weighted("when", kinds)
    if k == "rel":
        return ["rel", ch.weighted("dt", REL_DT)]
    if k == "tie":
        return ["tie"]
    return [k, ch.weighted("dl_delta", [(0.0, 4), (-0.001, 1), (0.001, 1), (-1.0, 0.5), (1.0, 0.5)])]


def plan(ch, tier):
    knobs = draw_knobs(ch)
    cfg = _gen_cfg(ch)
    ncoin = len(cfg["coins"])
    n = 6 + ch.choice("nops", 40)
    # per-run op weights (swarm): some runs are coin heavy, some game heavy, some toggle heavy
    flavour = ch.weighted("flavour", [("mixed", 4), ("coins", 2), ("games", 2), ("toggles", 1.5)])
    wt = {"coin": 10, "burst": 1.5, "start": 4, "start2": 0.7, "service": 1.2, "award": 1.5, "drain": 3,
          "end_game": 1, "toggle": 0.8, "enable_credit": 0.8, "enable_free": 0.5, "slam": 0.4,
          "credits_reset": 0.3, "earnings_reset": 0.2, "reboot": 0.35, "wait": 1.0}
    if flavour == "coins":
        wt.update(coin=20, burst=4, start=2, drain=1)
    elif flavour == "games":
        wt.update(start=9, drain=7, end_game=2, start2=1.5)
    elif flavour == "toggles":
        wt.update(toggle=3, enable_credit=3.5, enable_free=2, coin=8)
    if not cfg["service"]:
        wt["service"] = 0
    pairs = [(k, wt[k]) for k in ("coin", "burst", "start", "start2", "service", "award", "drain", "end_game",
                                  "toggle", "enable_credit", "enable_free", "slam", "credits_reset",
                                  "earnings_reset", "reboot", "wait")]
    half_ok = _half_award_ok(cfg)
    ops = []
    for i in range(n):
        kind = ch.weighted("op", pairs)
        op = {"op": kind, "when": _gen_when(ch, cfg, i == 0)}
        if kind in ("coin", "burst"):
            op["coin"] = ch.choice("coin", ncoin)
            if kind == "burst":
                op["n"] = 2 + ch.choice("burst_n", 5)
        elif kind == "award":
            vals = [1, 1, 2, 3] + ([0.5] if half_ok else [])
            op["n"] = ch.pick("award_n", vals)
            op["ev"] = "c20_award" if op["n"] == 1 and ch.flag("award_plain", 0.5) else "c20_award_n"
        elif kind == "reboot":
            op["off"] = ch.weighted("off", [(10.0, 3), (59.0, 1), (61.0, 1), (1800.0, 2), (3599.0, 1), (3601.0, 1),
                                            (100000.0, 1)])
        elif kind == "wait":
            op["when"] = ["rel", ch.weighted("dt", REL_DT)]
        if kind == "reboot" and op["when"][0] == "tie":
            op["when"] = ["rel", 0.05]
        ops.append(op)
    return {"knobs": knobs, "cfg": cfg, "ops": ops}


def _gcd_unit(cfg):
    vals = [D(cfg["price"])] + [D(c["value"]) for c in cfg["coins"]] + [D(t[0]) for t in cfg["tiers"]]
    den = 1
    for v in vals:
        den = den * v.denominator // math.gcd(den, v.denominator)
    g = 0
    for v in vals:
        g = math.gcd(g, int(v * den))
    return F(g, den)


def _half_award_ok(cfg):
    q = D(cfg["price"]) / _gcd_unit(cfg)
    return q.denominator == 1 and int(q) % 2 == 0


def shrink(plan):
    cfg = plan["cfg"]
    out = []

    def with_cfg(**kw):
        c = dict(cfg)
        c.update(kw)
        p = dict(plan)
        p["cfg"] = c
        return p
    if len(cfg["tiers"]) > 1:
        out.append(with_cfg(tiers=cfg["tiers"][:-1]))
    if len(cfg["coins"]) > 1 and not any(o.get("coin", 0) >= len(cfg["coins"]) - 1 for o in plan["ops"]):
        out.append(with_cfg(coins=cfg["coins"][:-1]))
    for key, val in (("exp_full_ms", 0), ("exp_frac_ms", 0), ("max_credits", 0), ("free_play", False),
                     ("price_setting", False), ("balls_per_game", 1)):
        if cfg[key] != val:
            out.append(with_cfg(**{key: val}))
    for i, op in enumerate(plan["ops"]):
        if op["when"] != ["rel", 0.05]:
            ops = list(plan["ops"])
            o = dict(op)
            o["when"] = ["rel", 0.05]
            ops[i] = o
            p = dict(plan)
            p["ops"] = ops
            out.append(p)
        if op["op"] == "burst":
            ops = list(plan["ops"])
            o = dict(op)
            o["op"] = "coin"
            ops[i] = o
            p = dict(plan)
            p["ops"] = ops
            out.append(p)
    return out


def warm():
    from sim.machine import preload
    preload("c20")


def on_crash(ctx, crash):
    """MPF must not die on a coin / start / toggle: an exception out of the credits code is a violation."""
    import traceback
    exc = crash.exc
    if exc is None:
        return None
    tb = "".join(traceback.format_exception(type(exc), exc, exc.__traceback__))
    if "modes/credits/code/credits.py" in tb:
        cause = exc
        while getattr(cause, "__cause__", None) is not None:
            cause = cause.__cause__
        return ("credits_crash", type(cause).__name__,
                "exception out of the credits mode stops MPF: %r (last op: %s)" % (cause, ctx.info.get("last_op")))
    return None


# ----------------------------------------------------------------------------------------------
# reference ledger


class Ledger:
    """Balance in credits (exact), tier progress candidates, expiry deadline candidates, audits."""

    def __init__(self, cfg):
        self.P = D(cfg["price"])
        self.tiers = [(D(p), int(c)) for p, c in cfg["tiers"]]
        self.top = self.tiers[-1][0]
        self.M = int(cfg["max_credits"])
        self.T = {"full": cfg["exp_full_ms"] / 1000.0, "frac": cfg["exp_frac_ms"] / 1000.0}
        self.B = F(0)
        self.free = bool(cfg["free_play"])
        self.S = {F(0)}                 # admissible "money counted towards tiers" values
        self.dl = {"full": {None}, "frac": {None}}   # admissible expiry deadlines (None = no timer)
        self.game_active = False
        self.coin_audit = {}            # key -> [count, value]
        self.awards = {}                # key -> int
        self.paid = 0

    def f(self, m):
        """Credits the pricing table yields for money m inserted in one go (greedy from the best tier)."""
        total = F(0)
        rem = F(m)
        for price, cr in reversed(self.tiers[1:]):
            while rem >= price:
                rem -= price
                total += cr
        return total + rem / self.P

    def clamp(self, b):
        if self.M and b > self.M:
            return F(self.M)
        return b

    def coin_outcomes(self, v):
        """{progress candidate -> (new balance, new progress)}"""
        out = {}
        for p in self.S:
            g = self.f(p + v) - self.f(p)
            out[p] = (self.clamp(self.B + g), (p + v) % self.top, g)
        return out


# ----------------------------------------------------------------------------------------------
# execution


class World:

    def __init__(self, ctx, plan):
        self.ctx = ctx
        self.plan = plan
        self.cfg = plan["cfg"]
        self.L = Ledger(self.cfg)
        self.ops = plan["ops"]
        self.idx = 0
        self.done = False
        self.outstanding = 0
        self.reboot_req = None
        self.cause = []          # stack of open brackets: [kind, info, [changes]]
        self.req = None
        self.sim = None
        self.boot_t = 0.0
        self.last_change_t = 0.0
        self.next_t = 0.0
        self.iter_mark = (-1, None)
        self.players = 0
        self.ever_free_boot = False
        self.persist_expiry_lost = False
        self.disk = {}
        self.abort_reason = None
        self.last_upg = 0
        self.approvals = []      # grants of player_add_request not yet bound to a player object
        self.bound = []          # (player object, grant) of adds in flight

    # -- configuration ------------------------------------------------------------------------
    def patches(self):
        cfg = self.cfg
        tiers = [{"price": p, "credits": c} for p, c in cfg["tiers"]]
        p = {}
        if cfg["price_setting"]:
            tiers[0]["price"] = "settings.c20_price"
            p["settings"] = {"c20_price": {"default": cfg["price"]}}
        sw = []
        for c in cfg["coins"]:
            d = {"switch": c["sw"], "value": c["value"], "type": c["type"]}
            if c["label"]:
                d["label"] = c["label"]
            sw.append(d)
        p["credits"] = {
            "max_credits": cfg["max_credits"], "free_play": cfg["free_play"], "switches": sw,
            "pricing_tiers": tiers, "fractional_credit_expiration_time": cfg["exp_frac_ms"],
            "credit_expiration_time": cfg["exp_full_ms"], "persist_credits_while_off_time": cfg["persist_secs"],
            "service_credits_switch": "s_esc" if cfg["service"] else None,
        }
        p["game"] = {"balls_per_game": cfg["balls_per_game"], "max_players": cfg["max_players"]}
        return p

    # -- SUT access -----------------------------------------------------------------------------
    def units(self):
        u = self.m.variables.get_machine_var("credit_units")
        return u if u else 0

    def upg(self):
        """Units per game of the SUT.  After a boot in free play the SUT has not calculated it yet: the
        balance it carries was written with the value of the previous boot."""
        u = self.cr.credit_units_per_game
        if u:
            self.last_upg = u
            return u
        return self.last_upg

    def sut_free(self):
        return bool(self.m.settings.get_setting_value("free_play"))

    def sut_balance(self):
        return F(self.units(), self.upg())

    def V(self, rule, sig, msg):
        """Report; on a known finding resynchronise the ledger with the SUT."""
        if self.abort_reason:
            return
        self.ctx.log("violation", rule, sig, t=self.sim.now)
        self.ctx.violation(rule, sig, msg)
        self.resync()

    def resync(self):
        if self.upg():
            self.L.B = self.sut_balance()
        self.L.free = self.sut_free()
        for key in list(self.L.coin_audit):
            self.L.coin_audit[key] = self.read_audit(key)
        self.L.S = {s for s in self.L.S} | {F(0)}

    # -- boot -----------------------------------------------------------------------------------
    def boot(self, mock_data=None, start_time=0.0):
        from sim.tap import EventLog
        ctx = self.ctx
        self.sim = sim = ctx.new_sim("c20", patches=self.patches(), mock_data=mock_data or {}, start_time=start_time)
        sim.boot()
        self.m = m = sim.machine
        self.cr = cr = m.modes["credits"]
        self.loop = sim.loop
        self.boot_t = sim.now
        self.last_change_t = sim.now
        self.cause = []
        self.req = None
        m.playfield.add_ball = lambda **kw: None
        m.ball_controller.num_balls_known = 3
        watch = {"machine_var_credit_units", "not_enough_credits", "credits_added", "max_credits_reached",
                 "enabling_free_play", "enabling_credit_play", "game_start", "game_started", "game_ended"}
        self.evlog = EventLog(sim, want=lambda n: n in watch, ctx=ctx)
        self.evlog.listeners.append(self.on_posted)
        hi = cr.priority + 1
        lo = cr.priority - 1
        ev = m.events
        ev.add_handler("player_added", self.h_pre, priority=hi, _k="player_added")
        ev.add_handler("player_added", self.h_post, priority=lo, _k="player_added")
        for name in ("player_add_request", "request_to_start_game"):
            ev.add_handler(name, self.h_req_pre, priority=hi, _k=name)
            ev.add_handler(name, self.h_req_post, priority=lo, _k=name)
        for name in ("c20_award", "c20_award_n", "slam_tilt", "credits_reset", "earnings_reset",
                     "toggle_credit_play", "enable_free_play", "enable_credit_play"):
            ev.add_handler(name, self.h_pre, priority=hi, _k=name)
            ev.add_handler(name, self.h_post, priority=0, _k=name)
        ev.add_handler("mode_game_started", self.h_game_started, priority=hi)
        ev.add_handler("mode_game_stopped", self.h_game_stopped, priority=lo)
        ev.add_handler("ball_starting", self.h_ball_starting, priority=hi)
        self.held = []
        self.approvals = []
        self.bound = []
        ev.add_handler("player_adding", self.h_adding_bind, priority=hi)
        if self.cfg.get("hold", "none") != "none":
            ev.add_handler("player_adding", self.h_hold_adding, priority=1)
        ctx.log("boot", self.units(), self.upg(), self.sut_free(), t=sim.now)
        amounts = [self.L.P] + [tp for tp, _ in self.L.tiers] + [D(c["value"]) for c in self.cfg["coins"]]
        if any(a.denominator not in (1, 2, 4) for a in amounts):
            ctx.probe("decimal_config")
            g = _gcd_unit(self.cfg)
            if any(float(a) / float(g) != a / g for a in amounts):
                ctx.probe("inexact_float_quotient")
        if not self.sut_free():
            self.check_units_sane("boot")
        else:
            self.ever_free_boot = True
            # nothing re-arms the expiry of the persisted credit_units variable in this session
            # (enable_credit_play is not called): see known finding C20-persist-expiry-lost
            self.persist_expiry_lost = True

    def check_units_sane(self, where):
        """The unit conversion must preserve money: units_per_game * credit_unit == price, every coin
        value and tier price a whole number of units."""
        cr = self.cr
        L = self.L
        unit = cr.credit_unit
        upg = cr.credit_units_per_game
        if not unit or not upg:
            self.V("unit_conversion", "zero units after %s" % ("boot" if where == "boot" else "enabling credit play"),
                   "credit play is active (%s) but credit_unit=%r credit_units_per_game=%r: price %s is not charged and "
                   "a coin divides by zero" % (where, unit, upg, L.P))
            return self._abort(where, "cannot continue without units")
        if D(unit) * upg != L.P:
            self.V("unit_conversion", "price not a whole number of units",
                   "price %s but credit_unit=%s x units_per_game=%s = %s (coins %s)"
                   % (L.P, unit, upg, D(unit) * upg, [c["value"] for c in self.cfg["coins"]]))
            return self._abort(where, "units wrong")
        for c in self.cfg["coins"]:
            if (D(c["value"]) / D(unit)).denominator != 1:
                self.V("unit_conversion", "coin not a whole number of units",
                       "coin %s is not a multiple of credit_unit %s (price %s, coins %s)"
                       % (c["value"], unit, L.P, [x["value"] for x in self.cfg["coins"]]))
                return self._abort(where, "units wrong")
        for p, _ in L.tiers:
            if (p / D(unit)).denominator != 1:
                self.V("unit_conversion", "tier price not a whole number of units",
                       "tier price %s is not a multiple of credit_unit %s" % (p, unit))
                return self._abort(where, "units wrong")
        if len(L.tiers) > 1:
            # the table the SUT adds bonuses from must be the pricing table of the config, in units
            u = D(unit)
            wrap = int(L.top / u)
            exp = {}
            prev = F(0)
            for k in range(wrap + 1):
                bonus = L.f(k * u) * upg - k
                exp[k] = int(bonus - prev)
                prev = bonus
            got = dict(cr.pricing_table)
            if got != exp or cr.pricing_tiers_wrap_around != wrap:
                trunc = any(int(float(tp) / unit) != tp / u for tp, _ in L.tiers)
                self.V("pricing_table", "tier price truncated by float division" if trunc else "table differs",
                       "pricing tiers %s with credit_unit %s: bonus table %s (wrap %s), the config says %s (wrap %s)"
                       % (self.cfg["tiers"], unit, {k: v for k, v in sorted(got.items()) if v},
                          cr.pricing_tiers_wrap_around, {k: v for k, v in sorted(exp.items()) if v}, wrap))
                return self._abort(where, "pricing table wrong")

    def _abort(self, where, reason):
        """The case cannot be evaluated any further (only reached after a *known* finding was reported).
        Inside an event handler nothing may be raised: the driver discards the run after the loop returns."""
        if where == "boot":
            raise Discard(reason)
        self.abort_reason = reason
        self.done = True

    # -- observers --------------------------------------------------------------------------------
    def on_posted(self, t, name, kw):
        if name == "machine_var_credit_units":
            self.on_units(kw.get("prev_value"), kw.get("value"), t)
        elif name == "not_enough_credits":
            r = self.req
            if r is not None:
                r["denied"] = True
                self.ctx.probe("start_denied" if r["kind"] == "request_to_start_game" else "player_add_denied")
                if r["expect"]:
                    self.V("denied_with_price", r["kind"],
                           "%s denied although %s (balance %s credits)" %
                           (r["kind"], "free play" if self.L.free else "a full price is available", self.L.B))

    def on_units(self, prev, new, t):
        ctx = self.ctx
        L = self.L
        upg = self.upg()
        ctx.log("units", prev, new, self.cause[-1][0] if self.cause else "spontaneous", t=t)
        self.last_change_t = t
        if prev is None:
            prev = 0
        if new is None or new < 0:
            self.V("bounds", "negative", "credit_units became %r" % (new,))
            return
        if L.M and upg and new > L.M * upg:
            self.V("bounds", "above max_credits",
                   "credit_units %s -> %s exceeds max_credits %d x %d units per game = %d (cause: %s)"
                   % (prev, new, L.M, upg, L.M * upg, self.cause[-1][0] if self.cause else "spontaneous"))
        if self.cause:
            self.cause[-1][2].append((prev, new))
            return
        # no operation is being processed: only an expiry can explain this
        if not upg:
            return
        b_new = F(new, upg)
        ok = False
        for kind in ("full", "frac"):
            if not L.T[kind]:
                continue
            target = F(0) if kind == "full" else F(math.floor(L.B))
            if b_new != target or b_new == L.B:
                continue
            fits = [c for c in L.dl[kind] if c is not None and self.sim.late_ok(c, t, TOL)]
            if fits:
                ok = True
                L.dl[kind] = {None}
                ctx.probe("expiry_" + kind)
                if L.game_active:
                    ctx.probe("expiry_during_game")   # relaxation: the statement does not say when expiries happen
                if kind == "full":
                    L.S = L.S | {F(0)}
                    self.note_clear()
        if not ok:
            self.V("unexplained_change", "spontaneous",
                   "credit_units changed %s -> %s at %.6f outside any operation; balance was %s credits, expiry "
                   "deadlines full=%s frac=%s" % (prev, new, t, L.B, sorted_dl(L.dl["full"]), sorted_dl(L.dl["frac"])))
        L.B = b_new

    def pending_approvals(self):
        return self.approvals + [a for _, a in self.bound]

    def note_clear(self):
        for a in self.pending_approvals():
            a["cleared"] = True
            a["gain"] = False

    def note_gain(self):
        for a in self.pending_approvals():
            if a["cleared"]:
                a["gain"] = True

    def h_adding_bind(self, player=None, **kwargs):
        """Observer: the game created the player for the request that was granted last; remember which grant
        belongs to which player (an add can be held for a long time, games can end and start meanwhile)."""
        appr = self.approvals.pop(0) if self.approvals else {"free": self.L.free, "cleared": False, "gain": False}
        self.bound.append((player, appr))

    def h_pre(self, _k=None, **kwargs):
        self.ctx.log("pre", _k, t=self.sim.now)
        self.cause.append([_k, dict((k, v) for k, v in kwargs.items() if k in ("n", "player")), [], self.units()])

    def h_post(self, _k=None, **kwargs):
        if not self.cause or self.cause[-1][0] != _k:
            raise AssertionError("bracket mismatch %r %r" % (_k, self.cause))
        frame = self.cause.pop()
        self.ctx.log("post", _k, self.units(), t=self.sim.now)
        getattr(self, "close_" + _k)(frame)

    def h_req_pre(self, _k=None, **kwargs):
        L = self.L
        self.req = {"kind": _k, "expect": L.free or L.B >= 1, "approved": False, "denied": False}
        self.ctx.log("req", _k, str(L.B), L.free, t=self.sim.now)

    def h_req_post(self, _k=None, **kwargs):
        r = self.req
        if r is None or r["kind"] != _k:
            raise AssertionError("request bracket mismatch")
        r["approved"] = True
        if _k == "player_add_request":
            self.approvals.append({"free": self.L.free, "cleared": False, "gain": False})
        self.ctx.probe("start_accepted" if _k == "request_to_start_game" else "player_add_accepted")
        if not r["expect"]:
            self.V("approved_without_price", _k,
                   "%s approved in credit play with only %s credits (price is 1 credit = %s)" % (_k, self.L.B, self.L.P))

    def h_game_started(self, **kwargs):
        L = self.L
        self.ctx.log("game_active", 1, t=self.sim.now)
        L.game_active = True
        self.players = 0
        # relaxation: the statement does not say whether expiry timers / the tier count survive a game start
        L.dl["full"] = L.dl["full"] | {None}
        L.dl["frac"] = L.dl["frac"] | {None}
        L.S = L.S | {F(0)}

    def h_game_stopped(self, **kwargs):
        L = self.L
        now = self.sim.now
        self.ctx.log("game_active", 0, t=now)
        self.ctx.probe("game_ended")
        L.game_active = False
        for kind in ("full", "frac"):
            if not L.T[kind]:
                L.dl[kind] = {None}
            elif L.free:
                # relaxation: nothing is promised about expiry timers while in free play
                L.dl[kind] = L.dl[kind] | {None, now + L.T[kind]}
            else:
                L.dl[kind] = {now + L.T[kind]}

    def h_hold_adding(self, queue=None, number=0, **kwargs):
        """Workload, not observer: some mode holds the player_adding queue (an intro for every new player)."""
        if queue is None or (self.cfg["hold"] == "added" and number < 2):
            return
        queue.wait()
        self.held.append(queue)
        self.ctx.probe("player_adding_held")
        self.ctx.log("hold_adding", number, t=self.sim.now)
        self.sim.after(self.cfg["hold_dt"], self.release_held, self.sim)

    def release_held(self, sim):
        if sim is not self.sim or not self.held:
            return
        queue = self.held.pop(0)
        how = self.cfg["release_press"]
        self.ctx.log("release_adding", how, str(self.L.B), t=self.sim.now)
        if how == "before":
            self.press_start()
        queue.clear()
        if how == "after":
            # the start button is pressed in the very moment the queue is released: the resumed queue task
            # posts player_added behind the pending sw_start
            self.ctx.probe("start_while_adding_released")
            self.press_start()

    def h_ball_starting(self, **kwargs):
        self.L.S = self.L.S | {F(0)}

    # -- bracket closers ----------------------------------------------------------------------------
    def expect_balance(self, allowed, rule, sig, what):
        """SUT balance must be one of `allowed` (Fractions); returns the observed balance."""
        upg = self.upg()
        if not upg:
            return self.L.B
        obs = self.sut_balance()
        if obs not in allowed:
            self.V(rule, sig, "%s: balance is %s credits (%s units), expected %s" %
                   (what, obs, self.units(), " or ".join(str(a) for a in sorted(allowed))))
            obs = self.sut_balance()
        return obs

    def close_player_added(self, frame):
        L = self.L
        player = frame[1].get("player")
        appr = None
        for i, (pl, a) in enumerate(self.bound):
            if pl is player:
                appr = a
                del self.bound[i]
                break
        if appr is None:
            appr = {"free": L.free, "cleared": False, "gain": False}
        game = self.m.game
        if game is None or not any(pl is player for pl in game.player_list):
            # player_added for a player who is in no running game (the add was held while the game ended):
            # nobody starts playing, so nothing may be charged ("one game price per player started")
            self.ctx.probe("added_after_game_over")
            paid = self.cr.earnings.get("3 Total Paid Games", 0)
            if self.upg() and (self.sut_balance() != L.B or paid != L.paid):
                self.V("charge_without_player", "player of a game that is over",
                       "player_added for a player whose game is over: balance %s -> %s credits, paid games audit "
                       "%s -> %s, no game is running for that player" % (L.B, self.sut_balance(), L.paid, paid))
                L.paid = paid
            return
        self.players += 1
        if self.players >= 2:
            self.ctx.probe("second_player")
        if appr["free"] and not L.free:
            # relaxation: the request was granted in free play and the operator switched to credit play
            # before the player was added: charged or not, both accepted
            self.ctx.probe("approved_free_added_credit")
            obs = self.expect_balance({L.B, max(L.B - 1, F(0))}, "deduction", "mode switch race", "player added")
            if obs != L.B or self.cr.earnings.get("3 Total Paid Games", 0) != L.paid:
                L.paid += 1
            L.B = obs
            self.check_paid()
            return
        if L.free:
            self.ctx.probe("free_game")
            L.B = self.expect_balance({L.B}, "deduction", "free play", "player added in free play")
            return
        self.ctx.probe("player_deducted")
        if L.B < 1 and appr["cleared"]:
            # relaxation: the request was granted with a full price available, then all credits were cleared
            # (slam tilt / reset / expiry) before the player was charged.  With nothing inserted since, the end
            # state equals "charge, then clear" (linearisable); money inserted after the clear is taken for the
            # player whose own credit was wiped - the statement does not order a clear against a granted request
            self.ctx.probe("cleared_between_approval_and_add")
            L.B = self.expect_balance({F(0)}, "deduction", "after clear", "player added after a clear")
            self.check_strings()
            L.paid += 1
            self.check_paid()
            return
        if L.B < 1:
            self.V("start_without_price", "player added below one credit",
                   "player %d added in credit play with only %s credits available" % (self.players, L.B))
            L.paid += 1
            return
        L.B = self.expect_balance({L.B - 1}, "deduction", "not exactly one game price", "player added")
        L.paid += 1
        self.check_paid()

    def close_award(self, frame, n):
        L = self.L
        n = F(n)
        now = self.sim.now
        key = ("c20_award", "award") if frame[0] == "c20_award" else ("c20_award_n", "replay")
        akey = "%s Awards" % key[1]
        if L.free:
            obs = self.expect_balance({L.B, L.clamp(L.B + n)}, "award_gain", "free play", "credit event in free play")
            credited = obs != L.B
        else:
            obs = self.expect_balance({L.clamp(L.B + n)}, "award_gain", "credit event", "credit event worth %s" % n)
            credited = True
            self.ctx.probe("award_credit")
        if credited or (L.free and self.read_award(akey) != L.awards.get(akey, 0)):
            L.awards[akey] = L.awards.get(akey, 0) + int(n)
            self.touch_deadlines(now, definite=False)
        if obs > L.B:
            self.note_gain()
        L.B = obs
        self.check_award(akey)

    def close_c20_award(self, frame):
        self.close_award(frame, 1)

    def close_c20_award_n(self, frame):
        self.close_award(frame, frame[1].get("n", 0))

    def close_clear(self, frame, probe):
        L = self.L
        self.ctx.probe(probe)
        allowed = {F(0)} | ({L.B} if L.free else set())
        L.B = self.expect_balance(allowed, "clear", probe, probe)
        L.S = L.S | {F(0)}
        self.note_clear()

    def close_slam_tilt(self, frame):
        self.close_clear(frame, "slam_tilt")

    def close_credits_reset(self, frame):
        self.close_clear(frame, "credits_reset")

    def close_earnings_reset(self, frame):
        L = self.L
        self.ctx.probe("earnings_reset")
        L.coin_audit = {}
        L.awards = {}
        L.paid = 0
        if self.cr.earnings:
            self.V("audit", "earnings_reset", "earnings not empty after earnings_reset: %r" % (self.cr.earnings,))
        L.B = self.expect_balance({L.B}, "unexplained_change", "earnings_reset", "earnings_reset")

    def close_toggle(self, frame, want_free):
        L = self.L
        was = L.free
        if want_free is None:
            want_free = not was
        if want_free and was:
            self.ctx.probe("redundant_enable_free")
        elif want_free:
            self.ctx.probe("toggle_to_free")
        elif was:
            self.ctx.probe("toggle_to_credit")
            if self.ever_free_boot:
                self.ctx.probe("boot_free_then_credit")
        else:
            self.ctx.probe("redundant_enable_credit")
        got = self.sut_free()
        if got != want_free:
            self.V("free_play_state", frame[0], "%s: free play is %r, expected %r" % (frame[0], got, want_free))
        L.free = got
        if not got:
            self.persist_expiry_lost = False      # enable_credit_play configured the variable again
            self.check_units_sane("toggle")
        # a toggle inserts no money and starts no player
        L.B = self.expect_balance({L.B}, "unexplained_change", "toggle", "%s must not change the balance" % frame[0])

    def close_toggle_credit_play(self, frame):
        self.close_toggle(frame, None)

    def close_enable_free_play(self, frame):
        self.close_toggle(frame, True)

    def close_enable_credit_play(self, frame):
        self.close_toggle(frame, False)

    # -- audits / strings ------------------------------------------------------------------------------
    def read_audit(self, key):
        e = self.cr.earnings
        typ, label = key
        if label is None:
            return [e.get("1 Total Coins " + typ, 0), money(e.get("2 Total Earnings " + typ, 0))]
        return [e.get("%s Coins %s" % (label, typ), 0), money(e.get("%s Earnings %s" % (label, typ), 0))]

    def read_award(self, akey):
        return self.cr.earnings.get(akey, 0)

    def check_award(self, akey):
        got = self.read_award(akey)
        if got != self.L.awards.get(akey, 0):
            self.V("audit", "award audit", "audit %r is %r, ledger says %r" % (akey, got, self.L.awards.get(akey, 0)))
            self.L.awards[akey] = got

    def check_paid(self):
        got = self.cr.earnings.get("3 Total Paid Games", 0)
        if got != self.L.paid:
            self.V("audit", "paid games", "audit '3 Total Paid Games' is %r, %d players were charged" % (got, self.L.paid))
            self.L.paid = got

    def check_coin_audits(self):
        for key in sorted(self.L.coin_audit, key=repr):
            exp = self.L.coin_audit[key]
            got = self.read_audit(key)
            if got[0] != exp[0] or got[1] != exp[1]:
                self.V("audit", "coin audit", "coin audit %r is count=%s value=%s, coins accepted: count=%s value=%s"
                       % (key, got[0], got[1], exp[0], exp[1]))
                self.L.coin_audit[key] = got

    def check_persisted_audits(self):
        dm = self.m.sim_data_managers.get("earnings")
        if dm is None or dm.written_data is None:
            return
        if dm.written_data != self.cr.earnings:
            self.V("audit", "persisted", "persisted earnings %r differ from live earnings %r"
                   % (dm.written_data, self.cr.earnings))

    def check_strings(self):
        L = self.L
        mv = self.m.variables.get_machine_var
        s = mv("credits_string")
        if self.sut_free():
            if s != "FREE PLAY":
                self.V("strings", "free play string", "free play but credits_string=%r" % (s,))
            return
        upg = self.upg()
        if not upg:
            return
        b = self.sut_balance()
        whole, num, den = mv("credits_whole_num"), mv("credits_numerator"), mv("credits_denominator")
        try:
            shown = F(whole) + (F(num, den) if den else F(0))
            proper = 0 <= num < max(den, 1)
        except (TypeError, ValueError, ZeroDivisionError):
            shown, proper = None, False
        if shown != b or not proper:
            self.V("strings", "parts", "credits_whole_num/numerator/denominator = %r %r/%r, balance is %s credits"
                   % (whole, num, den, b))
        if num:
            frac = "%s %s/%s" % (whole, num, den) if whole else "%s/%s" % (num, den)
        else:
            frac = str(whole)
        val = mv("credits_value")
        if val != frac or s != "CREDITS " + frac:
            self.V("strings", "text", "credits_string=%r credits_value=%r, expected 'CREDITS %s' for balance %s"
                   % (s, val, frac, b))

    def check_sync(self, where):
        if self.abort_reason:
            return
        upg = self.upg()
        if upg and self.sut_balance() != self.L.B:
            raise AssertionError("ledger lost track (%s): SUT %s, ledger %s" % (where, self.sut_balance(), self.L.B))

    def check_liveness(self, t_nom):
        """An expiry whose every admissible deadline lies before the (nominal) time of the operation that is
        being processed now must have happened: the loop runs timers in deadline order."""
        L = self.L
        # an expiry that found nothing to clear is invisible; it may still have restarted the tier count
        for kind in ("full", "frac"):
            if kind == "full" and any(c is not None and c <= t_nom + TOL for c in L.dl[kind]):
                L.S = L.S | {F(0)}     # (a timer due at this very instant may already have run: tie)
            has = L.B > 0 if kind == "full" else (L.B % 1) != 0
            if has:
                continue
            passed = {c for c in L.dl[kind] if c is not None and c < t_nom - TOL}
            if passed:
                L.dl[kind] = (L.dl[kind] - passed) | {None}
            if any(c is not None and abs(c - t_nom) <= TOL for c in L.dl[kind]):
                L.dl[kind] = L.dl[kind] | {None}       # tie: the timer has run already (nothing to clear) or runs next
        if L.game_active or L.free:
            return     # relaxation: nothing is promised about expiry during a game / in free play
        for kind in ("full", "frac"):
            if not L.T[kind] or None in L.dl[kind] or not L.dl[kind]:
                continue
            has = L.B > 0 if kind == "full" else (L.B % 1) != 0
            if has and t_nom > max(L.dl[kind]) + TOL:
                self.V("expiry_missed", kind,
                       "%s expiry was due at %s, it is %.6f (nominal), balance still %s credits"
                       % (kind, sorted_dl(L.dl[kind]), t_nom, L.B))
                L.dl[kind] = {None}

    def touch_deadlines(self, now, definite):
        L = self.L
        for kind in ("full", "frac"):
            if not L.T[kind]:
                continue
            d = now + L.T[kind]
            L.dl[kind] = {d} if definite else (L.dl[kind] | {d})

    # -- operations ----------------------------------------------------------------------------------------
    def hit_coin(self, i):
        ctx = self.ctx
        L = self.L
        sim = self.sim
        c = self.cfg["coins"][i]
        v = D(c["value"])
        now = sim.now
        keys = [(c["type"], None)] + ([(c["type"], c["label"])] if c["label"] else [])
        for k in keys:
            if k not in L.coin_audit:
                L.coin_audit[k] = self.read_audit(k)      # baseline (0, or what an earlier boot persisted)
        before_aud = {k: self.read_audit(k) for k in keys}
        self.cause.append(["coin", i, [], self.units()])
        sim.hit_switch(c["sw"], 1)
        frame = self.cause.pop()
        sim.hit_switch(c["sw"], 0)
        if L.game_active:
            ctx.probe("coin_during_game")
        outs = L.coin_outcomes(v)
        if len(L.S) > 1 and len({o[0] for o in outs.values()}) > 1:
            ctx.probe("tier_ambiguous")
        if L.free:
            ctx.probe("coin_in_free_play")
            obs = self.sut_balance() if self.upg() else L.B
            counted = self.read_audit(keys[0])[0] != before_aud[keys[0]][0]
            # relaxation: the statement speaks about credit play; in free play a coin is either ignored
            # completely or credited and audited like any coin
            if obs == L.B and not counted:
                return
            if not counted or obs not in {o[0] for o in outs.values()}:
                self.V("coin_gain", "free play", "coin %s in free play: balance %s -> %s, audited=%s" %
                       (v, L.B, obs, counted))
                return
        else:
            allowed = {o[0] for o in outs.values()}
            obs = self.sut_balance()
            if obs not in allowed:
                base = v / L.P
                sig = "wrong amount"
                if obs - L.B == 2 * base and base != 0:
                    sig = "coin counted twice"
                elif L.M and obs > L.M:
                    sig = "above max_credits"
                self.V("coin_gain", sig,
                       "coin %s (price %s, tiers %s, tier money so far %s): balance %s -> %s credits (%s -> %s units), "
                       "expected %s" % (v, L.P, self.cfg["tiers"], sorted(L.S), L.B, obs, frame[3], self.units(),
                                        " or ".join(str(a) for a in sorted(allowed))))
                obs = self.sut_balance()
                L.S = {(p + v) % L.top for p in L.S} | {F(0)}
            else:
                L.S = {o[1] for o in outs.values() if o[0] == obs}
                gains = [o[2] for o in outs.values() if o[0] == obs]
                if any(g > v / L.P for g in gains):
                    ctx.probe("tier_bonus")
                if any(p + v >= L.top for p in outs) and len(L.tiers) > 1:
                    ctx.probe("tier_wrap")
            if L.M and L.B == L.M:
                ctx.probe("coin_at_cap")
            elif L.M and obs == L.M and any(L.B + o[2] > L.M for o in outs.values()):
                ctx.probe("coin_crosses_cap")
            else:
                ctx.probe("coin_credited")
            if obs % 1:
                ctx.probe("fractional_balance")
        if obs > L.B:
            self.note_gain()
        L.B = obs
        for k in keys:
            L.coin_audit[k] = [L.coin_audit[k][0] + 1, L.coin_audit[k][1] + v]
        # a coin restarts both expiry timers
        for kind in ("full", "frac"):
            if L.T[kind] and any(c2 is not None and abs(c2 - now) <= TOL for c2 in L.dl[kind]):
                ctx.probe("coin_ties_with_expiry")
        self.touch_deadlines(now, definite=True)
        self.check_coin_audits()
        self.check_strings()

    def hit_service(self):
        L = self.L
        sim = self.sim
        now = sim.now
        akey = "service_credit Awards"
        self.cause.append(["service", None, [], self.units()])
        sim.hit_switch("s_esc", 1)
        self.cause.pop()
        sim.hit_switch("s_esc", 0)
        if L.free:
            obs = self.expect_balance({L.B, L.clamp(L.B + 1)}, "service_gain", "free play", "service credit in free play")
            if obs != L.B or self.read_award(akey) != L.awards.get(akey, 0):
                L.awards[akey] = L.awards.get(akey, 0) + 1
        else:
            self.ctx.probe("service_credit")
            obs = self.expect_balance({L.clamp(L.B + 1)}, "service_gain", "service credit", "service credit")
            L.awards[akey] = L.awards.get(akey, 0) + 1
            # relaxation: whether a service credit restarts the expiry timers is not specified
            self.touch_deadlines(now, definite=False)
        if obs > L.B:
            self.note_gain()
        L.B = obs
        self.check_award(akey)
        self.check_strings()

    def press_start(self):
        self.sim.hit_switch("s_start", 1)
        self.sim.hit_switch("s_start", 0)

    def do_op(self, op, t_nom):
        ctx = self.ctx
        sim = self.sim
        m = self.m
        L = self.L
        kind = op["op"]
        now = sim.now
        ctx.info["last_op"] = kind
        ctx.log("op", kind, op.get("coin"), op.get("n"), str(L.B), L.free, L.game_active, t=now)
        mark = (self.loop.steps, kind)
        if self.iter_mark[0] == mark[0]:
            ctx.probe("ops_same_iteration")
            if kind in ("start", "start2") and self.iter_mark[1] in ("start", "start2"):
                ctx.probe("start_pair_same_iteration")
        self.iter_mark = mark
        self.check_sync("op start")
        self.check_liveness(t_nom)
        self.check_strings()
        if kind == "coin":
            self.hit_coin(op["coin"])
        elif kind == "burst":
            for _ in range(op["n"]):
                self.hit_coin(op["coin"])
        elif kind == "service":
            if self.cfg["service"]:
                self.hit_service()
        elif kind == "award":
            if op["ev"] == "c20_award":
                sim.post("c20_award")
            else:
                sim.post("c20_award_n", n=op["n"])
        elif kind == "start":
            self.press_start()
        elif kind == "start2":
            ctx.probe("start_pair_same_iteration")
            self.press_start()
            self.press_start()
        elif kind == "drain":
            if m.game and m.game.balls_in_play > 0:
                m.events.post_relay("ball_drain", balls=1)
        elif kind == "end_game":
            if m.game and not m.game.ending and m.game.player is not None:
                m.game.end_game()
        elif kind == "toggle":
            sim.post("toggle_credit_play")
        elif kind == "enable_credit":
            sim.post("enable_credit_play")
        elif kind == "enable_free":
            sim.post("enable_free_play")
        elif kind == "slam":
            sim.post("slam_tilt")
        elif kind == "credits_reset":
            sim.post("credits_reset")
        elif kind == "earnings_reset":
            sim.post("earnings_reset")
        elif kind == "wait":
            pass
        ctx.state(min(int(L.B * 2), 12), L.free, L.game_active, self.players if L.game_active else 0, kind)

    # -- driver -------------------------------------------------------------------------------------------------
    def resolve_when(self, w):
        now = self.sim.now
        if w[0] == "rel":
            return now + w[1]
        if w[0] == "tie":
            return now
        cands = [c for c in self.L.dl[w[0]] if c is not None and c >= now]
        if not cands:
            return now + 0.05
        d = max(cands)
        if w[1] == 0.0:
            self.ctx.probe("op_on_expiry_deadline")
            return d
        return max(now, d + w[1])

    def schedule_next(self):
        ops = self.ops
        if self.idx >= len(ops):
            self.done = True
            return
        first = ops[self.idx]
        t = self.resolve_when(first["when"])
        batch = [first]
        j = self.idx + 1
        if first["op"] != "reboot":
            while j < len(ops) and ops[j]["when"][0] == "tie" and ops[j]["op"] != "reboot":
                batch.append(ops[j])
                j += 1
        self.idx = j
        self.outstanding = len(batch)
        self.next_t = t
        for o in batch:
            self.sim.at(t, self.run_op, o, t)

    def run_op(self, op, t_nom):
        if self.abort_reason:
            return
        if op["op"] == "reboot":
            self.ctx.log("op", "reboot", op["off"], t=self.sim.now)
            self.check_sync("reboot")
            self.check_liveness(t_nom)
            self.reboot_req = op
            return
        self.do_op(op, t_nom)
        self.outstanding -= 1
        if self.outstanding == 0:
            self.schedule_next()

    def do_reboot(self, op):
        import copy
        ctx = self.ctx
        L = self.L
        old = self.sim
        now = old.now
        off = op["off"]
        persist = self.cfg["persist_secs"]
        dms = old.machine.sim_data_managers
        # the "disk": what the data managers wrote last (a manager that never saved leaves the file as it was)
        for name in ("machine_vars", "earnings"):
            dm = dms.get(name)
            if dm is not None and dm.written_data is not None:
                self.disk[name] = copy.deepcopy(dm.written_data)
        data = copy.deepcopy(self.disk)
        before = L.B
        age = now - self.last_change_t
        expiry_lost = self.persist_expiry_lost
        self.persist_expiry_lost = False
        self.boot(mock_data=data, start_time=now + off)
        L.free = self.sut_free()      # operator setting; its persistence is outside the statement
        L.game_active = False
        L.S = L.S | {F(0)}
        for kind in ("full", "frac"):
            L.dl[kind] = {None} | ({self.sim.now + L.T[kind]} if L.T[kind] else set())
        if not self.upg():
            L.B = F(0) if not self.units() else before
            return
        # both readings of persist_credits_while_off_time agree outside (off, off + age):
        #   off + time since the balance last changed < persist  -> kept;   off > persist -> gone
        if before == 0 or not persist or off > persist + 1:
            allowed = {F(0)}
        elif off + age < persist - 1:
            allowed = {before}
        else:
            allowed = {before, F(0)}
        sig = "persist" if F(0) not in allowed else "expired"
        if expiry_lost and persist and allowed == {F(0)} and before != 0:
            sig = "kept beyond persist time after a boot in free play"
        obs = self.expect_balance(allowed, "reboot", sig,
                                  "reboot after %.0fs off (persist %ss, last change %.0fs before power off)"
                                  % (off, persist, age))
        ctx.probe("reboot_kept" if obs == before and before != 0 else "reboot_dropped")
        L.B = obs
        self.check_strings()
        self.check_coin_audits()
        self.check_paid()

    def run(self):
        self.boot()
        L = self.L
        if self.upg():
            L.B = self.expect_balance({F(0)}, "bounds", "boot", "first boot")
        self.check_strings()
        self.schedule_next()
        guard = 0
        while not self.done:
            guard += 1
            if guard > 20 * len(self.ops) + 100:
                raise AssertionError("op chain did not finish")
            if self.reboot_req is not None:
                op, self.reboot_req = self.reboot_req, None
                self.do_reboot(op)
                self.schedule_next()
                continue
            self.sim.run(max(self.next_t - self.sim.now, 0.0) + 0.02)
            if self.abort_reason:
                raise Discard(self.abort_reason)
        if self.abort_reason:
            raise Discard(self.abort_reason)
        # settle: let a pending game start / player add / expiry due now finish
        self.sim.run_quiet(2.0)
        g = self.m.game
        if g is not None and not g.player_list and L.game_active:
            # observation only (game lifecycle is C06): the start request was granted but the first
            # player's own player_add_request was denied - the game mode runs without a player
            self.ctx.probe("game_without_player")
            self.ctx.log("game_without_player", t=self.sim.now)
            import os
            if os.environ.get("C20_REPORT_GAME_WITHOUT_PLAYER"):     # debugging aid: show such a history
                self.V("game_without_player", "observation", "game mode runs without any player")
        self.check_sync("end")
        self.check_liveness(self.sim.now)
        self.check_strings()
        self.check_coin_audits()
        self.check_paid()
        self.check_persisted_audits()
        for akey in sorted(L.awards):
            self.check_award(akey)


def sorted_dl(s):
    return sorted(s, key=lambda x: (x is None, x or 0))


def execute(ctx, plan):
    World(ctx, plan).run()
