"""Helpers for C09: a SimPlatform subclass that additionally offers *batched* light channels.

`BatchSimPlatform` is registered through the `mpf: platforms:` table (the seam MPF offers for external
platforms) and forced as the machine's platform.  Lights with `subtype: batch` are driven through the real
`PlatformBatchLightSystem` (mpf/core/platform_batch_light_system.py), wired exactly like the in-tree pkone /
opp / spike platforms do it: channels are `PlatformBatchLight` subclasses, the system is created in
`initialize()` and started in `start()`; the update callback is a stub of the serial command
"set N sequential channels starting at <first> to these brightness values, fading over <common_fade_ms>".
Like real hardware the stub attributes the k-th brightness to channel `first.index + k` of the same chain
(not to the channel object carried in the tuple), so wrong grouping is visible to the oracle.

Lights with `subtype: hwfade` are `LightPlatformDirectFade` channels with a limited hardware fade time (the
generic "hardware can fade, but not that long" path of mpf/platforms/interfaces/light_platform_interface.py).
All other subtypes fall through to SimPlatform (direct hardware-fade SimLight channels); `platform: drivers`
lights use coils of this platform (SimDriver).
"""
import asyncio

from sim import ensure_repo_import

ensure_repo_import()

from mpf.core.platform_batch_light_system import PlatformBatchLight, PlatformBatchLightSystem   # noqa: E402
from mpf.platforms.interfaces.light_platform_interface import LightPlatformDirectFade           # noqa: E402
from sim.platform import SimPlatform                                                             # noqa: E402


class BatchChannel(PlatformBatchLight):
    """One channel of a serial LED chain: number "<chain>-<index>"."""

    __slots__ = ["chain", "index", "max_fade_ms"]

    def __init__(self, number, light_system, max_fade_ms):
        chain, index = str(number).split("-")
        self.chain = int(chain)
        self.index = int(index)
        self.max_fade_ms = max_fade_ms
        super().__init__("{}-{}".format(self.chain, self.index), light_system)

    def get_max_fade_ms(self):
        return self.max_fade_ms

    def get_board_name(self):
        return "simbatch chain {}".format(self.chain)

    def is_successor_of(self, other):
        return self.chain == other.chain and self.index == other.index + 1

    def get_successor_number(self):
        return "{}-{}".format(self.chain, self.index + 1)

    def __lt__(self, other):
        return (self.chain, self.index) < (other.chain, other.index)

    def __repr__(self):
        return "<BatchChannel {}-{}>".format(self.chain, self.index)


class HwFadeLight(LightPlatformDirectFade):
    """A channel whose hardware can fade on its own, but only up to `max_fade_ms` (longer fades are stepped by
    the real LightPlatformDirectFade task).  Records every (brightness, fade_ms) command."""

    __slots__ = ["platform", "max_fade_ms"]

    def __init__(self, number, platform, max_fade_ms):
        super().__init__(number, platform.machine.clock.loop)
        self.platform = platform
        self.max_fade_ms = max_fade_ms

    def get_max_fade_ms(self):
        return self.max_fade_ms

    def set_brightness_and_fade(self, brightness, fade_ms):
        p = self.platform
        t = p.machine.clock.get_time()
        rec = {"t": t, "num": self.number, "brightness": brightness, "fade_ms": fade_ms}
        p.hwfade_log.append(rec)
        p.hwfade_state[self.number] = (brightness, fade_ms, t)
        for fn in p.hwfade_listeners:
            fn(rec)

    def get_board_name(self):
        return "simhwfade"

    def is_successor_of(self, other):
        raise AssertionError("not a chain")

    def get_successor_number(self):
        raise AssertionError("not a chain")

    def __lt__(self, other):
        return self.number < other.number


class BatchSimPlatform(SimPlatform):
    """SimPlatform + batched LED chains."""

    # per-run parameters, set by the check (in the forked child) before boot
    PARAMS = {"update_hz": 50, "max_batch_size": 64, "max_fade_ms": 0, "cb_yield": None, "hwfade_max_ms": 100}

    def __init__(self, machine):
        super().__init__(machine)
        self.params = dict(self.PARAMS)
        self.batch_system = None
        self.batch_channels = {}        # "chain-index" -> BatchChannel
        self.batch_log = []             # {"t", "first", "n", "fade_ms", "values"}
        self.batch_state = {}           # "chain-index" -> (brightness, fade_ms, t of command)
        self.batch_listeners = []
        self.batch_calls_in_flight = 0
        self.hwfade_lights = {}
        self.hwfade_log = []
        self.hwfade_state = {}          # number -> (brightness, fade_ms, t of command)
        self.hwfade_listeners = []

    def __repr__(self):
        return "<Platform.SimBatch>"

    async def initialize(self):
        await super().initialize()
        p = self.params
        self.batch_system = PlatformBatchLightSystem(self.machine.clock, self._send_multiple_light_update,
                                                     p["update_hz"], p["max_batch_size"])

    async def start(self):
        await super().start()
        self.batch_system.start()

    def stop(self):
        if self.batch_system:
            self.batch_system.stop()
        for light in self.hwfade_lights.values():
            light.stop()
        super().stop()

    async def _send_multiple_light_update(self, sequential_brightness_list):
        first, _, common_fade_ms = sequential_brightness_list[0]
        t = self.machine.clock.get_time()
        values = [b for _, b, _ in sequential_brightness_list]
        rec = {"t": t, "first": first.number, "n": len(values), "fade_ms": common_fade_ms, "values": values,
               "objs": [ch.number for ch, _, _ in sequential_brightness_list]}
        self.batch_log.append(rec)
        for k, b in enumerate(values):
            self.batch_state["{}-{}".format(first.chain, first.index + k)] = (b, common_fade_ms, t)
        for fn in self.batch_listeners:
            fn(rec)
        y = self.params.get("cb_yield")
        if y is not None:
            # a transport that really suspends (e.g. awaits drain()); no in-tree platform does this today
            self.batch_calls_in_flight += 1
            try:
                await asyncio.sleep(y)
            finally:
                self.batch_calls_in_flight -= 1

    # -- lights -------------------------------------------------------------------------------
    def parse_light_number_to_channels(self, number, subtype):
        if subtype == "batch":
            # "<chain>-<led>": an RGB led occupies three sequential channels
            chain, led = str(number).split("-")
            return [{"number": "{}-{}".format(chain, int(led) * 3 + k)} for k in range(3)]
        if subtype == "batch1":
            return [{"number": str(number)}]
        if subtype == "hwfade":
            return [{"number": "{}-{}".format(number, c)} for c in "rgb"]
        if subtype == "hwfade1":
            return [{"number": str(number)}]
        return super().parse_light_number_to_channels(number, subtype)

    def configure_light(self, number, subtype, config, platform_settings):
        if subtype in ("batch", "batch1"):
            ch = BatchChannel(number, self.batch_system, self.params["max_fade_ms"])
            if ch.number in self.batch_channels:
                raise AssertionError("duplicate batch channel {}".format(ch.number))
            self.batch_channels[ch.number] = ch
            return ch
        if subtype in ("hwfade", "hwfade1"):
            light = HwFadeLight("hwfade-{}".format(number), self, self.params["hwfade_max_ms"])
            self.hwfade_lights[light.number] = light
            return light
        return super().configure_light(number, subtype, config, platform_settings)
