"""C16 - Templates evaluate like Python and never act on stale values.

SUT: PlaceholderManager (raw/bool/int templates, evaluate and evaluate_and_subscribe), the placeholder
objects (machine / current_player / players / settings / device), MachineVariables, Player variables of a
running (fake) game, SettingsController, DeviceMonitor'ed attributes (system-wide counters, switches, a
per-player mode counter), conditional event handlers (`event{cond}`), ConfigPlayer._update_subscription
(light_player / event_player `{cond}:` entries, machine-wide and mode-owned) and the Driver
default_pulse_ms template.

Workload: 2-5 random expressions per run (<= 12 nodes) over 2-4 referenced variables; a history of changes
to those (and unrelated) variables, game start / add player / end ball (turn change) / end game, mode
start/stop, events for the conditional handlers.  Operations are chained on the loop: some a few
milliseconds apart, many at the same instant or exactly k loop iterations after the previous one (inside
the notify -> re-evaluate -> re-subscribe window), some from inside a subscriber's own callback
(mirror variables) or from inside the dispatch of the conditional event.

Oracle (from the statement, not from the code):
  * truth = shadow environment (dicts driven by the operations for machine vars, settings and player
    vars; live reads of the data stores for device attributes and the identity of the current player);
    expected value = Python eval of the same expression text over proxies of the truth, with boolean
    operators evaluating every operand, and the template default on NameError/TypeError/missing.
  * every subscribed evaluation MPF makes is compared on the spot with Python's value  (eval_mismatch,
    eval_raises) - the evaluation half, as a by-product on the same traffic.
  * freshness: whenever simulated time has advanced since the last operation (all zero-time chains have
    drained), every live subscriber's last evaluation must be younger than the last change of every variable
    it read (missed_notification) and its value must equal Python's value now (stale_value); the player /
    driver owning the subscription must be acting on that value (player_not_acting).
  * a conditional handler is invoked iff Python says the condition holds at the instant it is dispatched
    (handler_wrong).
Findings on the unchanged tree and their repairs: proposed_fixes/C16-*.diff (+ C07-2 for the subscription that is
re-armed after its mode stopped); known finding: player variables set to None post no event (documented).
Relaxations: notifications for variables that were not read are accepted; a result of None may be reported
as None or as the default; values are compared with == (1 == 1.0 == True: MPF's own change detection uses
the same notion, a change 1 -> True is not a change).
"""
import ast

from sim.harness import draw_knobs, Discard

ID = "C16"
LEVEL = "exploration"
RUNS = {"quick": 2500, "thorough": 45000}
WALL_CAP = {"quick": 120, "thorough": 3000}
RULE = ("one case = 2-5 generated template expressions (<= 12 nodes: arithmetic, comparison, all-operand boolean, "
        "conditional, tuple, attribute and index access over 2-4 machine/player/settings/device variables) "
        "subscribed through re-subscribing loops, conditional handlers, light_player/event_player {cond} entries "
        "and a coil pulse template, plus a generated history (6-34 ops) of variable changes, game/turn/mode "
        "transitions and handler events placed at the same instant, k loop iterations apart or ms apart, under "
        "a seeded scheduler; non-trivial = at least one reach probe (re-evaluation after a change, change inside "
        "the re-subscription window, turn change with a player template, ...); distinct = distinct sequence of "
        "observed event kinds")
PROBES = ["reeval_after_change", "change_in_resub_window", "same_instant_burst", "turn_change_with_player_tmpl",
          "game_start_with_player_tmpl", "game_end_with_player_tmpl", "handler_true", "handler_false",
          "handler_change_at_dispatch", "default_on_type_error", "default_on_missing", "index_access",
          "tuple_value", "boolop_all_operands", "ifexp_branch_switch", "mode_sub_restart", "light_on", "light_off",
          "mirror_chain", "unread_change", "setting_fallback", "coil_template", "event_player_fired",
          "mode_counter_swap", "var_removed"]
REAL = ["mpf.core.placeholder_manager (templates, placeholders, AST walk)", "mpf.core.machine_vars.MachineVariables",
        "mpf.core.player.Player", "mpf.modes.game (real game mode, turn rotation)", "mpf.core.settings_controller",
        "mpf.core.device_monitor.DeviceMonitor (Counter, Switch)", "mpf.core.events.EventManager (conditional handlers)",
        "mpf.core.config_player.ConfigPlayer._update_subscription (light_player, event_player)",
        "mpf.devices.driver.Driver pulse template", "mpf.core.mode.Mode (mode-owned subscriptions)"]
STUBS = ["event loop (SimLoop)", "clock (SimClock)", "virtual hardware platform", "in-memory data manager",
         "playfield.add_ball (fake game without ball devices, as MpfFakeGameTestCase)"]
ASSUMPTIONS = ["notification needs no timer: once simulated time advances (by more than 1e-7 s; timers within the loop's 1e-9 s "
               "resolution share an iteration), every pending notify/re-evaluate chain has run",
               "call_soon FIFO order is kept",
               "'in a game' for player placeholders means: a game exists and it has a current player",
               "expressions cannot divide by zero or overflow by construction (outside the statement)"]
STATE_ABSTRACTION = "(game phase, number of players, number of stale-capable subscribers, last op kind)"
TECHNIQUE = "deterministic simulation of variable-change histories against subscribed templates with a Python-eval oracle"

# ------------------------------------------------------------------------------------------------
# catalog

MV_NAMES = ["a", "b", "c"]
MV_UNRELATED = ["u", "v"]
PV_NAMES = ["x", "y", "pv_init"]
PV_UNRELATED = ["z"]
SETTINGS = {"set_a": {"mv": "set_a", "default": 1, "values": [0, 1, 2, 5]},
            "set_b": {"mv": "set_b_store", "default": "lo", "values": ["lo", "hi", ""]}}
PV_INITIAL = {"pv_init": 4, "score": 0}
DEVS = [("counters", "cnt_a", "value"), ("counters", "cnt_b", "value"), ("switches", "s_a", "state"),
        ("switches", "s_b", "state"), ("counters", "cnt_p", "value")]
COUNTER_EVENTS = {"cnt_a": ["cnt_a_hit", "cnt_a_add", "cnt_a_sub", "cnt_a_jump", "cnt_a_reset"],
                  "cnt_b": ["cnt_b_hit", "cnt_b_reset"],
                  "cnt_p": ["cnt_p_hit", "cnt_p_reset"]}

VALS_INT = [0, 1, 2, 3, 5, 7, 10, -1]
VALS_MIXED = [0, 1, 3, 0.5, 2.0, True, False]
VALS_ANY = [0, 1, 5, 0.5, True, False, "x", "", "hi", None]
INT_LITS = ["0", "1", "2", "3", "5", "7", "10"]
FLOAT_LITS = ["0.5", "2.0"]
STR_LITS = ['"x"', '""', '"hi"']
TIME_EPS = 1e-7
SOON = 8     # op placement: up to this many loop iterations after the previous op


def _val_pool(kind, name):
    if kind == "mv":
        return {"a": VALS_INT, "b": VALS_MIXED}.get(name, VALS_ANY)
    return {"x": VALS_INT, "pv_init": VALS_INT}.get(name, [v for v in VALS_ANY if v is not None])


# ------------------------------------------------------------------------------------------------
# expression generator (plan side)

class _G:
    def __init__(self, ch, refs, idx, tuples):
        self.ch = ch
        self.refs = refs
        self.idx = idx
        self.tuples = tuples
        self.nrefs = 0


def _ref_text(ch, r, idx):
    k = r["k"]
    use_idx = idx and ch.flag("g.idxform", 0.35)
    if k == "kw":
        return r["n"]
    if k == "mv":
        return ('machine["%s"]' if use_idx else "machine.%s") % r["n"]
    if k == "pv":
        base = "current_player" if r["who"] == "cur" else "players[%d]" % r["who"]
        return base + (('["%s"]' if use_idx else ".%s") % r["n"])
    if k == "set":
        return ('settings["%s"]' if (use_idx and ch.flag("g.setidx", 0.5)) else "settings.%s") % r["n"]
    c, d, a = r["c"], r["d"], r["a"]
    if not use_idx:
        return "device.%s.%s.%s" % (c, d, a)
    form = ch.choice("g.devform", 3)
    if form == 0:
        return 'device.%s["%s"].%s' % (c, d, a)
    if form == 1:
        return 'device["%s"].%s.%s' % (c, d, a)
    return 'device.%s.%s["%s"]' % (c, d, a)


def _leaf(g, want):
    ch = g.ch
    if g.refs and ch.flag("g.leafvar", 0.6):
        g.nrefs += 1
        return _ref_text(ch, ch.pick("g.ref", g.refs), g.idx)
    if want == "num":
        return ch.pick("g.fl", FLOAT_LITS) if ch.flag("g.isfl", 0.2) else ch.pick("g.il", INT_LITS)
    if want == "bool":
        return ch.pick("g.bl", ["True", "False"])
    if want == "str":
        return ch.pick("g.sl", STR_LITS)
    return ch.pick("g.al", INT_LITS + FLOAT_LITS + STR_LITS + ["True", "False", "None"])


def _split(ch, budget, parts):
    """Split budget-1 nodes over `parts` operands (each >= 1)."""
    rest = max(parts, budget - 1)
    out = [1] * parts
    for _ in range(rest - parts):
        out[ch.choice("g.split", parts)] += 1
    return out


def _gen(g, want, budget, depth=0):
    """Returns (text, nodes).  A variable reference counts as one node."""
    ch = g.ch
    if budget <= 1 or depth >= 5:
        return _leaf(g, want), 1
    if want == "any":
        want = ch.weighted("g.any", [("num", 4), ("bool", 3), ("str", 1.5), ("leaf", 2),
                                     ("tuple", 0.8 if g.tuples else 0)])
    if want == "leaf":
        return _leaf(g, "any"), 1
    chaos = ch.flag("g.chaos", 0.12)           # operands of arbitrary type: reaches the type-error paths

    def sub(w, b):
        return _gen(g, "any" if chaos else w, b, depth + 1)

    if want == "tuple":
        n = 2 + ch.choice("g.tn", 2)
        bs = _split(ch, budget, n)
        parts = [sub("any", b) for b in bs]
        return "(" + ", ".join(p[0] for p in parts) + ")", 1 + sum(p[1] for p in parts)
    if want == "num":
        p = ch.weighted("g.num", [("arith", 5), ("leaf", 2.5), ("div", 2), ("pow", 0.7), ("neg", 1.2), ("if", 1.2),
                                  ("xor", 0.4)])
        if p == "leaf":
            return _leaf(g, "num"), 1
        if p == "arith":
            bl, br = _split(ch, budget, 2)
            l, r = sub("num", bl), sub("num", br)
            return "(%s %s %s)" % (l[0], ch.pick("g.aop", ["+", "-", "*"]), r[0]), 1 + l[1] + r[1]
        if p == "div":
            # divisor: a non-zero literal or (<var> or 1): division by zero is outside the statement
            if g.refs and budget >= 4 and ch.flag("g.divvar", 0.4):
                l = sub("num", budget - 3)
                g.nrefs += 1
                d = "(%s or 1)" % _ref_text(ch, ch.pick("g.ref", g.refs), g.idx)
                return "(%s %s %s)" % (l[0], ch.pick("g.dop", ["/", "//", "%"]), d), 3 + l[1]
            l = sub("num", budget - 2)
            return "(%s %s %s)" % (l[0], ch.pick("g.dop", ["/", "//", "%"]), ch.pick("g.dl", ["2", "3", "0.5", "7"])), 2 + l[1]
        if p == "pow":
            return "(%s ** %s)" % (_leaf(g, "num"), ch.pick("g.pl", ["0", "1", "2"])), 3
        if p == "neg":
            l = sub("num", budget - 1)
            return "(-%s)" % l[0], 1 + l[1]
        if p == "xor":
            bl, br = _split(ch, budget, 2)
            l, r = sub("num", bl), sub("num", br)
            return "(%s ^ %s)" % (l[0], r[0]), 1 + l[1] + r[1]
        want_if = "num"
    elif want == "str":
        p = ch.weighted("g.str", [("leaf", 3), ("cat", 2), ("rep", 1), ("if", 1)])
        if p == "leaf":
            return _leaf(g, "str"), 1
        if p == "cat":
            bl, br = _split(ch, budget, 2)
            l, r = sub("str", bl), sub("str", br)
            return "(%s + %s)" % (l[0], r[0]), 1 + l[1] + r[1]
        if p == "rep":
            l = sub("str", budget - 2)
            return "(%s * %s)" % (l[0], _leaf(g, "num")), 2 + l[1]
        want_if = "str"
    else:   # bool
        p = ch.weighted("g.bool", [("cmp", 6), ("not", 1.5), ("boolop", 3), ("leaf", 1), ("if", 1)])
        if p == "leaf":
            return _leaf(g, "bool"), 1
        if p == "cmp":
            bl, br = _split(ch, budget, 2)
            t = ch.weighted("g.cmpt", [("num", 5), ("any", 2), ("str", 1), ("tuple", 0.7 if g.tuples else 0)])
            l, r = sub(t, bl), sub(t, br)
            return "(%s %s %s)" % (l[0], ch.pick("g.cop", ["==", "!=", "<", ">", "<=", ">="]), r[0]), 1 + l[1] + r[1]
        if p == "not":
            l = sub("any", budget - 1)
            return "(not %s)" % l[0], 1 + l[1]
        if p == "boolop":
            n = 2 + (1 if budget >= 4 and ch.flag("g.bo3", 0.3) else 0)
            bs = _split(ch, budget, n)
            parts = [sub(ch.pick("g.bot", ["bool", "bool", "any"]), b) for b in bs]
            o = ch.pick("g.bop", [" and ", " or "])
            return "(" + o.join(x[0] for x in parts) + ")", 1 + sum(x[1] for x in parts)
        want_if = "bool"
    # conditional
    bs = _split(ch, budget, 3)
    c, a, b = sub("bool", bs[0]), sub(want_if, bs[1]), sub(want_if, bs[2])
    return "(%s if %s else %s)" % (a[0], c[0], b[0]), 1 + c[1] + a[1] + b[1]


def _gen_expr(ch, refs, want, idx, tuples, tag):
    """An expression with at least one variable reference (a few retries, then a forced reference)."""
    best = None
    for i in range(6):
        g = _G(ch.sub("%s.%d" % (tag, i)), refs, idx, tuples)
        budget = 2 + g.ch.choice("g.budget", 11)
        text, nodes = _gen(g, want, budget)
        if text.startswith("(") and text.endswith(")") and _balanced(text[1:-1]):
            text = text[1:-1] if not _is_tuple_text(text) else text
        best = text
        if g.nrefs > 0 and nodes <= 12:
            return text
    g = _G(ch.sub(tag + ".f"), refs, idx, tuples)
    ref = _ref_text(g.ch, g.ch.pick("g.ref", refs), idx)
    return ref if want != "bool" else "%s == %s" % (ref, _leaf(_G(g.ch, [], idx, tuples), "num"))


def _balanced(s):
    d = 0
    q = None
    for c in s:
        if q:
            if c == q:
                q = None
            continue
        if c == '"':
            q = c
        elif c == "(":
            d += 1
        elif c == ")":
            d -= 1
            if d < 0:
                return False
    return d == 0


def _is_tuple_text(text):
    try:
        return isinstance(ast.parse(text, mode="eval").body, ast.Tuple)
    except SyntaxError:
        return False


def _gen_int_expr(ch, refs):
    """Always-int expression for the coil pulse template."""
    def leaf():
        if ch.flag("c.var", 0.7):
            return _ref_text(ch, ch.pick("c.ref", refs), ch.flag("c.idx", 0.3))
        return ch.pick("c.lit", ["1", "2", "5", "10"])
    text = _ref_text(ch, ch.pick("c.ref", refs), ch.flag("c.idx", 0.3))
    for _ in range(ch.choice("c.n", 3)):
        text = "(%s %s %s)" % (text, ch.pick("c.op", ["+", "-", "*"]), leaf())
    return text


def _catalog():
    cat = []
    for n in MV_NAMES:
        cat.append(({"k": "mv", "n": n}, 4))
    for n in PV_NAMES:
        cat.append(({"k": "pv", "who": "cur", "n": n}, 2.0 if n != "pv_init" else 0.8))
    cat.append(({"k": "pv", "who": 0, "n": "x"}, 0.8))
    cat.append(({"k": "pv", "who": 1, "n": "x"}, 0.8))
    cat.append(({"k": "pv", "who": 1, "n": "y"}, 0.4))
    for n in SETTINGS:
        cat.append(({"k": "set", "n": n}, 1.5))
    for c, d, a in DEVS:
        cat.append(({"k": "dev", "c": c, "d": d, "a": a}, 1.5 if d != "cnt_p" else 0.9))
    return cat


def plan(ch, tier):
    knobs = draw_knobs(ch)
    flags = {"idx": ch.flag("f.idx", 0.5), "tuples": ch.flag("f.tuples", 0.35),
             "pv_none": ch.flag("f.pvnone", 0.12), "remove": ch.flag("f.remove", 0.2),
             "slow_stop": ch.flag("f.slowstop", 0.3)}
    cat = _catalog()
    refs = []
    for _ in range(2 + ch.choice("nrefs", 3)):
        for _try in range(4):
            r = ch.weighted("ref", cat)
            if r not in refs:
                refs.append(r)
                break
    # subscribers -----------------------------------------------------------------------
    subs = []
    used = set()
    nsubs = 2 + ch.choice("nsubs", 4)
    single = set()
    for i in range(nsubs):
        kind = ch.weighted("kind", [("loop_raw", 4), ("loop_bool", 2), ("handler", 3), ("light_mach", 1.3),
                                    ("light_mode", 2.0), ("evplayer", 0.8), ("coil", 0.6)])
        if kind in single:
            kind = "loop_raw"
        if kind in ("light_mach", "light_mode", "evplayer", "coil"):
            single.add(kind)
        srefs = list(refs)
        for s in subs:                      # chains: read what an earlier subscriber mirrors
            if s.get("mirror") and ch.flag("usemir", 0.6):
                srefs.append({"k": "mv", "n": s["mirror"]})
        sub = {"kind": kind}
        if kind == "coil":
            irefs = [{"k": "set", "n": "set_a"}, {"k": "dev", "c": "counters", "d": "cnt_a", "a": "value"},
                     {"k": "dev", "c": "counters", "d": "cnt_b", "a": "value"},
                     {"k": "dev", "c": "switches", "d": "s_a", "a": "state"}]
            text = _gen_int_expr(ch.sub("coil"), irefs)
        else:
            if kind == "handler":
                ev = ch.weighted("hev", [("ev_h", 7), ("machine_var_a", 1.5), ("player_x", 1.5)])
                sub["event"] = ev
                kws = ["k1", "k2"] if ev == "ev_h" else ["value", "change"]
                srefs = srefs + [{"k": "kw", "n": n} for n in kws if ch.flag("usekw", 0.6)]
            want = "any" if kind == "loop_raw" else ch.weighted("want", [("bool", 7), ("any", 3)])
            text = _gen_expr(ch, srefs, want, flags["idx"], flags["tuples"], "e%d" % i)
        while text in used:
            text = "(%s)" % text
        used.add(text)
        sub["expr"] = text
        if kind == "loop_raw":
            sub["default"] = ch.pick("dflt", [None, "DFLT", -7])
            if ch.flag("mirror", 0.25):
                sub["mirror"] = "mir%d" % i
        subs.append(sub)
    # history -----------------------------------------------------------------------------
    ref_mv = [r["n"] for r in refs if r["k"] == "mv"]
    ref_pv = [r for r in refs if r["k"] == "pv"]
    ref_set = [r["n"] for r in refs if r["k"] == "set"]
    ref_dev = [r for r in refs if r["k"] == "dev"]
    has_h = [s for s in subs if s["kind"] == "handler" and s["event"] == "ev_h"]
    weights = [("set_mv", 5 if ref_mv else 1.5), ("set_pv", 4 if ref_pv else 0.7), ("set_setting", 3 if ref_set else 0.5),
               ("counter", 3 if any(r["c"] == "counters" for r in ref_dev) else 0.5),
               ("switch", 2.5 if any(r["c"] == "switches" for r in ref_dev) else 0.4),
               ("post_h", 3.5 if has_h else 0.2), ("game_start", 1.6 if ref_pv or any(r["d"] == "cnt_p" for r in ref_dev) else 0.5),
               ("add_player", 1.0 if ref_pv else 0.3), ("end_ball", 1.6 if ref_pv or any(r["d"] == "cnt_p" for r in ref_dev) else 0.4),
               ("end_game", 0.8 if ref_pv else 0.3), ("m1_start", 1.0), ("m1_stop", 0.8),
               ("remove_mv", 0.5 if flags["remove"] else 0)]

    def gen_kw(c):
        kw = {}
        for k in ("k1", "k2"):
            if c.flag("haskw", 0.8):
                kw[k] = c.pick("kwv", VALS_ANY[:-1] + [2, 3])
        return kw

    kwsets = [gen_kw(ch.sub("kwset%d" % i)) for i in range(2)]

    def gen_op(c, depth):
        kind = c.weighted("op", weights)
        op = {"op": kind}
        if kind in ("set_mv", "remove_mv"):
            names = ref_mv if (ref_mv and c.flag("related", 0.75)) else MV_UNRELATED + MV_NAMES
            op["name"] = c.pick("mvn", names)
            if kind == "set_mv":
                op["value"] = c.pick("mvv", _val_pool("mv", op["name"]))
        elif kind == "set_pv":
            if ref_pv and c.flag("related", 0.75):
                r = c.pick("pvr", ref_pv)
                op["who"], op["name"] = r["who"], r["n"]
                if c.flag("otherp", 0.25):
                    op["who"] = c.pick("pvw", ["cur", 0, 1, 2])
            else:
                op["who"], op["name"] = c.pick("pvw", ["cur", 0, 1, 2]), c.pick("pvn", PV_NAMES + PV_UNRELATED)
            pool = _val_pool("pv", op["name"])
            if flags["pv_none"] and op["name"] == "y":
                pool = pool + [None, None]
            op["value"] = c.pick("pvv", pool)
        elif kind == "set_setting":
            op["name"] = c.pick("sn", ref_set if (ref_set and c.flag("related", 0.8)) else sorted(SETTINGS))
            op["value"] = c.pick("sv", SETTINGS[op["name"]]["values"])
            if c.flag("sraw", 0.2):
                op["raw"] = c.pick("srv", [99, "zz", None, SETTINGS[op["name"]]["values"][0]])
        elif kind == "counter":
            devs = [r["d"] for r in ref_dev if r["c"] == "counters"]
            d = c.pick("cd", devs) if (devs and c.flag("related", 0.8)) else c.pick("cd2", sorted(COUNTER_EVENTS))
            op["event"] = c.pick("ce", COUNTER_EVENTS[d])
        elif kind == "switch":
            op["name"] = c.pick("swn", ["s_a", "s_b"])
            op["state"] = c.choice("sws", 2)
        elif kind == "post_h":
            # events mostly carry the same arguments every time: reuse one of two argument sets of this run
            # (same kwargs, different variable state), sometimes fresh ones
            which = c.weighted("kwset", [(0, 6), (1, 2.5), (None, 1.5)])
            if which is not None:
                op["kw"] = dict(kwsets[which])
            else:
                op["kw"] = gen_kw(c)
            op["etype"] = c.weighted("etype", [("post", 6), ("queue", 1.5), ("relay", 1.5), ("boolean", 1)])
            if depth == 0 and c.flag("inside", 0.3):
                op["inside"] = gen_op(c.sub("in"), 1)
                if op["inside"]["op"] in ("post_h", "game_start", "add_player", "end_ball", "end_game"):
                    del op["inside"]
        return op

    ops = []
    for _ in range(6 + ch.choice("nops", 29)):
        op = gen_op(ch, 0)
        w = ch.weighted("when", [("soon", 5), ("ms", 4), ("long", 1)])
        if w == "soon":
            op["when"] = ["soon", ch.choice("hops", SOON)]
        elif w == "ms":
            op["when"] = ["dt", ch.pick("dt", [0.0, 0.001, 0.001, 0.01, 0.05])]
        else:
            op["when"] = ["dt", ch.pick("dtl", [0.3, 1.0, 2.5])]
        if op["op"] in ("m1_stop", "end_ball", "end_game") and ch.flag("race", 0.6):
            # a subscription that completes while its owner is going away: change a variable, then stop the
            # mode / end the turn a few loop iterations later
            pre = None
            for _try in range(4):
                pre = gen_op(ch.sub("race"), 1)
                if pre["op"] in ("set_mv", "set_pv", "set_setting", "counter", "switch"):
                    break
                pre = None
            if pre is not None:
                pre["when"] = op["when"]
                ops.append(pre)
                op["when"] = ["soon", ch.choice("racehops", SOON)]
        ops.append(op)
    return {"knobs": knobs, "flags": flags, "refs": refs, "subs": subs, "ops": ops}


def shrink(plan):
    """Extra minimisation candidates: drop a subscriber, neutralise placement, drop inner ops."""
    subs = plan["subs"]
    if len(subs) > 1:
        for i in range(len(subs)):
            if any(s.get("mirror") for s in subs):
                # mirrors are referenced by name from later expressions; keep the list shape
                continue
            p = dict(plan)
            p["subs"] = subs[:i] + subs[i + 1:]
            yield p
    for i, op in enumerate(plan["ops"]):
        if "inside" in op:
            p = dict(plan)
            o2 = dict(op)
            del o2["inside"]
            p["ops"] = plan["ops"][:i] + [o2] + plan["ops"][i + 1:]
            yield p
        if op.get("when") != ["dt", 0.01]:
            p = dict(plan)
            o2 = dict(op)
            o2["when"] = ["dt", 0.01]
            p["ops"] = plan["ops"][:i] + [o2] + plan["ops"][i + 1:]
            yield p
    if plan["knobs"].get("p_stall") or plan["knobs"].get("shuffle_ties"):
        p = dict(plan)
        p["knobs"] = {"p_stall": 0.0, "shuffle_ties": False, "max_stall_index": 7}
        yield p


def warm():
    from sim.machine import preload
    preload("c16")


# ------------------------------------------------------------------------------------------------
# Python-side truth and evaluation (oracle)

class Missing(Exception):
    """A variable that does not exist right now (no game, no such player)."""


class _AllOperands(ast.NodeTransformer):
    """`a and b and c` -> __and__(a, b, c): every operand is evaluated (statement: "boolean with all
    operands evaluated"), the value is the one Python's operator gives."""

    def visit_BoolOp(self, node):
        self.generic_visit(node)
        fn = "__and__" if isinstance(node.op, ast.And) else "__or__"
        return ast.copy_location(ast.Call(func=ast.Name(id=fn, ctx=ast.Load()), args=node.values, keywords=[]), node)


def _py_and(*vals):
    r = vals[0]
    for v in vals[1:]:
        r = r and v
    return r


def _py_or(*vals):
    r = vals[0]
    for v in vals[1:]:
        r = r or v
    return r


_COMPILED = {}


def _compile(text):
    c = _COMPILED.get(text)
    if c is None:
        tree = ast.parse(text, mode="eval")
        tree = ast.fix_missing_locations(_AllOperands().visit(tree))
        c = _COMPILED[text] = compile(tree, "<c16>", "eval")
    return c


def _same(a, b):
    """Value equality as the statement needs it (== with None only equal to None)."""
    if a is None or b is None:
        return a is None and b is None
    if isinstance(a, tuple) != isinstance(b, tuple):
        return False
    if isinstance(a, str) != isinstance(b, str):
        return False
    try:
        return bool(a == b)
    except Exception:   # pylint: disable=broad-except
        return False


class Truth:
    """The environment as Python sees it."""

    def __init__(self, machine):
        self.m = machine
        self.mv = {}            # existing machine variables (shadow, driven by ops)
        self.ver = {}           # key -> number of real changes (shadowed keys only)
        self.pv = {}            # player object -> {name: value}
        self.pkey = {}          # player object -> stable name
        self.games = 0
        self.reads = None       # set during one evaluation: key -> (snapshot, version)

    # -- mutation (called by the ops, together with the MPF API call) -------------------------
    def bump(self, key):
        self.ver[key] = self.ver.get(key, 0) + 1

    def set_mv(self, name, value):
        if name not in self.mv or not _same(self.mv[name], value):
            self.bump(("mv", name))
        self.mv[name] = value

    def remove_mv(self, name):
        if name in self.mv:
            if self.mv[name] is not None:
                self.bump(("mv", name))
            del self.mv[name]

    def player_key(self, p):
        k = self.pkey.get(p)
        if k is None:
            self.games += 1         # serial number in order of first sight: unique per player object
            k = self.pkey[p] = "P%d.%d" % (self.games, p.vars.get("index"))
            self.pv[p] = dict(PV_INITIAL)
        return k

    def set_pv(self, p, name, value):
        k = self.player_key(p)
        old = self.pv[p].get(name, 0)
        if not _same(old, value):
            self.bump(("pv", k, name))
        self.pv[p][name] = value

    # -- live parts ----------------------------------------------------------------------------
    def in_game(self):
        g = self.m.game
        return bool(g) and g.player is not None

    def cur_player(self):
        return self.m.game.player if self.in_game() else None

    def player_at(self, i):
        if not self.in_game():
            return None
        pl = self.m.game.player_list
        return pl[i] if isinstance(i, int) and not isinstance(i, bool) and 0 <= i < len(pl) else None

    # -- reads (recorded) ------------------------------------------------------------------------
    def _rec(self, key, snap):
        if self.reads is not None:
            self.reads[key] = (snap, self.ver.get(key, 0))

    def read_mv(self, name):
        v = self.mv.get(name)
        self._rec(("mv", name), v)
        return v

    def read_setting(self, name):
        if name not in SETTINGS:
            raise Missing("setting " + str(name))
        s = SETTINGS[name]
        v = self.mv[s["mv"]] if s["mv"] in self.mv else s["default"]
        try:
            ok = v in s["values"]
        except TypeError:
            ok = False
        if not ok:
            v = s["default"]
        self._rec(("set", name), v)
        return v

    def read_cur(self):
        p = self.cur_player()
        self._rec(("cur",), self.player_key(p) if p is not None else None)
        return p

    def read_player_at(self, i):
        p = self.player_at(i)
        self._rec(("pl", i), self.player_key(p) if p is not None else None)
        return p

    def read_pv(self, p, name):
        k = self.player_key(p)
        v = self.pv[p].get(name, 0)
        self._rec(("pv", k, name), v)
        return v

    def read_dev(self, coll, name, attr):
        from mpf.core.utility_functions import Util
        dev = getattr(self.m, coll)[name]
        v = Util.convert_to_simply_type(getattr(dev, attr))
        self._rec(("dev", coll, name, attr), v)
        return v

    def current(self, key):
        """Current (snapshot, version) of a read key, without recording."""
        saved, self.reads = self.reads, {}
        try:
            k = key[0]
            if k == "mv":
                self.read_mv(key[1])
            elif k == "set":
                self.read_setting(key[1])
            elif k == "cur":
                self.read_cur()
            elif k == "pl":
                self.read_player_at(key[1])
            elif k == "dev":
                self.read_dev(key[1], key[2], key[3])
            elif k == "pv":
                for p, pk in self.pkey.items():
                    if pk == key[1]:
                        self.read_pv(p, key[2])
                        break
            return self.reads.get(key)
        finally:
            self.reads = saved


class _MachineP:
    def __init__(self, t):
        object.__setattr__(self, "_t", t)

    def __getattr__(self, n):
        return self._t.read_mv(n)

    __getitem__ = __getattr__


class _SettingsP(_MachineP):
    def __getattr__(self, n):
        return self._t.read_setting(n)

    __getitem__ = __getattr__


class _PlayerP:
    def __init__(self, t, who):
        self._t = t
        self._who = who

    def __getattr__(self, n):
        t = self._t
        p = t.read_cur() if self._who is None else t.read_player_at(self._who)
        if p is None:
            raise Missing("no such player")
        return t.read_pv(p, n)

    __getitem__ = __getattr__


class _PlayersP:
    def __init__(self, t):
        self._t = t

    def __getitem__(self, i):
        return _PlayerP(self._t, i)


class _DevAttrP:
    def __init__(self, t, path):
        self._t = t
        self._path = path

    def __getattr__(self, n):
        path = self._path + (n,)
        if len(path) == 3:
            try:
                return self._t.read_dev(*path)
            except (KeyError, AttributeError):
                raise Missing("device path %r" % (path,))
        return _DevAttrP(self._t, path)

    __getitem__ = __getattr__


class PyEval:
    """expected value = Python eval of the expression text over the truth proxies."""

    def __init__(self, truth):
        self.t = truth
        self.globals = {"__builtins__": {}, "__and__": _py_and, "__or__": _py_or,
                        "machine": _MachineP(truth), "settings": _SettingsP(truth),
                        "current_player": _PlayerP(truth, None), "players": _PlayersP(truth),
                        "device": _DevAttrP(truth, ())}

    def run(self, text, kwargs=None):
        """-> (status, value, reads); status 'val' or 'err:<ExceptionName>'."""
        t = self.t
        t.reads = {}
        try:
            g = dict(self.globals)
            if kwargs:
                for k, v in kwargs.items():
                    if k not in g:
                        g[k] = v
            try:
                v = eval(_compile(text), g)     # pylint: disable=eval-used
                st = "val"
            except (TypeError, NameError, Missing) as e:
                v = None
                st = "err:" + type(e).__name__
            return st, v, t.reads
        finally:
            t.reads = None


def _fmt(v):
    r = repr(v)
    return r if len(r) <= 60 else r[:57] + "..."


def _forms(expr, key):
    """How the expression refers to the variable behind a read key: attr / index / attr+index."""
    k = key[0]
    if k == "mv":
        a, i = "machine.%s" % key[1], 'machine["%s"]' % key[1]
    elif k == "set":
        a, i = "settings.%s" % key[1], 'settings["%s"]' % key[1]
    elif k == "pv":
        a, i = ".%s" % key[2], '["%s"]' % key[2]
    elif k == "dev":
        a = "device.%s.%s.%s" % key[1:]
        has_a = a in expr
        has_i = any(s in expr for s in ('device.%s["%s"].%s' % key[1:], 'device["%s"].%s.%s' % key[1:],
                                        'device.%s.%s["%s"]' % key[1:]))
        return "+".join(x for x, f in (("attr", has_a), ("index", has_i)) if f) or "?"
    else:
        return "-"
    fa = a in expr if k != "pv" else any(
        (b + a) in expr for b in ("current_player", "players[0]", "players[1]"))
    fi = i in expr if k != "pv" else any((b + i) in expr for b in ("current_player", "players[0]", "players[1]"))
    return "+".join(x for x, f in (("attr", fa), ("index", fi)) if f) or "?"


# ------------------------------------------------------------------------------------------------
# execution

def _patches(plan):
    patches, mode_patches = {}, {}
    for s in plan["subs"]:
        key = "{%s}" % s["expr"]
        if s["kind"] == "light_mach":
            patches["light_player"] = {key: {"l_mach": "red"}}
        elif s["kind"] == "light_mode":
            mode_patches["m1"] = {"light_player": {key: {"l_mode": "red"}}}
        elif s["kind"] == "evplayer":
            patches["event_player"] = {key: "c16_ep_fired"}
        elif s["kind"] == "coil":
            patches["coils"] = {"c_tmpl": {"default_pulse_ms": s["expr"]}}
    return patches, mode_patches


def on_crash(ctx, crash):
    """MPF must not die because a template met a missing variable or incompatible operand types."""
    import traceback
    exc = crash.exc
    tb = "".join(traceback.format_exception(type(exc), exc, exc.__traceback__)) if exc else ""
    if "is not valid" in str(exc) and "Pulse_ms" in str(exc):
        # the coil's default_pulse_ms template evaluated to a negative number and the driver refused it (C08's
        # business, and the right thing to do): the generated case is outside C16's space
        return "discard"
    if "placeholder_manager" in tb:
        info = ctx.info.get("last_raise") or ""
        root = exc
        while root is not None and root.__cause__ is not None:
            root = root.__cause__
        return ("eval_raises", info or ("crash %s" % type(root).__name__),
                "an exception escaped a template evaluation and reached the loop (MPF stops): %r / root %r"
                % (exc, root))
    return None


def execute(ctx, plan):
    import asyncio
    from mpf.core.placeholder_manager import BaseTemplate

    subs = [dict(s) for s in plan["subs"]]
    if not subs:
        raise Discard("no subscribers left")
    patches, mode_patches = _patches(plan)
    sim = ctx.new_sim("c16", patches=patches, mode_patches=mode_patches)
    m = sim.machine
    loop = sim.loop
    truth = Truth(m)
    py = PyEval(truth)
    by_text = {}
    for i, s in enumerate(subs):
        s["i"] = i
        s["last"] = None
        s["n"] = 0
        s["dead"] = False
        s["ttype"] = {"coil": "int", "loop_bool": "bool", "handler": "bool"}.get(s["kind"], "raw")
        by_text.setdefault(s["expr"], []).append(s)
    last_change = [-1.0]        # instant of the last operation / change
    last_op_step = [0]

    changed_keys = {}         # key -> instant of its last change by an op (for the message only)

    def touched(key):
        changed_keys[key] = loop.time()

    # -- expected values -------------------------------------------------------------------------
    def expected(s, st, v):
        """(primary, alternative) expected results of a subscribed evaluation."""
        if s["ttype"] == "int":
            return (0, 0) if (st != "val" or v is None) else (int(v), int(v))
        if s["ttype"] == "bool":
            return (False, False) if st != "val" else (bool(v), bool(v))
        d = s.get("default")
        if st != "val":
            return d, d
        if v is None:
            return d, None          # relaxation: a None result may be reported as None or as the default
        return v, v

    def describe(st, v):
        return st if st != "val" else _fmt(v)

    # -- tap on subscribed evaluations (observation only) ---------------------------------------------
    orig_eas = BaseTemplate.evaluate_and_subscribe
    orig_eval = BaseTemplate.evaluate

    def cause_of(s):
        e = s["expr"]
        tags = []
        if "[" in e.replace("players[", ""):
            tags.append("index")
        if "(-" in e or e.startswith("-"):
            tags.append("neg")
        try:
            tree = ast.parse(e, mode="eval")
            if any(isinstance(n, ast.Tuple) for n in ast.walk(tree)):
                tags.append("tuple")
        except SyntaxError:
            pass
        return ",".join(tags) or "plain"

    def root_exc(e):
        while e.__cause__ is not None:
            e = e.__cause__
        return e

    def tapped_eas(self, parameters):
        ss = by_text.get(self.text)
        if not ss or self.placeholder_manager is not m.placeholder_manager:
            return orig_eas(self, parameters)
        try:
            value, fut = orig_eas(self, parameters)
        except Exception as e:      # pylint: disable=broad-except
            st, v, _ = py.run(self.text)
            r = root_exc(e)
            sig = "subscribe %s py=%s cause=%s" % (type(r).__name__, st if st != "val" else "val", cause_of(ss[0]))
            ctx.info["last_raise"] = sig
            ctx.log("raise", ss[0]["i"], type(r).__name__, t=loop.time())
            for s in ss:
                s["dead"] = True
            ctx.violation("eval_raises", sig, "evaluate_and_subscribe(%r) raised %r (root %r); Python says %s"
                          % (self.text, e, r, describe(st, v)))
            raise
        for s in ss:
            on_eval(s, value)
        return value, fut

    def tapped_eval(self, parameters, fail_on_missing_params=False):
        ss = by_text.get(self.text)
        if not ss or self.placeholder_manager is not m.placeholder_manager:
            return orig_eval(self, parameters, fail_on_missing_params)
        try:
            return orig_eval(self, parameters, fail_on_missing_params)
        except Exception as e:      # pylint: disable=broad-except
            st, v, _ = py.run(self.text, dict(parameters) if isinstance(parameters, dict) else None)
            r = root_exc(e)
            sig = "evaluate %s py=%s cause=%s" % (type(r).__name__, st if st != "val" else "val", cause_of(ss[0]))
            ctx.info["last_raise"] = sig
            ctx.log("raise", ss[0]["i"], type(r).__name__, t=loop.time())
            ctx.violation("eval_raises", sig, "evaluate(%r, %r) raised %r (root %r); Python says %s"
                          % (self.text, parameters, e, r, describe(st, v)))
            raise

    BaseTemplate.evaluate_and_subscribe = tapped_eas
    BaseTemplate.evaluate = tapped_eval

    def on_eval(s, value):
        now = loop.time()
        st, v, reads = py.run(s["expr"])
        exp, alt = expected(s, st, v)
        s["n"] += 1
        if s["last"] is not None:
            ctx.probe("reeval_after_change")
        s["last"] = {"value": value, "reads": reads, "t": now, "step": loop.steps, "st": st}
        ctx.log("eval", s["i"], _fmt(value), st, t=now)
        if st.startswith("err:TypeError"):
            ctx.probe("default_on_type_error")
        elif st.startswith("err:"):
            ctx.probe("default_on_missing")
        if isinstance(v, tuple):
            ctx.probe("tuple_value")
        if not (_same(value, exp) or _same(value, alt)):
            ctx.violation("eval_mismatch", "subscribed py=%s cause=%s" % (st if st != "val" else "val", cause_of(s)),
                          "template %r evaluated (with subscription) to %s at %.6f, Python gives %s -> expected %s"
                          % (s["expr"], _fmt(value), now, describe(st, v), _fmt(exp)))
            s["last"]["value"] = exp if s["kind"] != "coil" else value
        if s.get("mirror") and not isinstance(value, tuple):
            ctx.probe("mirror_chain")
            truth.set_mv(s["mirror"], value)
            touched(("mv", s["mirror"]))
            m.variables.set_machine_var(s["mirror"], value)

    # -- boot ----------------------------------------------------------------------------------------
    sim.boot()
    m.playfield.add_ball = lambda **kwargs: None
    m.ball_controller.num_balls_known = 3
    for s in subs:
        e = s["expr"]
        if "[" in e.replace("players[", ""):
            ctx.probe("index_access")
        if " and " in e or " or " in e:
            ctx.probe("boolop_all_operands")
        if s["kind"] == "coil":
            ctx.probe("coil_template")
    if plan["flags"].get("slow_stop"):
        # the stop of the game mode takes time (a blocking handler of its stopping queue event, as mode
        # code commonly does): the game object lives on for a while after game_ended
        def slow_stop(queue, **kwargs):
            queue.wait()
            sim.after(0.05, queue.clear)
        m.events.add_handler("mode_game_stopping", slow_stop)
    ep_fired = [0]
    def _ep_fired(**kwargs):
        ep_fired[0] += 1
    m.events.add_handler("c16_ep_fired", _ep_fired)

    # -- re-subscribing loops, exactly like ConfigPlayer._update_subscription -------------------------------
    def start_loop(s):
        if s["kind"] == "loop_bool":
            template = m.placeholder_manager.build_bool_template(s["expr"])
        else:
            template = m.placeholder_manager.build_raw_template(s["expr"], s.get("default"))

        def update(future=None):
            if future:
                try:
                    future.result()
                except asyncio.CancelledError:
                    return
            if m.stop_future.done() or s["dead"]:
                return
            _value, subscription = template.evaluate_and_subscribe([])
            s["future"] = subscription
            subscription.add_done_callback(update)
        update()

    # -- conditional handlers ---------------------------------------------------------------------------------
    pending_inside = []

    def changer(**kwargs):
        if kwargs.get("_c16") is not None and pending_inside:
            inner = pending_inside.pop(0)
            if inner is not None:
                ctx.probe("handler_change_at_dispatch")
                do_op(inner, nested=True)

    def start_handler(s, prio):
        slot = {"exp": None, "called": False}

        def clean(kwargs):
            return {k: v for k, v in kwargs.items() if k not in ("_c16", "queue")}

        def pre(**kwargs):
            st, v, _ = py.run(s["expr"], clean(kwargs))
            slot["exp"] = bool(v) if st == "val" else False
            slot["st"] = st
            slot["v"] = v
            slot["called"] = False

        def cond(**kwargs):
            slot["called"] = True

        def post(**kwargs):
            if slot["exp"] is None:
                return
            exp, slot["exp"] = slot["exp"], None
            ctx.probe("handler_true" if exp else "handler_false")
            ctx.log("handler", s["i"], exp, slot["called"], t=loop.time())
            if slot["called"] != exp:
                ctx.violation("handler_wrong", "%s py=%s cause=%s" % ("not_invoked" if exp else "invoked",
                                                                      slot["st"] if slot["st"] != "val" else "val",
                                                                      cause_of(s)),
                              "handler %s{%s} %s at %.6f with kwargs %r although Python evaluates the condition to %s"
                              % (s["event"], s["expr"], "was invoked" if slot["called"] else "was not invoked",
                                 loop.time(), clean(kwargs), describe(slot["st"], slot["v"])))
        m.events.add_handler(s["event"], pre, priority=prio + 1)
        m.events.add_handler("%s{%s}" % (s["event"], s["expr"]), cond, priority=prio)
        m.events.add_handler(s["event"], post, priority=prio - 1)

    m.events.add_handler("ev_h", changer, priority=5000)
    for s in subs:
        if s["kind"] in ("loop_raw", "loop_bool"):
            try:
                start_loop(s)
            except Exception:       # pylint: disable=broad-except
                if ctx.first_violation is not None:
                    raise ctx.first_violation
                if not s["dead"]:
                    raise
        elif s["kind"] == "handler":
            start_handler(s, 500 - 10 * s["i"])

    # -- freshness checkpoint ------------------------------------------------------------------------------------
    light_of = {"light_mach": "l_mach", "light_mode": "l_mode"}
    def live(s):
        if s["dead"] or s["kind"] == "handler":
            return False
        if s["kind"] == "light_mode":
            md = m.modes["m1"]
            return md.active and not md.stopping and not md._starting
        return True

    def sanity():
        for name, v in truth.mv.items():
            real = m.variables.machine_vars.get(name)
            if real is None or not _same(real["value"], v):
                raise AssertionError("model error: machine var %s shadow %r real %r" % (name, v, real))
        for p, vals in truth.pv.items():
            for name, v in vals.items():
                if name in p.vars and not _same(p.vars[name], v) and name != "score":
                    raise AssertionError("model error: player var %s shadow %r real %r" % (name, v, p.vars[name]))

    def checkpoint(final=False):
        now = loop.time()
        sanity()
        for s in subs:
            if not live(s):
                if s["kind"] == "light_mode" and not m.modes["m1"].active and not m.modes["m1"]._starting:
                    if m.lights["l_mode"].stack:
                        ctx.violation("player_not_acting", "light stays after mode stop",
                                      "l_mode still has a stack entry although mode m1 is not active")
                continue
            last = s["last"]
            if last is None:
                ctx.violation("missed_notification", "never evaluated kind=%s" % s["kind"],
                              "subscriber %r (%s) has never been evaluated" % (s["expr"], s["kind"]))
                continue
            st, v, _ = py.run(s["expr"])
            exp, alt = expected(s, st, v)
            stale_keys = []
            for key in sorted(last["reads"], key=repr):
                snap, ver = last["reads"][key]
                cur = truth.current(key)
                if cur is None:
                    continue
                csnap, cver = cur
                if cver != ver or not _same(snap, csnap):
                    stale_keys.append((key, snap, csnap))
            value_ok = _same(last["value"], exp) or _same(last["value"], alt)
            if stale_keys:
                key, snap, csnap = stale_keys[0]
                kind = key[0]
                if kind == "dev":
                    kind = "dev:%s" % key[2]
                sig = "%s form=%s sub=%s py=%s" % (kind, _forms(s["expr"], key), s["kind"],
                                                   "val" if last["st"] == "val" else last["st"][4:])
                if key[0] == "pv" and csnap is None:
                    sig += " to=None"
                msg = ("subscriber %r (%s) last evaluated at %.6f (value %s) read %r = %s; it is now %s "
                       "(changed at %s) and no notification arrived by %.6f; Python's value now: %s"
                       % (s["expr"], s["kind"], last["t"], _fmt(last["value"]), key, _fmt(snap), _fmt(csnap),
                          changed_keys.get(key, "?"), now, describe(st, v)))
                ctx.log("stale", s["i"], repr(key), value_ok, t=now)
                ctx.violation("missed_notification" if value_ok else "stale_value", sig, msg)
                # known finding: resynchronise (pretend it was evaluated now)
                _, _, reads = py.run(s["expr"])
                last.update(value=exp, reads=reads, t=now, st=st)
                s["resynced"] = True
            elif not value_ok:
                raise AssertionError("model error: no read variable changed but value differs: %r last %r now %r"
                                     % (s["expr"], last["value"], exp))
            # the owner of the subscription acts on the value
            if s.get("resynced"):
                continue
            if s["kind"] in light_of:
                on = bool(m.lights[light_of[s["kind"]]].stack)
                ctx.probe("light_on" if on else "light_off")
                if on != bool(last["value"]):
                    ctx.violation("player_not_acting", "light_player on=%s value=%s" % (on, bool(last["value"])),
                                  "light_player entry {%s}: light %s although the condition evaluated to %s"
                                  % (s["expr"], "on" if on else "off", _fmt(last["value"])))
            elif s["kind"] == "coil":
                got = m.coils["c_tmpl"]._pulse_ms
                if not _same(got, last["value"]):
                    ctx.violation("player_not_acting", "coil pulse_ms", "coil pulse_ms %r, template value %r"
                                  % (got, last["value"]))
        ctx.log("checkpoint", t=now)

    # -- operations -----------------------------------------------------------------------------------------------
    game_op_t = [-1.0]
    any_player_tmpl = any(("current_player" in s["expr"] or "players[" in s["expr"]) for s in subs)
    any_cntp = any("cnt_p" in s["expr"] for s in subs)

    def note_change(key):
        touched(key)
        hit = False
        for s in subs:
            if s["last"] is not None and key in s["last"]["reads"]:
                hit = True
        if not hit:
            ctx.probe("unread_change")

    def do_op(op, nested=False):
        now = loop.time()
        kind = op["op"]
        if now <= last_change[0] + TIME_EPS and not nested:
            ctx.probe("same_instant_burst")
            if 0 < loop.steps - last_op_step[0] <= SOON:
                ctx.probe("change_in_resub_window")
        last_change[0] = now
        last_op_step[0] = loop.steps
        ctx.log("op", kind, op.get("name"), _fmt(op.get("value")), op.get("event"), t=now)
        g = m.game
        if kind == "set_mv":
            truth.set_mv(op["name"], op["value"])
            note_change(("mv", op["name"]))
            m.variables.set_machine_var(op["name"], op["value"])
        elif kind == "remove_mv":
            if op["name"] in truth.mv and truth.mv[op["name"]] is not None:
                ctx.probe("var_removed")
            truth.remove_mv(op["name"])
            note_change(("mv", op["name"]))
            m.variables.remove_machine_var(op["name"])
        elif kind == "set_pv":
            if not truth.in_game():
                return
            who = op["who"]
            p = g.player if who == "cur" else truth.player_at(who)
            if p is None:
                return
            truth.set_pv(p, op["name"], op["value"])
            note_change(("pv", truth.player_key(p), op["name"]))
            p[op["name"]] = op["value"]
        elif kind == "set_setting":
            s = SETTINGS[op["name"]]
            if "raw" in op:
                truth.set_mv(s["mv"], op["raw"])
                if op["raw"] not in s["values"]:
                    ctx.probe("setting_fallback")
                note_change(("set", op["name"]))
                m.variables.set_machine_var(s["mv"], op["raw"])
            else:
                truth.set_mv(s["mv"], op["value"])
                note_change(("set", op["name"]))
                m.settings.set_setting_value(op["name"], op["value"])
        elif kind == "counter":
            m.events.post(op["event"])
        elif kind == "switch":
            sim.hit_switch(op["name"], op["state"])
        elif kind == "post_h":
            pending_inside.append(op.get("inside"))
            et = op.get("etype", "post")
            if et == "queue":
                m.events.post_queue("ev_h", callback=lambda **kwargs: None, _c16=1, **op["kw"])
            elif et == "relay":
                m.events.post_relay("ev_h", _c16=1, **op["kw"])
            elif et == "boolean":
                m.events.post_boolean("ev_h", _c16=1, **op["kw"])
            else:
                m.events.post("ev_h", _c16=1, **op["kw"])
        elif kind in ("game_start", "add_player", "end_ball", "end_game"):
            # one game transition per instant: overlapping transitions are the game's own business (other properties)
            if now <= game_op_t[0] + TIME_EPS:
                return
            if kind == "game_start":
                if g is not None or not m.modes["attract"].active:
                    return
                game_op_t[0] = now
                if any_player_tmpl:
                    ctx.probe("game_start_with_player_tmpl")
                sim.hit_switch("s_start", 1)
                sim.hit_switch("s_start", 0)
                return
            if not truth.in_game() or g.ending or not g.balls_in_play and kind != "add_player":
                return
            if kind == "add_player":
                game_op_t[0] = now
                g.request_player_add()
            elif kind == "end_ball":
                game_op_t[0] = now
                if any_player_tmpl and g.num_players > 1:
                    ctx.probe("turn_change_with_player_tmpl")
                if any_cntp and (g.num_players > 1 or g.player.ball > 0):
                    ctx.probe("mode_counter_swap")
                g.end_ball()
            else:
                game_op_t[0] = now
                if any_player_tmpl:
                    ctx.probe("game_end_with_player_tmpl")
                g.end_game()
        elif kind == "m1_start":
            if any(s["kind"] == "light_mode" for s in subs) and not m.modes["m1"].active:
                ctx.probe("mode_sub_restart")
            m.events.post("m1_start")
        elif kind == "m1_stop":
            m.events.post("m1_stop")
        phase = 0 if m.game is None else (1 + min(2, len(m.game.player_list)))
        ctx.state(phase, kind, sum(1 for s in subs if s["last"] is not None and s["n"] > 1))

    # -- op chain ---------------------------------------------------------------------------------------------------
    ops = plan["ops"]
    idx = [0]
    done = [False]

    def schedule_next():
        if idx[0] >= len(ops):
            done[0] = True
            return
        w = ops[idx[0]].get("when") or ["dt", 0.01]
        if w[0] == "soon":
            hop(w[1])
        else:
            sim.at(loop.time() + w[1], run_op)

    def hop(k):
        if k <= 0:
            loop.call_soon(run_op)
        else:
            loop.call_soon(hop, k - 1)

    def run_op():
        op = ops[idx[0]]
        idx[0] += 1
        # simulated time really advanced (more than the loop's timer resolution, within which due timers are
        # batched into one iteration): the loop has been idle in between, every zero-time chain has drained
        if loop.time() > last_change[0] + TIME_EPS:
            checkpoint()
        do_op(op)
        schedule_next()

    sim.run(0.01)
    checkpoint()
    last_change[0] = loop.time()
    schedule_next()
    guard = 0
    while not done[0]:
        sim.run(0.5)
        guard += 1
        if guard > 400:
            raise AssertionError("op chain did not finish")
    sim.run_quiet(1.0)
    checkpoint(final=True)
    if ep_fired[0]:
        ctx.probe("event_player_fired")
    for s in subs:
        e = s["expr"]
        if " if " in e and s["n"] > 2:
            ctx.probe("ifexp_branch_switch")
