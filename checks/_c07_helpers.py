"""Helpers of the C07 check: an address-free canonical snapshot of everything a mode can leave behind.

The snapshot is a dict  section -> {item string -> count}.  Items never contain object addresses,
uuid-based keys or times, so two snapshots taken in comparable situations compare equal exactly when the
registries hold the same registrations.
"""
import asyncio
import functools
import hashlib
import re

_ADDR = re.compile(r"( at)? 0x[0-9a-fA-F]+")
_UUID = re.compile(r"[0-9a-f]{8}-[0-9a-f]{4}-[0-9a-f]{4}-[0-9a-f]{4}-[0-9a-f]{12}")


def obj_name(o):
    n = getattr(o, "name", None)
    if isinstance(n, str):
        return "%s:%s" % (type(o).__name__, n)
    sec = getattr(o, "config_file_section", None)
    if isinstance(sec, str):
        return "%s:%s" % (type(o).__name__, sec)
    return type(o).__name__


def cb_desc(cb):
    """Describe a callable: qualified name + the *name* of the object it is bound to."""
    if isinstance(cb, functools.partial):
        return "partial(%s;%s;%s)" % (cb_desc(cb.func), canon(cb.args), canon(cb.keywords))
    owner = getattr(cb, "__self__", None)
    if owner is not None and not isinstance(owner, type) and hasattr(cb, "__name__"):
        return "%s.%s@%s" % (type(owner).__qualname__, cb.__name__, obj_name(owner))
    q = getattr(cb, "__qualname__", None)
    if q:
        return "%s.%s" % (getattr(cb, "__module__", "?"), q)
    return type(cb).__qualname__


def canon(v, depth=0):
    """Canonical, address-free, order-independent text of a value."""
    if isinstance(v, str):
        return repr(_UUID.sub("<uuid>", v))
    if v is None or isinstance(v, (bool, int, float)):
        return repr(v)
    if depth > 6:
        return "<deep>"
    if isinstance(v, dict):
        items = sorted((canon(k, depth + 1), canon(x, depth + 1)) for k, x in v.items())
        return "{" + ",".join("%s:%s" % kv for kv in items) + "}"
    if isinstance(v, (list, tuple)):
        return "[" + ",".join(canon(x, depth + 1) for x in v) + "]"
    if isinstance(v, (set, frozenset)):
        return "{" + ",".join(sorted(canon(x, depth + 1) for x in v)) + "}"
    if isinstance(v, asyncio.Future):
        return "<Future %s>" % ("cancelled" if v.cancelled() else "done" if v.done() else "pending")
    if isinstance(v, functools.partial) or callable(v) and (hasattr(v, "__self__") or hasattr(v, "__qualname__")):
        return cb_desc(v)
    tname = type(v).__name__
    if tname in ("Mode",) or hasattr(v, "mode_start") and hasattr(v, "mode_stop") and hasattr(v, "priority"):
        return "<Mode.%s>" % getattr(v, "name", "?")
    if hasattr(v, "config_section") and isinstance(getattr(v, "name", None), str):
        return "<%s.%s>" % (tname, v.name)
    if tname == "ConditionalEvent":
        return "<ConditionalEvent %s %s %s>" % (canon(getattr(v, "name", None)), canon(getattr(v, "condition", None), depth + 1),
                                                canon(getattr(v, "number", None)))
    if hasattr(v, "template") and hasattr(v, "evaluate"):
        return "<%s %r>" % (tname, getattr(v, "text", None) or _ast_text(v.template))
    r = repr(v)
    r = _ADDR.sub("", r)
    r = _UUID.sub("<uuid>", r)
    return r


def _ast_text(node):
    try:
        import ast
        return ast.dump(node)
    except Exception:     # pylint: disable=broad-except
        return "?"


def short(s, n=160):
    if len(s) <= n:
        return s
    return s[:n - 14] + "..#" + hashlib.md5(s.encode()).hexdigest()[:10]


def _add(sec, item, n=1):
    sec[item] = sec.get(item, 0) + n


def snapshot(sim, skip_callback=None):
    """Canonical registries of the machine.  `skip_callback(cb)` -> True for harness-owned callbacks."""
    m = sim.machine
    skip = skip_callback or (lambda cb: False)
    snap = {}

    # 1. event handlers
    sec = snap["event_handlers"] = {}
    for event, handlers in m.events.registered_handlers.items():
        for h in handlers:
            if skip(h.callback):
                continue
            kw = {k: v for k, v in h.kwargs.items()}
            _add(sec, short("%s <- %s prio=%d kw=%s cond=%s block=%s" % (
                event, cb_desc(h.callback), h.priority, canon(kw), canon(h.condition), canon(h.blocking_facility)), 400))
    # dispatcher tasks of queue events that are still running (a finished task leaves the list one iteration later)
    npend = sum(1 for t in m.events._queue_tasks if not t.done())
    snap["queue_tasks"] = {"pending": npend} if npend else {}

    # 2. switch handlers (registered + armed timed handlers)
    sec = snap["switch_handlers"] = {}
    sc = m.switch_controller
    for sw, by_state in sc.registered_switches.items():
        for state, entries in enumerate(by_state):
            for e in entries:
                if skip(e.callback):
                    continue
                _add(sec, short("%s/%d <- %s ms=%s" % (sw.name, state, cb_desc(e.callback), e.ms), 300))
    sec = snap["switch_timed_armed"] = {}
    for sw, by_time in sc._active_timed_switches.items():
        for _t, entries in by_time.items():
            for e in entries:
                if skip(e.callback):
                    continue
                _add(sec, short("%s <- %s state=%s ms=%s" % (getattr(sw, "name", sw), cb_desc(e.callback), e.state, e.ms), 300))

    # 3. per-mode bookkeeping
    sec = snap["mode_bookkeeping"] = {}
    for name in sorted(m.modes.keys()):
        mode = m.modes[name]
        for dname, (_h, cb) in mode.delay.delays.items():
            _add(sec, "%s.delay <- %s" % (name, cb_desc(cb)))
        for attr in ("event_handlers", "switch_handlers", "mode_devices", "stop_methods", "stop_callbacks"):
            n = len(getattr(mode, attr))
            if n:
                _add(sec, "%s.%s" % (name, attr), n)
        if mode._mode_start_wait_queue is not None:
            _add(sec, "%s._mode_start_wait_queue" % name)
    snap["active_modes"] = {x.name: 1 for x in m.mode_controller.active_modes}

    # 4. delay managers outside the modes
    sec = snap["delays"] = {}
    for dname, (_h, cb) in m.delay.delays.items():
        _add(sec, "machine.delay <- %s" % cb_desc(cb))
    for coll_name in sorted(m.device_manager.collections.keys()):
        coll = m.device_manager.collections[coll_name]
        for dev_name in sorted(coll.keys()):
            dev = coll[dev_name]
            dm = getattr(dev, "delay", None)
            if dm is not None and hasattr(dm, "delays"):
                for _n, (_h, cb) in dm.delays.items():
                    _add(sec, "%s.%s.delay <- %s" % (coll_name, dev_name, cb_desc(cb)))

    # 5. config players
    sec = snap["config_players"] = {}
    for pname in sorted(m.config['mpf']['config_players'].keys()):
        player = getattr(m, "%s_player" % pname, None)
        if player is None:
            continue
        for mode in player.mode_event_keys.keys():
            keys, subs = player.mode_event_keys[mode]
            _add(sec, "%s.mode_event_keys[%s] keys=%d subs=%d" % (pname, getattr(mode, "name", mode), len(keys), len(subs)))
        for context in sorted(player.instances.keys()):
            for section, inst in player.instances[context].items():
                for k, v in inst.items():
                    # an empty dict is not a registration; entries are
                    _add(sec, short("%s.instances[%s][%s] %s -> %s" % (pname, _UUID.sub("<uuid>", str(context)) if not
                                    str(context).startswith("show_") else "show_<n>", section, canon(k), canon(v)), 300))
        dm = getattr(player, "delay", None)
        if dm is not None and hasattr(dm, "delays"):
            for _n, (_h, cb) in dm.delays.items():
                _add(sec, "%s.delay <- %s" % (pname, cb_desc(cb)))
        blocks = getattr(player, "blocks", None)
        if blocks:
            for item, lst in blocks.items():
                for b in lst:
                    _add(sec, "%s.blocks[%s] prio=%s ctx=%s" % (pname, item, b.priority, b.context))

    # 6. device state a mode controls
    sec = snap["devices"] = {}
    for name in sorted(getattr(m, "lights", {}).keys()):
        for e in m.lights[name].stack:
            _add(sec, "light %s stack key=%s prio=%s color=%s" % (name, e.key, e.priority, canon(e.dest_color)))
    for name in sorted(getattr(m, "coils", {}).keys()):
        hw = m.coils[name].hw_driver
        st = getattr(hw, "state", None)
        if st == "enabled":     # a finished pulse leaves "pulsed_<ms>" behind in the virtual driver: not a registration
            _add(sec, "coil %s hw_state=%s" % (name, st))
    for name in sorted(getattr(m, "timers", {}).keys()):
        t = m.timers[name]
        if t.running:
            _add(sec, "timer %s running" % name)
        if t.timer is not None:
            _add(sec, "timer %s has clock task" % name)
        if t.mode is not None:
            _add(sec, "timer %s bound to mode" % name)
    for name in sorted(getattr(m, "shots", {}).keys()):
        sh = m.shots[name]
        if sh._handlers:
            _add(sec, "shot %s holds hit handlers" % name, len(sh._handlers))
        if sh.running_show is not None:
            _add(sec, "shot %s has a running show" % name)
        # (shot.mode keeps pointing at the stopped mode - a stale attribute, not a registration)
    for coll_name in ("counters", "accruals", "sequences"):
        for name in sorted(getattr(m, coll_name, {}).keys()):
            d = getattr(m, coll_name)[name]
            if d._state is not None:
                _add(sec, "%s %s has state (enabled=%s)" % (coll_name, name, bool(d._state.enabled)))
            if d.mode is not None:
                _add(sec, "%s %s bound to mode" % (coll_name, name))

    # 7. everything scheduled on the clock (catches any other leaked callback: show steps, ticks, delays)
    sec = snap["loop_timers"] = {}
    for h in sim.loop._scheduled:
        if h._cancelled:
            continue
        cb = h._callback
        owner = getattr(cb, "__self__", None)
        if type(owner).__name__ == "PeriodicTask":
            if owner._canceled:
                continue
            if skip(owner._callback):
                continue
            _add(sec, short("periodic %s" % cb_desc(owner._callback), 300))
            continue
        if isinstance(owner, asyncio.Future) or skip(cb):
            continue
        if getattr(cb, "__name__", "") == "_set_result_unless_cancelled":
            continue
        inner = cb.func if isinstance(cb, functools.partial) else cb
        if getattr(inner, "__name__", "") == "_process_active_timed_switches":
            # R4: the switch controller's wake-up for timed handlers stays scheduled after the handlers were removed
            # and then finds nothing to do; the handlers themselves are listed under switch_timed_armed
            continue
        _add(sec, short("once %s" % cb_desc(cb), 300))
    return snap


def restrict(snap, regex):
    """The items of a snapshot that mention one of the given owners (mode or device names)."""
    return {sec: {item: n for item, n in items.items() if regex.search(item)} for sec, items in snap.items()}


def diff(base, cur):
    """Readable list of differences (+ = only in cur / more often in cur)."""
    out = []
    for secname in sorted(set(base) | set(cur)):
        b = base.get(secname, {})
        c = cur.get(secname, {})
        for item in sorted(set(b) | set(c)):
            nb, nc = b.get(item, 0), c.get(item, 0)
            if nb != nc:
                out.append("%s[%s] %s: %d -> %d" % ("+" if nc > nb else "-", secname, item, nb, nc))
    return out


def digest(snap):
    h = hashlib.md5()
    for secname in sorted(snap):
        for item in sorted(snap[secname]):
            h.update(("%s|%s|%d\n" % (secname, item, snap[secname][item])).encode())
    return h.hexdigest()[:12]
