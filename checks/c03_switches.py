"""C03 - Switch state mirrors the hardware; handlers fire once per real change.

SUT: real SwitchController + six real Switch devices (NO, NC, configured immediate/timed events, tags,
ignore window) on the virtual platform.
Workload: a timeline of switch reports (raw by number as a platform does it, raw/logical by name, duplicates),
handler registrations / removals (also from inside handler callbacks) and is_active/is_inactive queries,
placed on / around pending hold-time deadlines and at chosen phases of the hold interval.
Oracle: models/switches.py, driven by the order in which the loop processed things.
"""
from sim.harness import draw_knobs

ID = "C03"
LEVEL = "exploration"
RUNS = {"quick": 6000, "thorough": 200000}       # ~25 ms CPU per run (fork + boot + ~12 simulated s)
WALL_CAP = {"quick": 90, "thorough": 1500}
RULE = ("one case = one generated timeline (6-34 ops) of switch reports (raw by number / raw by name / logical, "
        "toggles, duplicates), handler add/remove (hold times 0/1/50/250/1000 ms or 'the current gap' +-1, some "
        "nested inside handler callbacks, some registered twice) and is_active/is_inactive queries on 1-3 of six "
        "switches, with instants biased onto pending hold-time deadlines (+-1 ms), onto chosen phases of the hold "
        "interval (half, -1 ms, =, +1 ms, x2, +5 s) and onto the instant of the previous op; executed on the real "
        "SwitchController under a seeded scheduler (stalls across deadlines, tie permutations); non-trivial = "
        "reached at least one reach probe; distinct = distinct sequence of observed event kinds")
PROBES = ["report_real_change", "report_duplicate", "report_nc_raw", "report_nc_logical",
          "add_in_state_before_deadline", "add_in_state_at_deadline", "add_in_state_after_deadline",
          "add_in_state_long_after", "remove_with_pending_arm", "same_deadline_two_handlers",
          "op_on_deadline", "report_on_deadline", "change_in_deadline_instant", "timed_cancelled_by_change",
          "change_before_deadline_in_stall",
          "timed_fire", "timed_fire_late_after_stall", "configured_timed_event_fire", "ign_window_delayed_post",
          "nested_op_in_untimed", "nested_op_in_timed", "nested_add_timed_in_timed", "self_remove_in_callback",
          "double_registration", "remove_double_registration_pending",
          "query_true", "query_false", "query_boundary", "same_instant_group"]
REAL = ["mpf.core.switch_controller.SwitchController", "mpf.devices.switch.Switch (NO/NC, configured events, tags, "
        "ignore window)", "mpf.core.events.EventManager", "MachineController boot", "virtual platform switch objects"]
STUBS = ["event loop (SimLoop: virtual time, stalls, tie order)", "clock (SimClock)", "in-memory data manager"]
ASSUMPTIONS = ["reports carry no explicit timestamp (MPF stamps them with the loop time when it processes them)",
               "time does not advance inside one loop iteration; lateness only through injected stalls",
               "handler callbacks never report switch changes themselves (they do add/remove handlers and query)"]
STATE_ABSTRACTION = "(states of the focus switches, number of pending hold-time entries, last op kind)"

# mirrors machines/c03/config/config.yaml (checked at boot)
SWITCHES = {
    "s_no": {"now": {1: ["s_no_active"], 0: ["s_no_inactive"]}},
    "s_nc": {"nc": True, "now": {1: ["s_nc_active"], 0: ["s_nc_inactive"]}},
    "s_evt": {"now": {1: ["s_evt_active", "c03_act_now"], 0: ["s_evt_inactive", "c03_deact_now"]},
              "timed": {1: [("c03_act_250", 250)], 0: [("c03_deact_100", 100)]}},
    "s_tag": {"now": {1: ["s_tag_active", "sw_c03tag", "sw_c03tag_active", "sw_c03other", "sw_c03other_active"],
                      0: ["s_tag_inactive", "sw_c03tag_inactive", "sw_c03other_inactive"]}},
    "s_ign": {"ign": 0.3, "now": {1: ["s_ign_active"], 0: ["s_ign_inactive"]}},
    "s_nc_evt": {"nc": True,
                 "now": {1: ["s_nc_evt_active", "sw_c03tag", "sw_c03tag_active"],
                         0: ["s_nc_evt_inactive", "sw_c03tag_inactive", "c03_nc_deact_now"]},
                 "timed": {1: [("c03_nc_act_50", 50)]}},
}
NAMES = list(SWITCHES)
NOW_EVENTS = sorted({e for s in SWITCHES.values() for st in (0, 1) for e in s.get("now", {}).get(st, [])})
TIMED_EVENTS = sorted({e for s in SWITCHES.values() for st in (0, 1) for e, _ in s.get("timed", {}).get(st, [])})
WATCHED = set(NOW_EVENTS) | set(TIMED_EVENTS)

MS_SPECS = [(0, 3), (50, 3), (250, 2), (1, 1), (1000, 1), ("gap", 1.5), ("gap-1", 0.7), ("gap+1", 0.7)]
REL_DT = [0.0, 0.001, 0.01, 0.049, 0.05, 0.051, 0.1, 0.249, 0.25, 0.251, 0.3, 0.5, 1.0, 1.001, 2.0, 6.0]
PHASES = ["half", "m1", "eq", "p1", "x2", "far"]


def _gen_ms(ch):
    return ch.weighted("ms", MS_SPECS)


def _gen_inside(ch, focus):
    out = []
    for _ in range(1 + ch.choice("nin", 2)):
        k = ch.weighted("in_kind", [("add", 3), ("remove", 3), ("remove_self", 1.5), ("query", 1)])
        o = {"op": k, "sw": ch.pick("in_sw", focus)}
        if k == "add":
            o.update(state=ch.weighted("in_state", [("cur", 3), ("other", 2)]), ms=_gen_ms(ch), dup=False, info=False)
        elif k == "remove":
            o.update(idx=ch.choice("in_idx", 8))
        elif k == "query":
            o.update(state=ch.choice("in_qstate", 2), ms=_gen_ms(ch))
        out.append(o)
    return out


def _gen_op(ch, focus):
    kind = ch.weighted("op", [("report", 6), ("add", 5), ("remove", 2), ("query", 2)])
    op = {"op": kind, "sw": ch.pick("sw", focus)}
    if kind == "report":
        op["via"] = ch.weighted("via", [("num_raw", 4), ("name_logical", 2), ("name_raw", 1), ("num_logical", 1)])
        op["val"] = ch.weighted("val", [("toggle", 6), ("dup", 2), ("one", 1), ("zero", 1)])
    elif kind == "add":
        op["state"] = ch.weighted("state", [("cur", 3), ("other", 2), (1, 1), (0, 1)])
        op["ms"] = _gen_ms(ch)
        op["dup"] = ch.flag("dup", 0.08)
        op["info"] = ch.flag("info", 0.3)
        if ch.flag("nest", 0.2):
            op["inside"] = _gen_inside(ch, focus)
    elif kind == "remove":
        op["idx"] = ch.choice("idx", 8)
        op["how"] = ch.weighted("how", [("key", 1), ("args", 1)])
    else:
        op["state"] = ch.choice("qstate", 2)
        op["ms"] = _gen_ms(ch)
    w = ch.weighted("when", [("rel", 4), ("deadline", 4), ("phase", 3 if kind in ("add", "query") else 0.5),
                             ("same", 1.5)])
    if w == "rel":
        op["when"] = ["rel", ch.pick("dt", REL_DT)]
    elif w == "deadline":
        op["when"] = ["deadline", ch.choice("dl_idx", 4), ch.pick("dl_delta", [0.0, 0.0, -0.001, 0.001])]
    elif w == "phase":
        op["when"] = ["phase", ch.pick("phase", PHASES), ch.pick("phase_ms", [50, 250, 1, 1000])]
    else:
        op["when"] = ["same"]
    return op


def plan(ch, tier):
    knobs = draw_knobs(ch)
    perm = ch.shuffle_perm("focus_perm", len(NAMES))
    nf = 1 + ch.choice("nfocus", 3)
    focus = [NAMES[i] for i in perm[:nf]]
    listen = [e for e in NOW_EVENTS if not ch.flag("unlisten", 0.15)]
    n = 6 + ch.choice("nops", 29)
    ops = [_gen_op(ch, focus) for _ in range(n)]
    return {"knobs": knobs, "focus": focus, "listen": listen, "ops": ops}


def shrink(plan):
    ops = plan["ops"]
    for i, op in enumerate(ops):
        alts = []
        if op.get("inside"):
            alts.append({k: v for k, v in op.items() if k != "inside"})
            if len(op["inside"]) > 1:
                for j in range(len(op["inside"])):
                    alts.append(dict(op, inside=op["inside"][:j] + op["inside"][j + 1:]))
        if op.get("dup"):
            alts.append(dict(op, dup=False))
        if op.get("info"):
            alts.append(dict(op, info=False))
        if op["when"][0] == "same":
            alts.append(dict(op, when=["rel", 0.0]))
        if op["when"][0] == "rel" and op["when"][1] not in (0.0, 0.01):
            alts.append(dict(op, when=["rel", 0.01]))
        if op["op"] == "report" and op["via"] != "name_logical":
            alts.append(dict(op, via="name_logical"))
        for a in alts:
            p = dict(plan)
            p["ops"] = ops[:i] + [a] + ops[i + 1:]
            yield p
    if len(plan["focus"]) > 1:
        for f in plan["focus"]:
            used = {o["sw"] for o in ops} | {x["sw"] for o in ops for x in o.get("inside", [])}
            if f not in used:
                yield dict(plan, focus=[x for x in plan["focus"] if x != f])


def warm():
    """Zygote warm-up: parse the YAML once and boot one throw-away machine, so that the lazily imported device /
    platform / config-player modules and MPF's process-wide caches (config spec, event-string lru caches) are
    already there when a child is forked.  Every child forks from the same warmed image, so a run stays a pure
    function of (plan, tapes, code); it only makes the per-run boot ~5x cheaper (85 ms -> 17 ms)."""
    from sim.machine import preload, Sim, install_global_determinism
    from sim.chooser import Chooser
    import models.switches      # noqa: F401
    preload("c03")
    install_global_determinism("warm")
    s = Sim(Chooser(seed="warm"), "c03")
    s.boot()
    s.run(0.05)
    s.stop()


def on_crash(ctx, crash):
    """An exception escaped from MPF code into the loop: MPF would shut down because of a switch report /
    handler registration.  The statement implies that never happens.  Exceptions out of harness code stay errors."""
    import traceback
    exc = crash.exc
    if exc is None:
        return None
    frames = traceback.extract_tb(exc.__traceback__)
    if not frames:
        return None
    last = frames[-1]
    if "/mpf/" not in last.filename:
        return None
    sig = "%s in %s" % (type(exc).__name__, last.name)
    return ("mpf_crash", sig, "%s: %s raised in %s (%s:%d) reached the event loop: MPF stops"
            % (type(exc).__name__, exc, last.name, last.filename.split("/mpf/")[-1], last.lineno))


def execute(ctx, plan):
    from sim.tap import EventLog
    from models.switches import Model, EPS

    sim = ctx.new_sim("c03")
    sim.boot()
    m = sim.machine
    loop = sim.loop
    sc = m.switch_controller
    platform = m.default_platform
    focus = plan["focus"]

    # the model table must mirror the machine config
    for name, spec in SWITCHES.items():
        sw = m.switches[name]
        assert sw.invert == (1 if spec.get("nc") else 0), name
        assert abs(sw.recycle_secs - spec.get("ign", 0.0)) < 1e-9, name
        assert sw.state == 0, name

    def stall_start(now):
        sl = loop.stall_log
        if sl and abs(sl[-1][1] - now) <= 1e-9:
            return sl[-1][0]
        return None

    model = Model(SWITCHES, ctx.violation, ctx.probe, sim.late_ok, stall_start)
    model.listened = set(plan["listen"])

    def _noop(**kwargs):
        del kwargs
    for ev in plan["listen"]:
        m.events.add_handler(ev, _noop)

    elog = EventLog(sim, want=lambda n: n in WATCHED, ctx=ctx)
    elog.listeners.append(lambda t, name, kw: model.on_event(name, t))

    handles = {}       # token id -> (SwitchHandler key, raw callback, how registered)
    nest_budget = {}

    def resolve_ms(spec, swname, now):
        if isinstance(spec, int):
            return spec
        s = model.sw[swname]
        if s.last_change is None:
            return 50
        gap = int(round((now - s.last_change) * 1000.0))
        gap += {"gap": 0, "gap-1": -1, "gap+1": 1}[spec]
        return min(max(gap, 1), 3000)

    def resolve_state(spec, swname):
        cur = model.sw[swname].state
        if spec == "cur":
            return cur
        if spec == "other":
            return 1 - cur
        return spec

    def check_states(now):
        for name in focus:
            sw = m.switches[name]
            s = model.sw[name]
            if sw.state != s.state:
                ctx.violation("state_mismatch", "logical state", "%s.state=%r, last report says %r at %.6f"
                              % (name, sw.state, s.state, now))
            if s.last_change is not None and sw.hw_state != (s.state ^ s.nc):
                ctx.violation("state_mismatch", "hw_state", "%s.hw_state=%r but logical %r, NC=%r at %.6f"
                              % (name, sw.hw_state, s.state, s.nc, now))

    def do_query(swname, state, ms, now):
        sw = m.switches[swname]
        exp = model.query(swname, state, ms, now)
        got = [sc.is_state(sw, state, ms), sc.is_active(sw, ms) if state else sc.is_inactive(sw, ms)]
        ctx.log("query", swname, state, ms, got, t=now)
        ctx.probe("query_boundary" if exp is None else ("query_true" if exp else "query_false"))
        if got[0] != got[1]:
            ctx.violation("query_mismatch", "is_state vs is_active", "is_state=%r is_(in)active=%r" % tuple(got))
        if exp is not None and bool(got[0]) != exp:
            s = model.sw[swname]
            ctx.violation("query_mismatch", "is_%s(ms)" % ("active" if state else "inactive"),
                          "is_state(%s, %d, ms=%d)=%r at %.6f; model: state %d since %r"
                          % (swname, state, ms, got[0], now, s.state, s.last_change))

    def mk_callback(tok, inside, info):
        def cb(**kwargs):
            now = loop.time()
            ctx.log("call", tok.id, tok.sw, tok.state, tok.ms, sorted(kwargs.items()), t=now)
            exp_kw = {"tok": tok.id}
            if info:
                exp_kw.update(switch_name=tok.sw, state=tok.state, ms=tok.ms)
            if kwargs != exp_kw:
                ctx.violation("wrong_args", "handler kwargs", "%r called with %r, expected %r" % (tok, kwargs, exp_kw))
            if tok.ms:
                model.on_timed_fire(tok, now)
            else:
                model.on_untimed_call(tok, now)
            if inside and nest_budget.get(tok.id, 0) < 2:
                nest_budget[tok.id] = nest_budget.get(tok.id, 0) + 1
                for sub in inside:
                    ctx.probe("nested_op_in_timed" if tok.ms else "nested_op_in_untimed")
                    if sub["op"] == "add" and tok.ms and resolve_ms(sub["ms"], sub["sw"], now):
                        ctx.probe("nested_add_timed_in_timed")
                    do_op(sub, nested_in=tok)
        return cb

    def do_add(op, now):
        swname = op["sw"]
        state = resolve_state(op["state"], swname)
        ms = resolve_ms(op["ms"], swname, now)
        mult = 2 if op.get("dup") else 1
        info = bool(op.get("info")) and mult == 1
        tok = model.add(swname, state, ms, mult, now)
        ctx.log("add", tok.id, swname, state, ms, mult, info, len(tok.arms), tok.never_reason, t=now)
        raw_cb = mk_callback(tok, op.get("inside"), info)
        if mult == 2:
            ctx.probe("double_registration")
            # the very same callable registered twice (kwargs would wrap it in two distinct partials)

            def plain(_cb=raw_cb, _tid=tok.id):
                _cb(tok=_tid)
            k1 = sc.add_switch_handler(swname, plain, state, ms)
            sc.add_switch_handler(swname, plain, state, ms)
            handles[tok.id] = (k1, plain, "plain")
        else:
            key = sc.add_switch_handler(swname, raw_cb, state=state, ms=ms, return_info=info,
                                        callback_kwargs={"tok": tok.id})
            handles[tok.id] = (key, raw_cb, "kw")
        return tok

    def do_remove(op, now, nested_in=None):
        if op["op"] == "remove_self":
            tok = nested_in
            if tok is None or tok.removed:
                return
            ctx.probe("self_remove_in_callback")
        else:
            live = model.live_tokens()
            live = [t for t in live if t.sw in focus]
            if not live:
                return
            tok = live[op["idx"] % len(live)]
        pend = any(a.live and a.fired < tok.mult for a in tok.arms)
        if pend and tok.mult == 2:
            ctx.probe("remove_double_registration_pending")
        model.remove(tok, now)
        ctx.log("remove", tok.id, pend, t=now)
        key, cb, how = handles[tok.id]
        if how == "plain" and op.get("how") == "args":
            sc.remove_switch_handler(tok.sw, cb, tok.state, tok.ms)
        else:
            sc.remove_switch_handler_by_key(key)

    def do_report(op, now):
        swname = op["sw"]
        s = model.sw[swname]
        want = {"toggle": 1 - s.state, "dup": s.state, "one": 1, "zero": 0}[op["val"]]
        logical = op["via"].endswith("logical")
        send = want if logical else want ^ s.nc
        pend = model.pending_deadlines(now)
        if any(abs(d - now) <= EPS for d in pend):
            ctx.probe("report_on_deadline")
        real = model.begin_report(swname, send, logical, now)
        ctx.log("report", swname, op["via"], send, real, t=now)
        sw = m.switches[swname]
        try:
            if op["via"].startswith("num"):
                sc.process_switch_by_num(sw.hw_switch.number, send, platform, logical=logical)
            else:
                sc.process_switch(swname, send, logical=logical)
        finally:
            if ctx.first_violation is None:
                model.end_report(now)
            else:
                model.dispatch = None
        check_states(now)

    def do_op(op, nested_in=None):
        now = loop.time()
        kind = op["op"]
        if kind == "report":
            do_report(op, now)
        elif kind == "add":
            do_add(op, now)
        elif kind in ("remove", "remove_self"):
            do_remove(op, now, nested_in)
        else:
            do_query(op["sw"], op["state"], resolve_ms(op["ms"], op["sw"], now), now)
        if nested_in is None:
            ctx.state(tuple(model.sw[n].state for n in focus), min(model.n_pending(), 6), kind)

    # -- op chain: groups of ops scheduled for the same instant race with each other and with MPF's timers ---
    ops = plan["ops"]
    idx = [0]
    remaining = [0]
    done = [False]

    def resolve_when(op):
        w = op["when"]
        now = loop.time()
        if w[0] == "rel":
            return now + w[1]
        if w[0] == "deadline":
            dls = model.pending_deadlines(now)
            if not dls:
                return now + 0.01
            d = dls[w[1] % len(dls)]
            if w[2] == 0.0:
                ctx.probe("op_on_deadline")
                return max(now, d)
            return max(now, d + w[2])
        if w[0] == "phase":
            s = model.sw[op["sw"]]
            ms = op["ms"] if isinstance(op.get("ms"), int) and op.get("ms") else w[2]
            if s.last_change is None:
                return now + 0.01
            off = {"half": ms / 2000.0, "m1": ms / 1000.0 - 0.001, "eq": ms / 1000.0, "p1": ms / 1000.0 + 0.001,
                   "x2": ms / 500.0, "far": ms / 1000.0 + 5.0}[w[1]]
            return max(now, s.last_change + off)
        return now      # "same" as the first op of a group

    def schedule_group():
        if idx[0] >= len(ops):
            done[0] = True
            return
        group = [ops[idx[0]]]
        idx[0] += 1
        while idx[0] < len(ops) and ops[idx[0]]["when"][0] == "same":
            group.append(ops[idx[0]])
            idx[0] += 1
        t = resolve_when(group[0])
        remaining[0] = len(group)
        if len(group) > 1:
            ctx.probe("same_instant_group")
        for op in group:
            sim.at(t, run_op, op)

    def run_op(op):
        do_op(op)
        remaining[0] -= 1
        if remaining[0] == 0:
            schedule_group()

    schedule_group()
    guard = 0
    while not done[0]:
        sim.run(1.0)
        guard += 1
        if guard > 2000:
            raise AssertionError("op chain did not finish")
    # hold times are <= 3 s; settle without stalls, then every surviving deadline must have been honoured
    sim.run_quiet(4.0)
    end = loop.time()
    check_states(end)
    for name in focus:
        for st in (0, 1):
            do_query(name, st, 0, end)
    model.finish(end)
