"""Helpers of the C19 check.

* FeedClient: the real BCPClientSocket (read_message, _process_command, send, hello/goodbye handling are
  inherited unchanged); only connect() differs: instead of opening a TCP connection it creates a real
  asyncio.StreamReader which the workload feeds with reader.feed_data(chunk), and a recording writer.
  Selected through the ordinary config seam `bcp: connections: <name>: type: checks._c19_helpers.FeedClient`.
* value generators for parameter dictionaries (plan side, pure functions of the chooser)
* input classes (which wire-format hazards a message contains) and typed equality
"""
import asyncio
import math
import re

from sim import ensure_repo_import

ensure_repo_import()

from mpf.core.bcp.bcp_socket_client import BCPClientSocket      # noqa: E402


class _StubTransport:

    def __init__(self):
        self.closing = False

    def is_closing(self):
        return self.closing


class FeedWriter:
    """MPF -> media controller direction.  Records what MPF writes; answers `reset` with `reset_complete`
    in-band (through the same StreamReader) like a media controller does, otherwise MPF's boot would wait for ever."""

    def __init__(self, client):
        self.client = client
        self.transport = _StubTransport()
        self.lines = []

    def write(self, data):
        self.lines.append(bytes(data))
        if data == b"reset\n":
            self.client._receiver.feed_data(b"reset_complete\n")

    def close(self):
        self.transport.closing = True


class FeedClient(BCPClientSocket):
    """BCPClientSocket whose socket is replaced by a StreamReader fed by the test workload."""

    async def connect(self, config):
        del config
        # same construction as asyncio.open_connection(): default limit (64 KiB), the machine's loop
        self._receiver = asyncio.StreamReader(loop=self.machine.clock.loop)
        self._sender = FeedWriter(self)
        self.send_hello()
        return True


# ------------------------------------------------------------------------------------------------
# value generation (plan side)

PLAIN = ["hello", "Foo Bar", "", "x", "player1_score", "0", "7", "-1", "1.5", "True", "None", "a b  c"]
SEPARATORS = ["&", "=", "?", "#", "+", ";", "/", ":", " ", "a&b=c", "?x=1#frag", "a+b", "&&", "==", "k=v&k2=v2",
              "//host/path", "http://x.y/z?q=1", ",", "|", "~", "@", "$", "!", "*", "'", "(", ")"]
PERCENT_SAFE = ["%", "100%", "%%", "% 5", "%zz", "%4", "50%!", "%g1", "%-1", "5%x", "% ", "%%%"]
CONTROLS = ["\n", "\r\n", "\t", "\x00", "\x7f", "line1\nline2", "\r", "\x1b[0m", "\x0b", "\n\n", " \n"]
UNICODE = ["\u00e9", "\u00df", "\u65e5\u672c\u8a9e", "\U0001F600", "\u202e", "\ufeff", "\u00a0", "a\u0300",
           "\U0001F3B1", "\u0416", "\u05d0", "\uffff", "\U0010ffff", "\u2028", "\u0080", "\u00ff", "\u0100",
           "\u20ac", "\u0085"]
TYPE_LIKE_SAFE = ["int", "int :5", "Int:5", "integer:5", " int:5", "5:int", "bool:maybe", "NoneType", "NoneType:x",
                  "none", "float", "floats:1", "bool:", "bool:truex", "FLOAT:1", "INT:1", "nonetype:", "bool: true",
                  "str:abc", "x int:5"]
JSON_LIKE = ['{"a": 1}', "[1,2]", "json=", "json={}", '"', "\\", "\\n", "\\u0041", "'", '{"', '"}', "null", "true",
             "Infinity", "NaN", '\\"', "}{", "]["]
MARKER_LIKE_SAFE = ["&bytes", "bytes=5", "&byte=3", "bytes", "&Bytes=3", "& bytes=1"]
WHITESPACE = [" lead", "trail ", "  ", " ", "\u3000"]
POOLS = [(PLAIN, 4), (SEPARATORS, 4), (PERCENT_SAFE, 3), (CONTROLS, 2), (UNICODE, 3), (TYPE_LIKE_SAFE, 3),
         (JSON_LIKE, 2), (MARKER_LIKE_SAFE, 1), (WHITESPACE, 1)]
ALPHABET = "abcXYZ019 _-.~&=?#%+:/\\\"'{}[],;\n\u00e9\u20ac\U0001F600"

# known-bad input classes (DESIGN section 7, F-C19) - generated only in a minority of runs
BAD_VALUES = {
    "str_type_prefix": ["int:5", "int:-12", "int: 7 ", "int:0", "float:1", "float:1e3", "float:nan", "float:inf",
                        "float:-0.0", "bool:true", "bool:False", "BOOL:TRUE", "Bool:false", "NoneType:",
                        "int:1_000"],
    "str_type_prefix_invalid": ["int:abc", "int:", "int:5.5", "float:", "float:x", "float:1,5", "int:0x10"],
    "str_percent_hex": ["100%25", "%41", "a%20b", "%2B", "%e2%82%ac", "50%25 off", "%00", "%C3%28", "%7e",
                        "x%3Dy", "%2525", "\u00e9%41"],
    "json_bytes_marker": ["x&bytes=3", "&bytes=", "&bytes=12", "a&bytes=1&bytes=2"],
}
BAD_CLASSES = ["str_type_prefix", "str_percent_hex", "str_type_prefix_invalid", "json_bytes_marker", "key_bytes",
               "key_json_first", "key_client", "garbage_line"]

# lines no encoder produces (line noise, a broken or foreign peer): they cannot be decoded, the receiver has to
# survive them and go on with the next line.  Only lines whose end is known (nothing announces a payload).
GARBAGE_LINES = ['c19_a?json={"k": ', 'c19_a?json={}x', "c19_a?x=1&bytes=zz", "c19_b?x=1&bytes=1&bytes=2",
                 "c19_b?x=1&bytes=-3", "c19_b?x=1&bytes=", "\xff\xfe\x00garbage", "c19_c?k=\xc3\x28&\xa0=1", "//[bad",
                 'c19_d?json={"a": [1, 2}', "c19_d?json={'a': 1}"]

INTS = [0, 1, -1, 5, 7, 255, -128, 65535, 2 ** 31 - 1, 2 ** 31, -2 ** 63, 2 ** 64, 10 ** 30, -10 ** 18, 132990]
FLOATS = [0.0, -0.0, 1.0, 2.0, -1.5, 0.1, 1e-320, 5e-324, 1e-7, 1e16, 1e22, 1.7976931348623157e308, float("inf"),
          float("-inf"), 3.141592653589793, 1 / 3, 123456789.123456789, 2.5e-5, -1e-300]
KEYS_PLAIN = ["name", "value", "k0", "k1", "k2", "k3", "player_num", "prev_value", "change", "x", "state"]
KEYS_ODD = ["Foo", "K0", "with space", "a&b", "a=b", "p%25", "%41", "\u00e9t\u00e9", "k\U0001F600", "a+b", "q?",
            "h#", "a.b", "a-b", "a/b", "int:5", "json", "bytes", "_from_bcp", "cmd", "self", "0", "a\nb",
            "callback"]
TRIGGER_KEYS = ["k0", "k1", "k2", "k3", "k4", "value", "player_num", "state"]


def gen_string(ch):
    n = ch.weighted("str.parts", [(1, 5), (2, 3), (3, 2), (0, 1)])
    parts = []
    for _ in range(n):
        if ch.flag("str.random", 0.15):
            ln = 1 + ch.choice("str.rlen", 6)
            parts.append("".join(ALPHABET[ch.choice("str.rch", len(ALPHABET))] for _ in range(ln)))
        else:
            pool = ch.weighted("str.pool", POOLS)
            parts.append(ch.pick("str.item", pool))
    return "".join(parts)


def gen_scalar(ch):
    kind = ch.weighted("val.kind", [("str", 8), ("int", 3), ("float", 3), ("bool", 2), ("none", 1)])
    if kind == "str":
        return gen_string(ch)
    if kind == "int":
        return ch.pick("val.int", INTS)
    if kind == "float":
        return ch.pick("val.float", FLOATS)
    if kind == "bool":
        return bool(ch.choice("val.bool", 2))
    return None


def gen_nested(ch, depth=0):
    kind = ch.weighted("nest.kind", [("list", 3), ("dict", 3)])
    n = ch.choice("nest.len", 4)
    items = []
    for _ in range(n):
        if depth < 2 and ch.flag("nest.deeper", 0.25):
            items.append(gen_nested(ch, depth + 1))
        else:
            items.append(gen_scalar(ch))
    if kind == "list":
        return items
    out = {}
    for v in items:
        k = gen_string(ch) if ch.flag("nest.oddkey", 0.3) else ch.pick("nest.key", KEYS_PLAIN)
        out[k] = v
    return out


def gen_kwargs(ch, keys_plain=KEYS_PLAIN, allow_odd=True):
    n = ch.weighted("kw.n", [(1, 3), (2, 4), (3, 3), (0, 1), (4, 2), (6, 1)])
    kw = {}
    for _ in range(n):
        if allow_odd and ch.flag("kw.oddkey", 0.15):
            k = ch.pick("kw.okey", KEYS_ODD)
        else:
            k = ch.pick("kw.key", keys_plain)
        if ch.flag("kw.nested", 0.12):
            kw[k] = gen_nested(ch)
        else:
            kw[k] = gen_scalar(ch)
    return kw


def gen_payload(ch):
    """Binary payload as a latin-1 str (JSON-serialisable)."""
    frags = ["\n", "&bytes=3\n", "c19_a?x=int:1\n", "\x00\xff", "\r\n", "A", "\n\n\n", "hello\n", "\xfe\xed",
             "trigger?name=c19_ev0\n", "&bytes=", "\x80\x81", " "]
    n = ch.weighted("pl.parts", [(1, 3), (2, 3), (4, 2), (8, 1)])
    parts = []
    for _ in range(n):
        if ch.flag("pl.run", 0.3):
            ln = ch.pick("pl.runlen", [1, 2, 7, 64, 300])
            parts.append(chr(ch.choice("pl.byte", 256)) * ln)
        else:
            parts.append(ch.pick("pl.frag", frags))
    s = "".join(parts)
    if ch.flag("pl.big", 0.03):
        s = s + "\xa5\n" * ch.pick("pl.bigrep", [3000, 35000])      # 6 kB / 70 kB (beyond the reader's 64 KiB limit)
    return s or "\n"


# ------------------------------------------------------------------------------------------------
# input classes (pure functions of the message; written from the wire format description, not by calling the codec)

_PCT_HEX = re.compile(r"%[0-9a-fA-F]{2}")


def _all_strings(v):
    if isinstance(v, str):
        yield v
    elif isinstance(v, dict):
        for k, x in v.items():
            yield k
            yield from _all_strings(x)
    elif isinstance(v, list):
        for x in v:
            yield from _all_strings(x)


def _convertible(fn, text):
    try:
        fn(text)
        return True
    except ValueError:
        return False


def str_value_class(v):
    """Class of a top-level string value in the url-style (non JSON) form."""
    if v.startswith("int:"):
        return "str_type_prefix" if _convertible(int, v[4:]) else "str_type_prefix_invalid"
    if v.startswith("float:"):
        return "str_type_prefix" if _convertible(float, v[6:]) else "str_type_prefix_invalid"
    if v.lower() in ("bool:true", "bool:false") or v == "NoneType:":
        return "str_type_prefix"
    if _PCT_HEX.search(v):
        return "str_percent_hex"
    return None


def is_json_form(kw):
    return any(isinstance(v, (dict, list)) for v in kw.values())


def op_classes(op):
    """Hazard classes of one workload operation (a message, or a raw garbage line)."""
    if op.get("raw") is not None:
        return {"garbage_line": []}
    return bad_classes(op["kw"])


def bad_classes(kw):
    """Which known wire-format hazards (F-C19) the parameter dict of one message contains: {class: [keys]}."""
    out = {}
    keys = list(kw)
    if "client" in kw:
        out.setdefault("key_client", []).append("client")
    if is_json_form(kw):
        for k, v in kw.items():
            if "&bytes=" in k or any("&bytes=" in s for s in _all_strings(v)):
                out.setdefault("json_bytes_marker", []).append(k)
    else:
        if keys and keys[0] == "json":
            out.setdefault("key_json_first", []).append("json")
        if "bytes" in keys[1:]:
            out.setdefault("key_bytes", []).append("bytes")
        for k, v in kw.items():
            if isinstance(v, str):
                c = str_value_class(v)
                if c:
                    out.setdefault(c, []).append(k)
    return out


# ------------------------------------------------------------------------------------------------
# typed equality


def typed_eq(a, b):
    """Same value AND same type (bool is not int, 1 is not 1.0, -0.0 is not 0.0, nan equals nan)."""
    if type(a) is not type(b):
        return False
    if isinstance(a, float):
        if math.isnan(a) or math.isnan(b):
            return math.isnan(a) and math.isnan(b)
        return a == b and math.copysign(1.0, a) == math.copysign(1.0, b)
    if isinstance(a, list):
        return len(a) == len(b) and all(typed_eq(x, y) for x, y in zip(a, b))
    if isinstance(a, dict):
        if set(a.keys()) != set(b.keys()):
            return False
        return all(typed_eq(v, b[k]) for k, v in a.items())
    return a == b


def short(v, n=120):
    r = repr(v)
    return r if len(r) <= n else r[:n] + "...(%d)" % len(r)
