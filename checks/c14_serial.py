"""C14 - Serial links: framing, integrity and command flow control.

SUT (all real): FAST Neuron NET communicator + platform, OPP gen2 communicator + platform, PKONE Nano communicator +
platform, BaseSerialCommunicator, serial_asyncio.SerialTransport, asyncio.StreamReader/Writer, SwitchController.
World: firmware models (checks/_c14_boards.py) on SimSerial: tape-chosen read chunking (down to 1 byte), reply latency,
reply loss/duplication, line noise.

Families (one per run, chosen by the plan):
  fast_in   (a)+(b) FAST: switch reports '-L:hh' / '/L:hh' in bursts and full reports 'SA:0E,<28 hex>' (pushed or queried;
                    repeating the previous snapshot, the current state or many switches at once), optional noise, clean tail
  fast_flow (c)     FAST: confirmed commands / fire-and-forget commands / send_and_wait_for_response_processed with
                    latency, duplicated and lost confirmations; oracle over the time-stamped port log
  opp       (a)+(b) OPP: polled input and matrix input frames with CRC8, optional noise, clean tail
  pkone     (a)+(b) PKONE: 'PSW...E' switch reports, optional noise, clean tail

Oracles (written from the statement):
  spec decoder  the delivered byte stream is cut by the protocol's framing rule; a line that is exactly one well-formed
                report MUST be decoded (also after noise: resynchronisation), a line that is not well formed MUST NOT
                change a switch, a well-formed report with garbage glued in front (no delimiter in between) MAY go either
                way (relaxation "may": the statement does not say where resynchronisation has to happen)
  attribution   (OPP) every frame that changes a switch is checksum-valid and is a window of the delivered bytes; a
                checksum-valid window that MPF accepts is never an alarm, even if noise produced it (1/256)
  full report   (FAST) right after a well-formed 'SA:' line MPF's switch states equal that snapshot - also when the same
                snapshot was reported before and single reports changed MPF's state in between; a damaged 'SA:' line
                changes nothing
  lenient noise one digit of a number field is replaced by a character lenient parsers swallow (blank, tab, CR/LF, '+',
                '-', '_'): the frame keeps length and framing but is not well formed and must not change a switch
  last report   after the clean tail (>= 10 valid frames, covering every switch) states == last report per board
  differential  the delivered byte stream of the main run (noise included) is replayed into a second, freshly booted
                machine frame-aligned and un-split: messages handed to the processors and switch history must be equal
  flow control  over the ordered port log: after a command sent with pause_sending_until=H nothing is written until a
                line with header H[:3] has been delivered (relaxation: any line with that header counts, MPF cannot
                tell a duplicate from the awaited one); queued commands are written in FIFO order; a command whose
                response is lost n <= max_retries times is re-sent no earlier than `timeout` after the previous attempt
                and completes; at the end (faults stopped, bound derived from the configured timeouts) nothing is left
                in the queue and no caller is still blocked
  crash         an exception out of the reader task (MPF stops) is a violation of "after line noise the decoder
                resynchronises" (on_crash)
"""
import asyncio

from sim.harness import draw_knobs, Discard

ID = "C14"
LEVEL = "exploration"
RUNS = {"quick": 1500, "thorough": 40000}
WALL_CAP = {"quick": 90, "thorough": 1500}
RULE = ("one case = one family (fast_in / fast_flow / opp / pkone) + a generated history: bursts of switch reports with "
        "gaps biased to 0 (coalesced reads), optional line noise attached to single bursts (bit flip, replace, insert, "
        "delete, truncate, garbage burst), a clean tail of >= 10 valid frames; or (fast_flow) a history of confirmed / "
        "unconfirmed / retried commands with per-reply latency, duplication and loss; executed on the real communicators "
        "over SimSerial with tape-chosen read chunking (whole, single byte, random splits). In 'diff' cases the delivered "
        "stream is replayed un-split into a second machine. Non-trivial = hit a reach probe; distinct = distinct sequence "
        "of observed event kinds")
PROBES = ["family_fast_in", "family_fast_flow", "family_opp", "family_pkone",
          "split_inside_frame", "single_byte_reads", "coalesced_frames", "noise_inside_frame", "garbage_between_frames",
          "malformed_line_seen", "may_line_seen", "resync_after_noise", "diff_replay", "nc_switch_report",
          "duplicate_report", "unconfigured_switch_report", "lenient_char_in_number_field",
          "sa_report_applied", "sa_report_repeat", "sa_report_queried", "sa_repeats_previous_snapshot_after_switch_events",
          "malformed_sa_report",
          "opp_bad_crc_window", "opp_matrix_change", "opp_payload_looks_like_header", "opp_lost_poll_reply",
          "flow_confirmed_cmd", "flow_write_queued_behind_confirm", "flow_dup_confirmation", "flow_lost_response",
          "flow_reset", "flow_boot_id_lost", "flow_latency_over_100ms"]
# "flow_retry_sent" is counted as well but not expected: while the recorded finding C14-fast-lost-response-never-retried
# stands MPF never re-sends anything, so that probe can only fire once the retry logic is repaired.
REAL = ["mpf.platforms.fast.communicators.base/net_neuron (reader, writer, parse_incoming_raw_bytes, flow control)",
        "mpf.platforms.fast.fast/fast_switch/fast_driver", "mpf.platforms.opp.opp + opp_serial_communicator (+CRC8)",
        "mpf.platforms.pkone.pkone + pkone_serial_communicator", "mpf.platforms.base_serial_communicator",
        "serial_asyncio.SerialTransport", "asyncio.StreamReader/StreamWriter", "mpf.core.switch_controller",
        "MachineController boot incl. the full platform handshakes"]
STUBS = ["event loop (SimLoop)", "clock (SimClock)", "serial port (SimSerial: chunking, arrival times)",
         "board firmware models FAST Neuron NET / OPP gen2 chain / PKONE Nano (checks/_c14_boards.py)",
         "in-memory data manager"]
RELAXATIONS = [
    "may: a well-formed report with noise glued in front of it (no delimiter in between) may be decoded or dropped",
    "unknown switch: reports for switch numbers without a configured switch are ignored (MPF keeps no state for them)",
    "crc collision: (OPP) a window of the delivered bytes with a correct CRC8 that MPF accepts is legitimate even if "
    "noise produced it; MPF is also free not to accept a valid window while it is resynchronising - only after the "
    "noise has stopped and >= 10 clean poll replies were delivered the states must equal the last report",
    "header match: a confirmation is any delivered line whose first three characters equal H[:3] (MPF matches headers "
    "only, so a duplicated confirmation is indistinguishable from the awaited one)",
    "stale: a spare line with the awaited header delivered in the same instant as (and before) the port write of the "
    "confirmed command may confirm it (it may be dispatched after MPF queued the command)",
    "expired: once the configured timeout of a command has passed without confirmation the attempt counts as lost and "
    "the link is free again (for the retry or other queued commands)",
    "masked: no retry is demanded if another SL:/DL:/SA: response line was delivered while the command waited",
    "lateness: timeouts/retries may be late by an injected loop stall, never early",
]
ASSUMPTIONS = ["a serial line neither reorders nor invents bytes by itself: everything MPF reads was put on the wire by "
               "the board model (possibly damaged by the injected noise), in wire order",
               "handshake replies arrive within the windows the handshakes are written for (OPP EOM echo < 10 ms, "
               "PKONE < 500 ms); noise is injected only after boot",
               "FAST '-L:'/'/L:' reports carry the logical state (firmware inverts NC switches configured with mode 02), "
               "SA: carries raw bits - as in mpf/tests/test_Fast_Neuron.py",
               "a report for a switch number that is not configured has no state in MPF and is ignored by the oracle"]
STATE_ABSTRACTION = "(family, chunking, noise mode, lines by class, switch vector hash after each accepted frame)"
LEVEL_TEXT = ("Seeded exploration: generated report/command histories, read chunkings, latencies, losses and noise on the "
              "real communicators; a spec decoder, an attribution oracle and a differential replay judge every run.")

K_TAIL = 10

# ---------------------------------------------------------------------------------------------------------------
# static description of the three machines (must match machines/c14_*/config/config.yaml)

FAST_IO = [("FP-I/O-3208-3", 8, 32), ("FP-I/O-1616-3", 16, 16)]
FAST_SW = {0x00: "s00", 0x01: "s01", 0x02: "s02", 0x03: "s03_nc", 0x04: "s04", 0x05: "s05_nc", 0x0a: "s0a",
           0x1f: "s1f", 0x20: "s20", 0x21: "s21", 0x2f: "s2f"}
FAST_NC = {0x03, 0x05}
FAST_OTHER = [0x06, 0x10, 0x30, 0x67, 0x68, 0xfe]
FAST_COILS = ["c00", "c01", "c02", "c08", "c09"]

OPP_BOARDS = [{"addr": 0x20, "wings": [1, 2, 2, 2], "version": (2, 2, 0, 2)},
              {"addr": 0x21, "wings": [2, 2, 4, 5], "version": (2, 2, 0, 2), "has_matrix": True}]
# (addr, "inp"|"mtx", bit) -> switch name;  OPP numbers: inputs 0..31 = bit index, matrix 32..95 = bit index + 32
OPP_SW = {(0x20, "inp", 0): "a0", (0x20, "inp", 1): "a1", (0x20, "inp", 2): "a2_nc", (0x20, "inp", 8): "a8",
          (0x20, "inp", 15): "a15", (0x20, "inp", 16): "a16", (0x20, "inp", 31): "a31",
          (0x21, "inp", 0): "b0", (0x21, "inp", 7): "b7_nc", (0x21, "inp", 8): "b8",
          (0x21, "mtx", 0): "m32", (0x21, "mtx", 16): "m48", (0x21, "mtx", 31): "m63_nc", (0x21, "mtx", 63): "m95"}
OPP_NC = {"a2_nc", "b7_nc", "m63_nc"}

PK_SW = {(0, 1): "p01", (0, 2): "p02", (0, 3): "p03", (0, 5): "p05", (0, 6): "p06", (0, 7): "p07", (0, 22): "p0_22",
         (0, 26): "p0_26_nc", (0, 35): "p0_35",
         (1, 1): "p11", (1, 2): "p12", (1, 3): "p13", (1, 5): "p15", (1, 10): "p1_10", (1, 12): "p1_12_nc",
         (1, 30): "p1_30"}
PK_NC = {"p0_26_nc", "p1_12_nc"}
PK_OTHER = [(0, 4), (1, 35), (0, 36), (2, 1), (7, 99), (0, 0)]

GAPS = [0.0, 0.0, 0.0, 0.0005, 0.001, 0.003, 0.01, 0.05, 0.3]
LAT = {"zero": [0.0], "small": [0.0, 0.0, 0.0002, 0.001, 0.003],
       "mixed": [0.0, 0.0005, 0.002, 0.01, 0.05, 0.2]}

# characters that lenient number parsers accept inside / around a number (int(' 1'), int('+3'), int('1_0'), int('4\t'),
# bytes.fromhex('0 1')): a decoder that validates with int()/fromhex() instead of the protocol's alphabet takes a frame
# damaged into one of these for a report about a different switch
LENIENT = [0x20, 0x20, 0x09, 0x0a, 0x0d, 0x0b, 0x2b, 0x2b, 0x2d, 0x5f]
NOISE_BYTES = {
    "fast": list(b"\r\r-/L:0123456789ABCDEFabcdefxG _+SWP,\t") + [0x00, 0x0a, 0x7f, 0x80, 0xc3, 0xe2, 0xff],
    "pkone": list(b"EEPSW0123456789 +-AXN_\t\n") + [0x00, 0x0d, 0x7f, 0x80, 0xc3, 0xff],
    "opp": [0x20, 0x21, 0x22, 0x3f, 0x08, 0x19, 0x0d, 0x02, 0xff, 0xff, 0xf0, 0x00, 0x01, 0x80, 0x55, 0xaa, 0x07],
}


# ---------------------------------------------------------------------------------------------------------------
# plan


def _gen_noise(ch, proto):
    kinds = [("flip", 3), ("replace", 2), ("insert", 2), ("delete", 2), ("truncate", 1)]
    if proto != "opp":
        kinds.append(("lenient", 3))
    kind = ch.weighted("nz.kind", kinds)
    nz = {"kind": kind, "pos": ch.choice("nz.pos", 64)}
    if kind == "flip":
        nz["bit"] = ch.choice("nz.bit", 8)
    elif kind == "lenient":
        nz["byte"] = ch.pick("nz.lenient", LENIENT)
    elif kind == "replace":
        nz["byte"] = ch.pick("nz.byte", NOISE_BYTES[proto])
    elif kind == "insert":
        nz["bytes"] = [ch.pick("nz.byte", NOISE_BYTES[proto]) for _ in range(1 + ch.choice("nz.n", 4))]
    else:
        nz["n"] = 1 + ch.choice("nz.n", 3)
    return nz


def _gen_garbage(ch, proto):
    n = 1 + ch.choice("gb.n", 12)
    if ch.flag("gb.random", 0.4):
        return [ch.choice("gb.b", 256) for _ in range(n)]
    return [ch.pick("gb.b", NOISE_BYTES[proto]) for _ in range(n)]


def _noise_knobs(ch):
    mode = ch.weighted("noise_mode", [("none", 4), ("light", 3), ("heavy", 2)])
    return mode, {"none": 0.0, "light": 0.12, "heavy": 0.45}[mode], {"none": 0.0, "light": 0.05, "heavy": 0.2}[mode]


def _common(ch):
    return {"knobs": draw_knobs(ch, p_faulty=0.4),
            "chunking": ch.weighted("chunking", [("random", 6), ("single", 1), ("whole", 1)]),
            "boot_lat": ch.weighted("boot_lat", [("zero", 2), ("small", 3), ("mixed", 1)]),
            "lat": ch.weighted("lat", [("small", 3), ("zero", 2), ("mixed", 2)])}


def _plan_fast_in(ch):
    p = _common(ch)
    mode, p_noise, p_garb = _noise_knobs(ch)
    nums = sorted(FAST_SW)
    p.update(family="fast_in", noise_mode=mode, diff=ch.flag("diff", 0.5),
             init_closed=[n for n in nums if ch.flag("init", 0.3)],
             board_cfg=ch.weighted("board_cfg", [("fresh", 3), ("dirty", 1)]))
    ops = []
    for _ in range(3 + ch.choice("nops", 25)):
        nf = ch.weighted("burst", [(1, 5), (2, 2), (3, 2), (6, 1)])
        frames = []
        for _ in range(nf):
            num = ch.pick("num", nums) if not ch.flag("other", 0.1) else ch.pick("num_other", FAST_OTHER)
            frames.append([num, 1 if ch.flag("st", 0.5) else 0])
        op = {"dt": ch.pick("dt", GAPS), "frames": frames}
        if ch.flag("sa", 0.2):
            # a full switch report instead of single reports.  "repeat": the very snapshot of the previous full report
            # (the switches moved back, their single reports never made it) - "current": what the single reports said -
            # "random": many switches moved at once.  "query": MPF asks for it (get_hw_switch_states(query_hw=True)).
            op["frames"] = []
            op["sa"] = {"mode": ch.weighted("sa.mode", [("repeat", 3), ("current", 2), ("random", 2)]),
                        "via": ch.weighted("sa.via", [("push", 3), ("query", 1)])}
            if op["sa"]["mode"] == "random":
                op["sa"]["closed"] = [n for n in nums + [0x06, 0x30, 0x67] if ch.flag("sa.bit", 0.4)]
        if p_noise and ch.flag("noisy", p_noise):
            op["noise"] = _gen_noise(ch, "fast")
        if p_garb and ch.flag("garb", p_garb):
            op["garbage"] = _gen_garbage(ch, "fast")
        ops.append(op)
    p["ops"] = ops
    p["tail"] = [[n, 1 if ch.flag("tail_st", 0.5) else 0] for n in nums]
    p["tail_gap"] = ch.pick("tail_gap", [0.0, 0.001, 0.02])
    return p


def _plan_pkone(ch):
    p = _common(ch)
    mode, p_noise, p_garb = _noise_knobs(ch)
    nums = sorted(PK_SW)
    p.update(family="pkone", noise_mode=mode, diff=ch.flag("diff", 0.5),
             init_closed=[list(n) for n in nums if ch.flag("init", 0.3)])
    ops = []
    for _ in range(3 + ch.choice("nops", 25)):
        nf = ch.weighted("burst", [(1, 5), (2, 2), (3, 2), (6, 1)])
        frames = []
        for _ in range(nf):
            num = ch.pick("num", nums) if not ch.flag("other", 0.1) else ch.pick("num_other", PK_OTHER)
            frames.append([num[0], num[1], 1 if ch.flag("st", 0.5) else 0])
        op = {"dt": ch.pick("dt", GAPS), "frames": frames}
        if p_noise and ch.flag("noisy", p_noise):
            op["noise"] = _gen_noise(ch, "pkone")
        if p_garb and ch.flag("garb", p_garb):
            op["garbage"] = _gen_garbage(ch, "pkone")
        ops.append(op)
    p["ops"] = ops
    p["tail"] = [[n[0], n[1], 1 if ch.flag("tail_st", 0.5) else 0] for n in nums]
    p["tail_gap"] = ch.pick("tail_gap", [0.0, 0.001, 0.02])
    return p


def _opp_vector(ch, nbytes, addr=0x20, trap=None):
    how = ch.weighted("vec", [("random", 3), ("special", 3), ("sparse", 2), ("all", 1), ("trap", 1)])
    if trap is not None:
        how = "trap" if trap else how
    if how == "trap":
        # the payload starts like a frame of its own kind (card address, command code): a decoder that lost
        # synchronisation and locks onto it reads a "frame" with a wrong checksum that ends inside the next frame
        bs = [ch.pick("va", [addr, 0x20, 0x21, 0x3f]), 0x08 if nbytes == 4 else 0x19]
        bs += [ch.pick("vs", [0x20, 0x21, 0x08, 0x19, 0xff, 0x00]) for _ in range(nbytes - 2)]
    elif how == "random":
        bs = [ch.choice("vb", 256) for _ in range(nbytes)]
    elif how == "special":
        # payload bytes that look like card addresses / command codes / EOM: the resynchronisation trap
        bs = [ch.pick("vs", [0x20, 0x21, 0x08, 0x19, 0xff, 0x00, 0x3f, 0x0d, 0xf0]) for _ in range(nbytes)]
    elif how == "sparse":
        bs = [0xff] * nbytes
        for _ in range(1 + ch.choice("vn", 3)):
            bs[ch.choice("vi", nbytes)] ^= 1 << ch.choice("vbit", 8)
    else:
        bs = [ch.pick("va", [0x00, 0xff])] * nbytes
    v = 0
    for b in bs:
        v = (v << 8) | b
    return v


def _plan_opp(ch):
    p = _common(ch)
    p["lat"] = ch.weighted("lat", [("small", 3), ("zero", 2), ("opp_slow", 2)])
    p["boot_lat"] = ch.weighted("boot_lat", [("zero", 2), ("small", 3)])
    mode, p_noise, p_garb = _noise_knobs(ch)
    p.update(family="opp", noise_mode=mode, diff=True,
             init={"20": _opp_vector(ch, 4), "21": _opp_vector(ch, 4), "m21": _opp_vector(ch, 8)})
    ops = []
    for _ in range(3 + ch.choice("nops", 22)):
        op = {"dt": ch.pick("dt", [0.0, 0.004, 0.01, 0.011, 0.02, 0.035, 0.1])}
        tgt = ch.weighted("tgt", [("20", 3), ("21", 2), ("m21", 3), ("all", 1), ("none", 1)])
        if tgt in ("20", "all"):
            op["20"] = _opp_vector(ch, 4)
        if tgt in ("21", "all"):
            op["21"] = _opp_vector(ch, 4, 0x21)
        if tgt in ("m21", "all"):
            op["m21"] = _opp_vector(ch, 8, 0x21)
        if p_noise and ch.flag("noisy", p_noise):
            op["noise"] = _gen_noise(ch, "opp")
        if p_garb and ch.flag("garb", p_garb):
            op["garbage"] = _gen_garbage(ch, "opp")
        if p_noise and ch.flag("drop", 0.1):
            op["drop"] = True
        ops.append(op)
    p["ops"] = ops
    trap = True if ch.flag("tail_trap", 0.15) else None
    p["tail"] = {"20": _opp_vector(ch, 4, 0x20, trap), "21": _opp_vector(ch, 4, 0x21, trap),
                 "m21": _opp_vector(ch, 8, 0x21, trap)}
    p["tail_same"] = ch.flag("tail_same", 0.6)       # the tail repeats one vector (switches at rest) or keeps changing
    if trap:
        # the switches already rest on the tail vectors while the last noise hits the line
        p["tail_same"] = True
        for op in ops[len(ops) // 2:]:
            for k in ("20", "21", "m21"):
                op[k] = p["tail"][k]
    return p


FLOW_T = [0.05, 0.2, 1.0]


def _plan_fast_flow(ch):
    p = _common(ch)
    p["lat"] = ch.weighted("lat", [("mixed", 3), ("small", 2), ("zero", 1), ("slow", 1)])
    p.update(family="fast_flow", boot_id_drops=ch.weighted("boot_id_drops", [(0, 6), (1, 2), (2, 1)]),
             p_dup=ch.pick("p_dup", [0.0, 0.0, 0.1, 0.3]),
             init_closed=[n for n in sorted(FAST_SW) if ch.flag("init", 0.3)], board_cfg="fresh")
    ops = []
    for _ in range(2 + ch.choice("nops", 14)):
        kind = ch.weighted("op", [("pulse", 4), ("confirm", 4), ("forget", 3), ("wait", 4), ("sa", 2), ("enable", 1),
                                  ("disable", 1), ("rule", 1), ("reset", 0.3)])
        op = {"op": kind, "dt": ch.pick("dt", [0.0, 0.0, 0.0, 0.001, 0.01, 0.06, 0.25, 0.6])}
        if kind == "pulse":
            op["coil"] = ch.pick("coil", FAST_COILS)
            op["ms"] = ch.pick("ms", [None, None, 12, 30])
        elif kind == "confirm":
            op["what"] = ch.weighted("what", [("SL", 3), ("DL", 2), ("SA", 1)])
            op["num"] = ch.choice("num", 24)
        elif kind == "forget":
            op["what"] = ch.weighted("fwhat", [("WD", 2), ("TL", 2)])
            op["num"] = ch.choice("num", 48)
        elif kind == "wait":
            # every retried command is unique within the plan (numbers 24..47), so that a lost reply hits exactly
            # the caller it was planned for
            op["what"] = ch.weighted("wwhat", [("SL", 3), ("DL", 2)])
            op["num"] = 24 + sum(1 for o in ops if o["op"] == "wait")
            op["timeout"] = ch.pick("timeout", FLOW_T)
            op["retries"] = ch.pick("retries", [0, 1, 2, 3, -1])
            lim = 3 if op["retries"] == -1 else op["retries"]
            op["drops"] = ch.weighted("drops", [(0, 5), (1, 3), (2, 1), (3, 1)])
            op["drops"] = min(op["drops"], lim)
        elif kind == "rule":
            op["on"] = ch.flag("on", 0.5)
        ops.append(op)
    if any(o["op"] == "reset" for o in ops):
        # a soft reset queries every SL:/DL: number itself; planned losses would hit the reset instead
        for o in ops:
            if o["op"] == "wait":
                o["drops"] = 0
    p["ops"] = ops
    return p


def plan(ch, tier):
    fam = ch.weighted("family", [("fast_in", 3), ("fast_flow", 3), ("opp", 3), ("pkone", 2)])
    if fam == "fast_in":
        return _plan_fast_in(ch)
    if fam == "fast_flow":
        return _plan_fast_flow(ch)
    if fam == "opp":
        return _plan_opp(ch)
    return _plan_pkone(ch)


def shrink(plan):
    """Extra minimisation candidates: drop noise/garbage of single ops, switch chunking to whole, drop diff."""
    out = []
    for key, val in (("chunking", "whole"), ("lat", "zero"), ("boot_lat", "zero"), ("diff", False)):
        if plan.get(key) not in (None, val) and not (key == "diff" and plan.get("family") == "opp"):
            q = dict(plan)
            q[key] = val
            out.append(q)
    for i, op in enumerate(plan.get("ops", [])):
        for k in ("noise", "garbage", "drop"):
            if k in op:
                q = dict(plan)
                q["ops"] = [dict(o) for o in plan["ops"]]
                del q["ops"][i][k]
                out.append(q)
        if len(op.get("frames", [])) > 1:
            q = dict(plan)
            q["ops"] = [dict(o) for o in plan["ops"]]
            q["ops"][i]["frames"] = op["frames"][:1]
            out.append(q)
    return out


def warm():
    from sim.machine import preload
    preload("c14_fast")
    preload("c14_opp")
    preload("c14_pkone")
    from checks import _c14_boards as B
    from mpf.platforms.opp.opp_rs232_intf import OppRs232Intf
    # the oracle's CRC8 is written from the protocol description; make sure both sides talk about the same polynomial
    for sample in (b"\x20\x08\x00\xff\x00\x0c", b"\x21\x19\x80\x00\x00\x00\x00\x01\x00\x00", b""):
        assert bytes([B.crc8(sample)]) == OppRs232Intf.calc_crc8_whole_msg(sample)
    import mpf.platforms.fast.fast            # noqa  (import cost once, in the zygote)
    import mpf.platforms.opp.opp              # noqa
    import mpf.platforms.pkone.pkone          # noqa
    import serial_asyncio                     # noqa


# ---------------------------------------------------------------------------------------------------------------
# shared runtime helpers


class SwitchWatch:
    """Monitor on the real SwitchController: history of (name, logical state) of configured switches."""

    def __init__(self, sim, ctx, tag):
        self.sim = sim
        self.ctx = ctx
        self.tag = tag
        self.history = []
        self.current = None          # list collecting the changes caused by the processor call in progress
        self.names = set(sim.machine.switches.keys())
        sim.machine.switch_controller.add_monitor(self)

    def __call__(self, change):
        if change.name not in self.names:
            return
        rec = (change.name, int(change.state))
        self.history.append(rec)
        if self.current is not None:
            self.current.append(rec)
        self.ctx.log("sw", self.tag, rec[0], rec[1], t=self.sim.now)

    def states(self):
        sc = self.sim.machine.switch_controller
        return {n: int(bool(sc.is_active(self.sim.machine.switches[n]))) for n in sorted(self.names)}


def _latency_policy(ctx, sim_holder, profile, tag):
    rt = ctx.rt.sub("board." + tag)
    table = LAT.get(profile) or {"opp_slow": [0.0, 0.001, 0.004, 0.012, 0.03],
                                 "slow": [0.0, 0.01, 0.1, 0.3, 0.3]}[profile]

    def lat():
        d = rt.pick("lat", table)
        if d > 0.1:
            ctx.probe("flow_latency_over_100ms")
        return d
    return lat


def _carry(comm, partial):
    """Bytes the port has delivered but the decoder has not consumed yet: the communicator's partial message plus
    whatever still sits in the StreamReader (read-only bookkeeping, so that the reference stream starts exactly where
    the decoder stands when the taps are installed)."""
    return bytes(partial) + bytes(comm.reader._buffer)        # pylint: disable=protected-access


def _consumed(comm, stream):
    """Cut off the bytes at the end that the port has delivered but MPF's reader task has not fetched yet."""
    n = len(comm.reader._buffer)            # pylint: disable=protected-access
    return stream[:len(stream) - n] if n else stream


def _split_keep(stream, delim):
    """Cut a byte stream after every delimiter (frame-aligned delivery of the replay run)."""
    out = []
    start = 0
    while True:
        i = stream.find(delim, start)
        if i < 0:
            break
        out.append(stream[start:i + 1])
        start = i + 1
    if start < len(stream):
        out.append(stream[start:])
    return out


def _chunk_probes(ctx, ser, start_idx, delim):
    """Reach probes about how the delivered stream was cut into reads."""
    rx = [d for k, _, d in ser.events[start_idx:] if k == "rx"]
    if any(len(d) == 1 for d in rx) and len(rx) > 4 and sum(1 for d in rx if len(d) == 1) * 2 > len(rx):
        ctx.probe("single_byte_reads")
    for d in rx:
        if delim is not None:
            if not d.endswith(delim):
                ctx.probe("split_inside_frame")
            if d.count(delim) > 1:
                ctx.probe("coalesced_frames")


def _compare_runs(ctx, main, ref, what):
    """Differential oracle (a): same bytes, other read boundaries => same decoded messages, same switch history."""
    if main["calls"] != ref["calls"]:
        n = min(len(main["calls"]), len(ref["calls"]))
        i = next((k for k in range(n) if main["calls"][k] != ref["calls"][k]), n)
        ctx.violation("chunk_dependence", "%s:messages" % what,
                      "messages handed to the processors differ between split and un-split delivery of the same %d "
                      "bytes at index %d: split=%r unsplit=%r (lengths %d/%d)"
                      % (len(main["stream"]), i, main["calls"][i:i + 3], ref["calls"][i:i + 3],
                         len(main["calls"]), len(ref["calls"])))
    if main["history"] != ref["history"]:
        n = min(len(main["history"]), len(ref["history"]))
        i = next((k for k in range(n) if main["history"][k] != ref["history"][k]), n)
        ctx.violation("chunk_dependence", "%s:history" % what,
                      "switch histories differ between split and un-split delivery at index %d: split=%r unsplit=%r"
                      % (i, main["history"][i:i + 3], ref["history"][i:i + 3]))
    if main["final"] != ref["final"]:
        ctx.violation("chunk_dependence", "%s:final" % what, "final switch states differ: split=%r unsplit=%r"
                      % (main["final"], ref["final"]))


# ---------------------------------------------------------------------------------------------------------------
# FAST


def _fast_boot(ctx, plan, role, id_drops=0):
    """Boot the c14_fast machine against a FastNeuronBoard.  role: "main" (plan's chunking/latency) or "ref"."""
    from checks._c14_boards import TapSerial, FastNeuronBoard
    holder = {}
    main = role == "main"
    lat = _latency_policy(ctx, holder, plan["boot_lat"] if main else "zero", role)
    state = {"id_left": id_drops if main else 0, "post_policy": None}

    def policy(cmd, reply):
        if state["post_policy"] is not None:
            return state["post_policy"](cmd, reply)
        if cmd == "ID:" and state["id_left"] > 0:
            state["id_left"] -= 1
            ctx.fault("lost_reply")
            ctx.probe("flow_boot_id_lost")
            return []
        return [(reply, lat())]

    def pre(sim):
        ser = TapSerial(sim, "com3", plan["chunking"] if main else "whole")
        sim.clock.serials["com3"] = ser
        board = FastNeuronBoard(ser, FAST_IO, policy)
        for n in plan.get("init_closed", []):
            # raw bit: closed.  An NC switch that is closed is inactive.
            board.closed[n] = 1
        if plan.get("board_cfg") == "dirty":
            for i in range(104):
                board.sw_cfg[i] = ["01", "02", "04"]
            for i in range(0, 48, 3):
                board.drv_cfg[i] = ["81", "00", "10", "0A", "FF", "00", "00", "00"]
        holder["ser"] = ser
        holder["board"] = board

    sim = ctx.new_sim("c14_fast", platform="fast", pre_boot=pre)
    holder["sim"] = sim
    holder["state"] = state
    return sim, holder


def _fast_expected_initial(plan):
    exp = {}
    closed = set(plan.get("init_closed", []))
    for num, name in FAST_SW.items():
        raw = 1 if num in closed else 0
        exp[name] = raw ^ (1 if num in FAST_NC else 0)
    return exp


def _fast_tap(sim, ctx, watch, tag):
    """Wrap the public message_processors table: every message handed to a processor is recorded."""
    comm = sim.machine.hardware_platforms["fast"].serial_connections["net"]
    calls = []

    def wrap(hdr, orig):
        def tapped(msg):
            rec = {"hdr": hdr, "msg": msg, "changes": [], "t": sim.now}
            calls.append(rec)
            ctx.log("msg", tag, hdr, msg, t=sim.now)
            prev, watch.current = watch.current, rec["changes"]
            try:
                return orig(msg)
            finally:
                watch.current = prev
        return tapped
    for hdr in list(comm.message_processors.keys()):
        comm.message_processors[hdr] = wrap(hdr, comm.message_processors[hdr])
    return comm, calls


def _exec_fast_in(ctx, plan):
    from checks import _c14_boards as B
    ctx.probe("family_fast_in")
    ctx.info.update(family="fast_in", noise=plan["noise_mode"])
    sim, h = _fast_boot(ctx, plan, "main")
    sim.boot()
    ser, board = h["ser"], h["board"]
    lat = _latency_policy(ctx, h, plan["lat"], "post")
    h["state"]["post_policy"] = lambda cmd, reply: [(reply, lat())]
    sim.run_quiet(0.25)
    watch = SwitchWatch(sim, ctx, "main")
    init = watch.states()
    exp0 = _fast_expected_initial(plan)
    if init != exp0:
        ctx.violation("initial_state", "fast", "switch states after boot %r differ from the board's SA: report %r"
                      % (init, exp0))
    comm, calls = _fast_tap(sim, ctx, watch, "main")
    mark = len(ser.events)
    carry = _carry(comm, comm.received_msg)
    noisy = [False]

    # -- emit the history -------------------------------------------------------------------------------------
    t = sim.now + 0.002
    for op in plan["ops"]:
        t += op["dt"]
        sim.at(t, _fast_emit, ctx, sim, board, op, noisy)
    sim.run(t - sim.now + 0.05)
    sim.run_quiet(0.3 + 0.25)            # longest board latency + margin: the noise has been delivered
    # -- clean tail: K_TAIL..11 valid frames, one per configured switch, each preceded by nothing but a clean line end
    board.line.send(b"\r", 0.0)          # the firmware terminates whatever the noise left open with its next line end
    tg = plan["tail_gap"]
    for i, (num, st) in enumerate(plan["tail"]):
        board.closed[num] = st ^ (1 if num in FAST_NC else 0)      # a belated SA: reply reports the state after the tail
        board.line.send(B.FastNeuronBoard.switch_frame(num, st), tg * (i + 1))
    assert len(plan["tail"]) >= K_TAIL
    sim.run_quiet(tg * len(plan["tail"]) + 0.6)

    stream = _consumed(comm, carry + ser.delivered(mark))
    main = _fast_judge(ctx, plan, stream, calls, watch, init, noisy[0], "main")
    _chunk_probes(ctx, ser, mark, b"\r")

    if plan["diff"]:
        ctx.probe("diff_replay")
        ref = _fast_replay(ctx, plan, stream)
        _compare_runs(ctx, main, ref, "fast")


def _fast_emit(ctx, sim, board, op, noisy):
    from checks import _c14_boards as B
    # the board's physical switches follow what it reports (raw bit = closed; an NC switch is active when open)
    for n, s in op["frames"]:
        if n < 112:
            board.closed[n] = s ^ (1 if n in FAST_NC else 0)
    data = b"".join(B.FastNeuronBoard.switch_frame(n, s) for n, s in op["frames"])
    sa = op.get("sa")
    if sa:
        if sa["mode"] == "repeat":
            board.closed = list(board.last_snapshot)
        elif sa["mode"] == "random":
            board.closed = [1 if i in sa["closed"] else 0 for i in range(112)]
        board.last_snapshot = list(board.closed)
        ctx.probe("sa_report_" + sa["mode"])
        if sa["via"] == "query":
            ctx.log("sa_query", t=sim.now)
            ctx.probe("sa_report_queried")
            fut = asyncio.ensure_future(sim.machine.hardware_platforms["fast"].get_hw_switch_states(query_hw=True),
                                        loop=sim.loop)
            board.queries.append(fut)
            data = b""
        else:
            data = board.sa_frame()
    if not data and "garbage" not in op:
        return
    if "garbage" in op:
        board.line.send(bytes(op["garbage"]), 0.0)
        ctx.fault("garbage")
        ctx.probe("garbage_between_frames")
        noisy[0] = True
    nz = op.get("noise")
    if nz:
        wire = B.apply_noise(data, nz)
        if wire != data:
            ctx.fault("noise_" + nz["kind"])
            ctx.probe("noise_inside_frame")
            if nz["kind"] == "lenient":
                ctx.probe("lenient_char_in_number_field")
            noisy[0] = True
    ctx.log("emit", data, nz, t=sim.now)
    if data:
        board.line.send(data, 0.0, nz)


def _fast_judge(ctx, plan, stream, calls, watch, init, noisy, tag):
    """Spec decoder over the delivered bytes vs what MPF handed to its switch processors and did to the switches."""
    from checks import _c14_boards as B
    lines, rest = B.fast_reference_lines(stream)
    sw_calls = [c for c in calls if c["hdr"] in ("-L:", "/L:")]
    sa_calls = [c for c in calls if c["hdr"] == "SA:"]
    model = dict(init)
    qi = 0
    si = 0
    counts = {"must": 0, "may": 0, "mustnot": 0}
    seen_noise = False
    events_since_sa = 0
    last_sa_bits = [1 if i in plan.get("init_closed", []) else 0 for i in range(112)]     # the boot SA: report
    for line in lines:
        # -- full switch reports -----------------------------------------------------------------------------
        sa_cls, bits = B.fast_classify_sa(line)
        if sa_cls == "may":
            # noise (or a single report that lost its line end) glued in front of a full report: MPF sees another
            # header; the line is judged below like any other line that is not a well-formed single report
            ctx.probe("may_line_seen")
            seen_noise = True
        elif sa_cls is not None:
            try:
                text = line.decode("utf-8")
            except UnicodeDecodeError:
                text = None
            handed = None
            if si < len(sa_calls) and text is not None and "SA:" + sa_calls[si]["msg"] == text:
                handed = sa_calls[si]
                si += 1
            if sa_cls == "must":
                if seen_noise:
                    ctx.probe("resync_after_noise")
                if handed is None:
                    ctx.violation("valid_frame_not_decoded", "fast:SA", "well-formed full switch report %r in the "
                                  "delivered stream was not handed to the SA: processor" % (line,))
                    continue
                new = {name: bits[num] ^ (1 if num in FAST_NC else 0) for num, name in FAST_SW.items()}
                want = sorted((k, new[k]) for k in new if new[k] != model[k])
                ctx.probe("sa_report_applied")
                if last_sa_bits == bits and events_since_sa and want:
                    ctx.probe("sa_repeats_previous_snapshot_after_switch_events")
                if sorted(handed["changes"]) != want:
                    ctx.violation("last_report", "fast:SA", "after the well-formed full switch report %r MPF's switch "
                                  "states must equal it: it caused %r, expected %r (same snapshot as the previous SA: "
                                  "%s, %d single reports in between)" % (line, sorted(handed["changes"]), want,
                                                                      last_sa_bits == bits, events_since_sa))
                model = new
                last_sa_bits = bits
                events_since_sa = 0
            else:
                ctx.probe("malformed_line_seen")
                ctx.probe("malformed_sa_report")
                seen_noise = True
                glued = None
                if bits is not None:
                    ctx.probe("may_line_seen")
                    tmp = {name: bits[num] ^ (1 if num in FAST_NC else 0) for num, name in FAST_SW.items()}
                    glued = sorted((k, tmp[k]) for k in tmp if tmp[k] != model[k])
                if handed is not None and handed["changes"] and sorted(handed["changes"]) == glued:
                    model = tmp          # relaxation "may": the report glued to the end of the damaged line was decoded
                    last_sa_bits, events_since_sa = bits, 0
                elif handed is not None and handed["changes"]:
                    ctx.violation("malformed_changed_switch", "fast:SA:%s" % _shape(line[3:]),
                                  "line %r is not a well-formed full switch report (SA:0E,<28 hex digits>) but changed %r"
                                  % (line, handed["changes"]))
                    for nm, s in handed["changes"]:
                        model[nm] = s
            continue
        # -- single switch reports ---------------------------------------------------------------------------
        cls, num, st = B.fast_classify(line)
        counts[cls] += 1
        try:
            text = line.decode("utf-8")
        except UnicodeDecodeError:
            text = None
        handed = None
        if qi < len(sw_calls) and text is not None and sw_calls[qi]["hdr"] + sw_calls[qi]["msg"] == text:
            handed = sw_calls[qi]
            qi += 1
        name = FAST_SW.get(num) if num is not None else None
        if cls == "must":
            if seen_noise:
                ctx.probe("resync_after_noise")
            if handed is None:
                ctx.violation("valid_frame_not_decoded", "fast", "well-formed report %r in the delivered stream was not "
                              "handed to a switch processor (next handed: %r)"
                              % (line, sw_calls[qi]["hdr"] + sw_calls[qi]["msg"] if qi < len(sw_calls) else None))
                continue
            if name is None:
                ctx.probe("unconfigured_switch_report")
                if handed["changes"]:
                    ctx.violation("wrong_switch_changed", "fast", "report %r for an unconfigured switch changed %r"
                                  % (line, handed["changes"]))
                continue
            if num in FAST_NC:
                ctx.probe("nc_switch_report")
            want = [] if model[name] == st else [(name, st)]
            if not want:
                ctx.probe("duplicate_report")
            if handed["changes"] != want:
                ctx.violation("wrong_switch_changed", "fast", "report %r (switch %s was %d) caused %r, expected %r"
                              % (line, name, model[name], handed["changes"], want))
            model[name] = st
            events_since_sa += 1
        elif cls == "may":
            ctx.probe("may_line_seen")
            seen_noise = True
            if handed is not None and handed["changes"]:
                # relaxation "may": decoding the glued report is allowed, but then it must be that report
                if name is None or handed["changes"] != [(name, st)]:
                    ctx.violation("malformed_changed_switch", "fast:glued", "line %r changed %r" % (line, handed["changes"]))
                model[name] = st
        else:
            ctx.probe("malformed_line_seen")
            if not (line.startswith(b"WD:") or line.startswith(b"TL:")):
                seen_noise = True
            if handed is not None and handed["changes"]:
                ctx.violation("malformed_changed_switch", "fast:%s" % _shape(line),
                              "line %r is not a well-formed switch report but changed %r" % (line, handed["changes"]))
                for nm, s in handed["changes"]:
                    model[nm] = s
        ctx.state("fast_in", plan["chunking"], plan["noise_mode"], cls, _vec(model))
    if qi != len(sw_calls):
        ctx.violation("phantom_message", "fast", "switch message %r handed to a processor does not correspond to a line "
                      "of the delivered stream" % (sw_calls[qi]["hdr"] + sw_calls[qi]["msg"],))
    if si != len(sa_calls):
        ctx.violation("phantom_message", "fast:SA", "SA: message %r handed to the processor does not correspond to a "
                      "line of the delivered stream" % (sa_calls[si]["msg"],))
    final = watch.states()
    # the tail frames are lines of the stream like all others: the model above already followed them in wire order
    # (a belated reply to an SA: query may arrive after them and then is the last report)
    if final != model:
        diff = {k: (final[k], model[k]) for k in model if final[k] != model[k]}
        ctx.violation("last_report", "fast", "after the clean tail switch states differ from the last report: "
                      "{switch: (mpf, last report)} = %r" % diff)
    ctx.log("final", tag, sorted(final.items()))
    return {"calls": [(c["hdr"], c["msg"]) for c in calls if c["hdr"] not in ("WD:",)],
            "history": list(watch.history), "final": final, "stream": stream}


def _vec(model):
    v = 0
    for i, k in enumerate(sorted(model)):
        v |= (model[k] & 1) << i
    return v


def _shape(line):
    """Short, stable description of a malformed line for signatures: letters->a, digits->9, other bytes kept/hex."""
    out = []
    for b in line[:12]:
        c = chr(b)
        if c.isdigit():
            out.append("9")
        elif c in "ABCDEFabcdef":
            out.append("h")
        elif c.isalpha():
            out.append("a")
        elif 32 < b < 127:
            out.append(c)
        else:
            out.append("?")
    return "".join(out)


def _fast_replay(ctx, plan, stream):
    """Second machine, same initial state, zero latency, un-split frame-aligned delivery of the same bytes."""
    sim, h = _fast_boot(ctx, plan, "ref")
    sim.boot()
    ser, board = h["ser"], h["board"]
    sim.run_quiet(0.25)
    board.mute = True
    watch = SwitchWatch(sim, ctx, "ref")
    init = watch.states()
    comm, calls = _fast_tap(sim, ctx, watch, "ref")
    if _carry(comm, comm.received_msg):
        raise AssertionError("reference run has a carry-over after boot: %r" % _carry(comm, comm.received_msg))
    pieces = _split_keep(stream, b"\r")
    for i, piece in enumerate(pieces):
        ser.feed(piece, 0.001 * (i + 1))
    sim.run_quiet(0.001 * len(pieces) + 0.3)
    final = watch.states()
    ctx.log("final", "ref", sorted(final.items()))
    return {"calls": [(c["hdr"], c["msg"]) for c in calls if c["hdr"] not in ("WD:",)],
            "history": list(watch.history), "final": final, "stream": stream, "init": init}


# ---------------------------------------------------------------------------------------------------------------
# FAST flow control


class FlowOracle:
    """Judges the ordered port log of the NET link (listener on TapSerial)."""

    def __init__(self, ctx, sim, ser, comm):
        self.ctx = ctx
        self.sim = sim
        self.enq = []              # [msg bytes, H or None, written?]
        self.ptr = 0
        self.awaiting = None       # {"H", "msg", "t"}
        self.linebuf = b""
        self.timeouts = {}         # msg bytes -> configured timeout (commands sent with retry configuration)
        self.tx_times = {}         # msg bytes -> [t of every write]
        self.lines = []            # (t, header) of every complete line delivered to MPF
        self.spare = []            # delivered lines that confirmed nothing (duplicates, belated replies)
        self.enabled = True
        q = comm.send_queue
        orig = q.put_nowait

        def tap(item):
            self.enq.append([bytes(item[0]), item[1], False])
            ctx.log("enq", item[0], item[1], t=sim.now)
            return orig(item)
        q.put_nowait = tap
        ser.listeners.append(self.on_event)

    def on_event(self, kind, t, data):
        if not self.enabled:
            return
        if kind == "rx":
            self.linebuf += data
            while True:
                i = self.linebuf.find(b"\r")
                if i < 0:
                    break
                line, self.linebuf = self.linebuf[:i], self.linebuf[i + 1:]
                if not line:
                    continue
                self.lines.append((t, line[:3]))
                if self.awaiting is not None and line[:3] == self.awaiting["H"][:3].encode():
                    self.ctx.log("confirmed", self.awaiting["msg"], line, t=t)
                    self.awaiting = None
                else:
                    self.spare.append((t, line[:3]))
            return
        # tx: the transport may hand several queued commands to the port in one write; judge them one by one
        pieces = _split_keep(data, b"\r")
        if len(pieces) > 1:
            for piece in pieces:
                self.on_event("tx", t, piece)
            return
        self.ctx.log("tx", data, t=t)
        self.tx_times.setdefault(data, []).append(t)
        aw = self.awaiting
        retry = False
        if aw is not None:
            T = self.timeouts.get(aw["msg"])
            if T is not None and t - aw["t"] >= T - 1e-9:
                # relaxation "expired": the command was sent with a configured timeout and the timeout has passed
                # without a confirmation - the attempt counts as lost ("a lost response is retried as configured"),
                # the link is free again (for the retry or for whatever is queued)
                retry = data == aw["msg"]
                if retry:
                    self.ctx.probe("flow_retry_sent")
                self.awaiting = None
            else:
                self.ctx.violation(
                    "write_while_awaiting_confirmation", "fast:%s after %s" % (_cmd(data), _cmd(aw["msg"])),
                    "%r was written at %.6f although %r (written at %.6f with pause_sending_until=%r) has not been "
                    "confirmed yet: no line with header %r was delivered in between"
                    % (data, t, aw["msg"], aw["t"], aw["H"], aw["H"][:3]))
                self.awaiting = None
        # FIFO: the write must be the oldest queued item not written yet
        if self.ptr < len(self.enq) and self.enq[self.ptr][0] == data:
            H = self.enq[self.ptr][1]
            self.enq[self.ptr][2] = True
            self.ptr += 1
        else:
            later = [i for i in range(self.ptr, len(self.enq)) if self.enq[i][0] == data]
            if later:
                self.ctx.violation("fifo_order", "fast", "%r was written before the older queued command %r"
                                   % (data, self.enq[self.ptr][0]))
                self.enq[later[0]][2] = True
                H = self.enq[later[0]][1]
                del self.enq[later[0]]
            elif retry:
                H = aw["H"]
            else:
                H = None
        if H is not None:
            self.ctx.probe("flow_confirmed_cmd")
            self.awaiting = {"H": H, "msg": data, "t": t}
            # relaxation "stale": a line with this header that was delivered in the very same instant, before the
            # port write, and that confirmed nothing (a duplicated or belated confirmation) may be dispatched by MPF
            # after it queued this command; MPF cannot tell it from the awaited confirmation (headers only).
            self.spare = [(ts, h) for ts, h in self.spare if ts >= t - 1e-12]
            for k, (ts, h) in enumerate(self.spare):
                if h == H[:3].encode():
                    del self.spare[k]
                    self.ctx.log("confirmed_by_stale_line", data, t=t)
                    self.awaiting = None
                    break
            if self.ptr < len(self.enq):
                self.ctx.probe("flow_write_queued_behind_confirm")


def _cmd(data):
    return data[:3].decode("ascii", "replace")


def _exec_fast_flow(ctx, plan):
    from sim.loop import SimDeadlock
    ctx.probe("family_fast_flow")
    ctx.info.update(family="fast_flow", noise="none")
    sim, h = _fast_boot(ctx, plan, "main", id_drops=plan["boot_id_drops"])
    ser, board = h["ser"], h["board"]
    # -- boot, possibly with lost ID: replies ("Loop here until we get a response", max_retries=-1, timeout 1 s) ----
    try:
        sim.boot()
    except (SimDeadlock, AssertionError) as e:
        if plan["boot_id_drops"] and ("nothing ready" in str(e) or "boot did not finish" in str(e)):
            ids = [t for t, c in board.commands if c == "ID:"]
            ctx.violation("lost_response_blocks_forever", "fast:boot ID:",
                          "the reply to the first %d ID: quer%s was lost; ID: is sent with max_retries=-1, timeout=1s "
                          "but was written only at %r and MPF waits forever (%s)"
                          % (plan["boot_id_drops"], "y" if plan["boot_id_drops"] == 1 else "ies", ids, e))
            return
        raise
    if plan["boot_id_drops"]:
        ids = [t for t, c in board.commands if c == "ID:"]
        if len(ids) != plan["boot_id_drops"] + 1 or any(b - a < 1.0 - 1e-9 for a, b in zip(ids, ids[1:])):
            ctx.violation("retry_schedule", "fast:boot ID:", "ID: written at %r for %d lost replies (timeout 1 s)"
                          % (ids, plan["boot_id_drops"]))
    sim.run_quiet(0.25)
    m = sim.machine
    platform = m.hardware_platforms["fast"]
    comm = platform.serial_connections["net"]
    oracle = FlowOracle(ctx, sim, ser, comm)
    lat = _latency_policy(ctx, h, plan["lat"], "post")
    rt = ctx.rt.sub("board.flow")
    drops = {}                                  # cmd str -> replies still to lose

    def policy(cmd, reply):
        if drops.get(cmd, 0) > 0:
            drops[cmd] -= 1
            ctx.fault("lost_reply")
            ctx.probe("flow_lost_response")
            return []
        out = [(reply, lat())]
        if plan["p_dup"] and reply[:3] in (b"SL:", b"DL:", b"TL:") and rt.flag("dup", plan["p_dup"]):
            ctx.fault("dup_reply")
            ctx.probe("flow_dup_confirmation")
            out.append((reply, lat()))
        return out
    h["state"]["post_policy"] = policy

    tasks = []
    bound_total = [1.0]

    def track(desc, coro, bound, wire=None, lost=0):
        task = asyncio.ensure_future(coro, loop=sim.loop)
        tasks.append({"desc": desc, "task": task, "t0": sim.now, "wire": wire, "lost": lost})
        bound_total[0] += bound

    def query(what, num):
        if what == "SL":
            n = num % 104
            return "SL:%02X" % n, "SL:%02X" % n
        if what == "DL":
            return "DL:%02X" % (num % 48), "DL:"
        return "SA:", "SA:"

    def do(op):
        kind = op["op"]
        ctx.log("op", kind, {k: v for k, v in op.items() if k not in ("op", "dt")}, t=sim.now)
        if kind == "pulse":
            m.coils[op["coil"]].pulse(op["ms"]) if op["ms"] else m.coils[op["coil"]].pulse()
        elif kind == "enable":
            m.coils["c01"].enable()
        elif kind == "disable":
            m.coils["c01"].disable()
        elif kind == "rule":
            (m.autofire_coils["ac0"].enable if op["on"] else m.autofire_coils["ac0"].disable)()
        elif kind == "forget":
            comm.send_and_forget("WD:3E8" if op["what"] == "WD" else "TL:%02X,02" % (op["num"] % 48))
        elif kind == "confirm":
            msg, H = query(op["what"], op["num"])
            comm.send_with_confirmation(msg, H)
            bound_total[0] += 0.5
        elif kind == "sa":
            track("get_hw_switch_states", platform.get_hw_switch_states(query_hw=True), 1.0, wire=b"SA:\r")
        elif kind == "wait":
            msg, H = query(op["what"], op["num"])
            wire = (msg + "\r").encode()
            oracle.timeouts[wire] = op["timeout"]
            if op["drops"]:
                drops[msg] = drops.get(msg, 0) + op["drops"]
            track("send_and_wait_for_response_processed(%s, timeout=%s, max_retries=%s, lost=%d)"
                  % (msg, op["timeout"], op["retries"], op["drops"]),
                  comm.send_and_wait_for_response_processed(msg, H, timeout=op["timeout"], max_retries=op["retries"]),
                  (op["drops"] + 1) * op["timeout"] + 0.5, wire=wire, lost=op["drops"])
        elif kind == "reset":
            ctx.probe("flow_reset")
            track("machine.reset", m.reset(), 160 * 0.35)

    t = sim.now + 0.002
    for op in plan["ops"]:
        t += op["dt"]
        sim.at(t, do, op)
    sim.run(t - sim.now + 0.01)
    # -- liveness: faults have stopped (every scheduled loss is bounded); bound derived from the configured timeouts
    sim.run_quiet(bound_total[0] * 3 + 3.5)
    # A caller whose response was lost and who is never released blocks everything queued behind it: in a run where a
    # reply was actually dropped, every caller that is still blocked is attributed to the lost response.
    lost_any = ctx.faults.get("lost_reply", 0) > 0
    poisoned = False
    for tk in sorted(tasks, key=lambda x: (0 if x["lost"] else 1)):
        task = tk["task"]
        if not task.done():
            direct = tk["lost"] > 0
            if (not lost_any and tk["desc"] == "get_hw_switch_states"
                    and not [t for t in oracle.tx_times.get(b"SA:\r", []) if t >= tk["t0"] - 1e-12]):
                # no reply was lost, but the SA: query of this caller never reached the port at all:
                # update_switches_from_hardware() returned without queueing it (the command was dropped) and
                # get_hw_switch_states() then waits for switch data that nobody asked for
                ctx.violation("command_never_sent", "fast:SA: never queued (get_hw_switch_states waits forever)",
                              "get_hw_switch_states(query_hw=True) started at %.6f is still blocked at %.6f and its "
                              "'SA:' query was never written to the port (writes of SA: %r)"
                              % (tk["t0"], sim.now, oracle.tx_times.get(b"SA:\r")))
                continue
            rule = "lost_response_blocks_forever" if lost_any else "caller_blocked_forever"
            ctx.violation(rule, "fast:%s%s" % (tk["desc"].split("(")[0], "" if direct or not lost_any
                                               else " (behind a caller whose response was lost)"),
                          "%s started at %.6f is still blocked at %.6f (3x the bound derived from the configured "
                          "timeouts has passed, no fault pending); its command was written at %r"
                          % (tk["desc"], tk["t0"], sim.now, oracle.tx_times.get(tk["wire"])))
            poisoned = poisoned or lost_any
        elif task.exception() is not None:
            raise task.exception()
        elif tk["lost"]:
            times = oracle.tx_times.get(tk["wire"], [])
            ctx.log("retries", tk["desc"], times)
            T = oracle.timeouts[tk["wire"]]
            # relaxation "masked": MPF matches responses by header only; if any other response line was delivered
            # while this command waited, MPF may legitimately take it for the awaited one and not retry
            masked = any(any(t0 <= tl <= t0 + T + 1e-9 and hdr in (b"SL:", b"DL:", b"SA:") for tl, hdr in oracle.lines)
                         for t0 in times)
            if len(times) < tk["lost"] + 1 and not masked:
                ctx.violation("lost_response_not_retried", "fast:%s" % tk["desc"].split("(")[0], "%s completed although only %d "
                              "copies of its command were written (%r) and %d responses were lost"
                              % (tk["desc"], len(times), times, tk["lost"]))
    left = [e[0] for e in oracle.enq[oracle.ptr:]]
    if left:
        poisoned = poisoned or lost_any
        ctx.violation("lost_response_blocks_forever" if poisoned else "queue_never_drained",
                      "fast:%s%s" % (_cmd(left[0]), " (behind a caller whose response was lost)" if poisoned else ""),
                      "commands still queued at the end of the run (no faults pending): %r; awaiting=%r"
                      % (left[:5], oracle.awaiting))
    # retry schedule of every command with a configured timeout
    for op in plan["ops"]:
        if op["op"] != "wait":
            continue
        msg, _ = query(op["what"], op["num"])
        times = oracle.tx_times.get((msg + "\r").encode(), [])
        if not times:
            ctx.violation("command_never_sent", "fast:%s" % msg[:3], "%s was never written to the port" % msg)
    ctx.state("fast_flow", plan["lat"], len(plan["ops"]), len(oracle.enq) & 0xf)


# ---------------------------------------------------------------------------------------------------------------
# PKONE


def _pk_boot(ctx, plan, role):
    from checks._c14_boards import TapSerial, PkoneNano
    holder = {}
    main = role == "main"
    prof = plan["boot_lat"] if main else "zero"
    if prof == "mixed":
        prof = "small"
    lat = _latency_policy(ctx, holder, prof, role)
    state = {"post_policy": None}

    def policy(cmd, reply):
        if state["post_policy"] is not None:
            return state["post_policy"](cmd, reply)
        return [(reply, lat())]

    def pre(sim):
        ser = TapSerial(sim, "com3", plan["chunking"] if main else "whole")
        sim.clock.serials["com3"] = ser
        board = PkoneNano(ser, (0, 1), policy)
        for b, n in plan.get("init_closed", []):
            board.active[b][n - 1] = 1
        holder["ser"] = ser
        holder["board"] = board
    sim = ctx.new_sim("c14_pkone", platform="pkone", pre_boot=pre)
    holder["state"] = state
    return sim, holder


def _pk_tap(sim, ctx, watch, tag):
    platform = sim.machine.hardware_platforms["pkone"]
    calls = []

    def wrap(op, orig):
        def tapped(payload):
            rec = {"hdr": op, "msg": payload, "changes": [], "t": sim.now}
            calls.append(rec)
            ctx.log("msg", tag, op, payload, t=sim.now)
            prev, watch.current = watch.current, rec["changes"]
            try:
                return orig(payload)
            finally:
                watch.current = prev
        return tapped
    for op in list(platform.pkone_commands.keys()):
        platform.pkone_commands[op] = wrap(op, platform.pkone_commands[op])
    comm = platform.controller_connection
    return comm, calls


def _pk_expected_initial(plan):
    closed = {tuple(x) for x in plan.get("init_closed", [])}
    return {name: (1 if key in closed else 0) ^ (1 if name in PK_NC else 0) for key, name in PK_SW.items()}


def _pk_emit(ctx, sim, board, op, noisy):
    from checks import _c14_boards as B
    data = b"".join(B.PkoneNano.switch_frame(b, n, s) for b, n, s in op["frames"])
    if "garbage" in op:
        board.line.send(bytes(op["garbage"]), 0.0)
        ctx.fault("garbage")
        ctx.probe("garbage_between_frames")
        noisy[0] = True
    nz = op.get("noise")
    if nz and B.apply_noise(data, nz) != data:
        ctx.fault("noise_" + nz["kind"])
        ctx.probe("noise_inside_frame")
        if nz["kind"] == "lenient":
            ctx.probe("lenient_char_in_number_field")
        noisy[0] = True
    ctx.log("emit", data, nz, t=sim.now)
    board.line.send(data, 0.0, nz)


def _exec_pkone(ctx, plan):
    from checks import _c14_boards as B
    ctx.probe("family_pkone")
    ctx.info.update(family="pkone", noise=plan["noise_mode"])
    sim, h = _pk_boot(ctx, plan, "main")
    sim.boot()
    ser, board = h["ser"], h["board"]
    lat = _latency_policy(ctx, h, plan["lat"], "post")
    h["state"]["post_policy"] = lambda cmd, reply: [(reply, lat())]
    sim.run_quiet(0.25)
    watch = SwitchWatch(sim, ctx, "main")
    init = watch.states()
    exp0 = _pk_expected_initial(plan)
    if init != exp0:
        ctx.violation("initial_state", "pkone", "switch states after boot %r differ from the PSA reports %r" % (init, exp0))
    comm, calls = _pk_tap(sim, ctx, watch, "main")
    mark = len(ser.events)
    carry = _carry(comm, comm.received_msg)
    noisy = [False]
    t = sim.now + 0.002
    for op in plan["ops"]:
        t += op["dt"]
        sim.at(t, _pk_emit, ctx, sim, board, op, noisy)
    sim.run(t - sim.now + 0.05)
    sim.run_quiet(0.55)
    board.line.send(b"E", 0.0)
    tg = plan["tail_gap"]
    for i, (b, n, st) in enumerate(plan["tail"]):
        board.line.send(B.PkoneNano.switch_frame(b, n, st), tg * (i + 1))
    assert len(plan["tail"]) >= K_TAIL
    sim.run_quiet(tg * len(plan["tail"]) + 0.6)
    stream = _consumed(comm, carry + ser.delivered(mark))
    main = _pk_judge(ctx, plan, stream, calls, watch, init, "main")
    _chunk_probes(ctx, ser, mark, b"E")
    if plan["diff"]:
        ctx.probe("diff_replay")
        sim2, h2 = _pk_boot(ctx, plan, "ref")
        sim2.boot()
        sim2.run_quiet(0.25)
        h2["board"].mute = True
        watch2 = SwitchWatch(sim2, ctx, "ref")
        comm2, calls2 = _pk_tap(sim2, ctx, watch2, "ref")
        if _carry(comm2, comm2.received_msg):
            raise AssertionError("reference run has a carry-over after boot: %r" % _carry(comm2, comm2.received_msg))
        pieces = _split_keep(stream, b"E")
        for i, piece in enumerate(pieces):
            h2["ser"].feed(piece, 0.001 * (i + 1))
        sim2.run_quiet(0.001 * len(pieces) + 0.3)
        ref = {"calls": [(c["hdr"], c["msg"]) for c in calls2 if c["hdr"] != "PWD"], "history": list(watch2.history),
               "final": watch2.states(), "stream": stream}
        _compare_runs(ctx, main, ref, "pkone")


def _pk_judge(ctx, plan, stream, calls, watch, init, tag):
    from checks import _c14_boards as B
    lines, rest = B.pkone_reference_lines(stream)
    sw_calls = [c for c in calls if c["hdr"] == "PSW"]
    model = dict(init)
    qi = 0
    seen_noise = False
    for line in lines:
        cls, key, st = B.pkone_classify(line)
        try:
            text = line.decode("utf-8")
        except UnicodeDecodeError:
            text = None
        handed = None
        if qi < len(sw_calls) and text is not None and "PSW" + sw_calls[qi]["msg"] == text:
            handed = sw_calls[qi]
            qi += 1
        name = PK_SW.get(key) if key is not None else None
        if cls == "must":
            if seen_noise:
                ctx.probe("resync_after_noise")
            if handed is None:
                ctx.violation("valid_frame_not_decoded", "pkone", "well-formed report %r in the delivered stream was not "
                              "handed to the PSW processor" % (line,))
                continue
            if name is None:
                ctx.probe("unconfigured_switch_report")
                if handed["changes"]:
                    ctx.violation("wrong_switch_changed", "pkone", "report %r for an unconfigured switch changed %r"
                                  % (line, handed["changes"]))
                continue
            logical = st ^ (1 if name in PK_NC else 0)
            if name in PK_NC:
                ctx.probe("nc_switch_report")
            want = [] if model[name] == logical else [(name, logical)]
            if not want:
                ctx.probe("duplicate_report")
            if handed["changes"] != want:
                ctx.violation("wrong_switch_changed", "pkone", "report %r (switch %s was %d) caused %r, expected %r"
                              % (line, name, model[name], handed["changes"], want))
            model[name] = logical
        elif cls == "may":
            ctx.probe("may_line_seen")
            seen_noise = True
            if handed is not None and handed["changes"]:
                logical = st ^ (1 if name in PK_NC else 0) if name else None
                if name is None or handed["changes"] != [(name, logical)]:
                    ctx.violation("malformed_changed_switch", "pkone:glued", "line %r changed %r"
                                  % (line, handed["changes"]))
                    for nm, s in handed["changes"]:
                        model[nm] = s
                else:
                    model[name] = logical
        else:
            ctx.probe("malformed_line_seen")
            if line[:3] not in (b"PWD", b"PCC", b"PHR", b"PWS"):
                seen_noise = True
            if handed is not None and handed["changes"]:
                ctx.violation("malformed_changed_switch", "pkone:%s" % _shape(line),
                              "line %r is not a well-formed switch report but changed %r" % (line, handed["changes"]))
                for nm, s in handed["changes"]:
                    model[nm] = s
        ctx.state("pkone", plan["chunking"], plan["noise_mode"], cls, _vec(model))
    if qi != len(sw_calls):
        ctx.violation("phantom_message", "pkone", "PSW message %r handed to the processor does not correspond to a "
                      "line of the delivered stream" % (sw_calls[qi]["msg"],))
    final = watch.states()
    for b, n, st in plan["tail"]:
        name = PK_SW[(b, n)]
        model[name] = st ^ (1 if name in PK_NC else 0)
    if final != model:
        diff = {k: (final[k], model[k]) for k in model if final[k] != model[k]}
        ctx.violation("last_report", "pkone", "after the clean tail switch states differ from the last report: "
                      "{switch: (mpf, last report)} = %r" % diff)
    ctx.log("final", tag, sorted(final.items()))
    return {"calls": [(c["hdr"], c["msg"]) for c in calls if c["hdr"] != "PWD"], "history": list(watch.history),
            "final": final, "stream": stream}


# ---------------------------------------------------------------------------------------------------------------
# OPP


def _opp_boot(ctx, plan, role):
    from checks._c14_boards import TapSerial, OppChain
    holder = {}
    main = role == "main"
    lat = _latency_policy(ctx, holder, plan["boot_lat"] if main else "zero", role)
    state = {"post_policy": None}

    def policy(kind, reply):
        if state["post_policy"] is not None:
            return state["post_policy"](kind, reply)
        return [(reply, lat(), None)]

    def pre(sim):
        ser = TapSerial(sim, "com1", plan["chunking"] if main else "whole")
        sim.clock.serials["com1"] = ser
        board = OppChain(ser, OPP_BOARDS, policy)
        board.inputs[0x20] = plan["init"]["20"]
        board.inputs[0x21] = plan["init"]["21"]
        board.matrix[0x21] = plan["init"]["m21"]
        holder["ser"] = ser
        holder["board"] = board
    sim = ctx.new_sim("c14_opp", platform="opp", pre_boot=pre)
    holder["state"] = state
    return sim, holder


def _opp_states_from(vectors):
    """Logical switch states MPF must hold when the last reports were `vectors` {(addr, kind): value}."""
    out = {}
    for (addr, kind, bit), name in OPP_SW.items():
        v = vectors[(addr, kind)]
        raw_active = 0 if (v >> bit) & 1 else 1           # OPP inputs are active low
        out[name] = raw_active ^ (1 if name in OPP_NC else 0)
    return out


def _opp_tap(sim, ctx, watch, tag):
    platform = sim.machine.hardware_platforms["opp"]
    calls = []

    def wrap(code, orig):
        def tapped(chain_serial, msg):
            rec = {"hdr": code, "msg": bytes(msg), "changes": [], "t": sim.now}
            calls.append(rec)
            ctx.log("msg", tag, code, bytes(msg), t=sim.now)
            prev, watch.current = watch.current, rec["changes"]
            try:
                return orig(chain_serial, msg)
            finally:
                watch.current = prev
        return tapped
    for code in (0x08, 0x19):
        platform.opp_commands[code] = wrap(code, platform.opp_commands[code])
    comm = platform.opp_connection["com1"]
    return comm, calls


def _exec_opp(ctx, plan):
    from checks import _c14_boards as B
    ctx.probe("family_opp")
    ctx.info.update(family="opp", noise=plan["noise_mode"])
    sim, h = _opp_boot(ctx, plan, "main")
    sim.boot()
    ser, board = h["ser"], h["board"]
    lat = _latency_policy(ctx, h, plan["lat"], "post")
    pending = {"noise": None, "garbage": None, "drop": False}
    noisy = [False]

    def policy(kind, reply):
        if kind != "poll":
            return [(reply, lat(), None)]
        if pending["drop"]:
            pending["drop"] = False
            ctx.fault("lost_reply")
            ctx.probe("opp_lost_poll_reply")
            noisy[0] = True
            return []
        out = []
        if pending["garbage"] is not None:
            out.append((bytes(pending["garbage"]), 0.0, None))
            pending["garbage"] = None
            ctx.fault("garbage")
            ctx.probe("garbage_between_frames")
            noisy[0] = True
        nz, pending["noise"] = pending["noise"], None
        if nz is not None and B.apply_noise(reply, nz) != reply:
            ctx.fault("noise_" + nz["kind"])
            ctx.probe("noise_inside_frame")
            noisy[0] = True
        out.append((reply, lat(), nz))
        return out
    h["state"]["post_policy"] = policy
    sim.run_quiet(0.05)
    watch = SwitchWatch(sim, ctx, "main")
    init = watch.states()
    vectors = {(0x20, "inp"): plan["init"]["20"], (0x21, "inp"): plan["init"]["21"], (0x21, "mtx"): plan["init"]["m21"]}
    exp0 = _opp_states_from(vectors)
    if init != exp0:
        ctx.violation("initial_state", "opp", "switch states after boot differ from the initial input reports: %r"
                      % {k: (init[k], exp0[k]) for k in exp0 if init[k] != exp0[k]})
    comm, calls = _opp_tap(sim, ctx, watch, "main")
    mark = len(ser.events)
    carry = _carry(comm, comm.part_msg)

    def apply(op):
        ctx.log("op", {k: v for k, v in op.items() if k != "dt"}, t=sim.now)
        if "20" in op:
            board.inputs[0x20] = op["20"]
        if "21" in op:
            board.inputs[0x21] = op["21"]
        if "m21" in op:
            board.matrix[0x21] = op["m21"]
        for k in ("noise", "garbage", "drop"):
            if k in op:
                pending[k] = op[k]
    t = sim.now + 0.002
    for op in plan["ops"]:
        t += op["dt"]
        sim.at(t, apply, op)
    sim.run(t - sim.now + 0.02)
    # let pending faults be consumed by the next polls, then stop the noise
    sim.run_quiet(0.3)
    pending.update(noise=None, garbage=None, drop=False)
    # -- clean tail: the board holds the tail vectors while MPF polls >= K_TAIL times -----------------------------
    polls0 = board.polls
    tail = plan["tail"]
    board.inputs[0x20], board.inputs[0x21], board.matrix[0x21] = tail["20"], tail["21"], tail["m21"]
    if not plan["tail_same"]:
        # switches keep moving for a while, then rest on the tail vectors for the last polls
        def wiggle(k):
            board.inputs[0x20] = tail["20"] ^ (1 << (k % 32))
            board.matrix[0x21] = tail["m21"] ^ (1 << ((7 * k) % 64))
        for k in range(6):
            sim.at(sim.now + 0.011 * (k + 1), wiggle, k)

        def rest():
            board.inputs[0x20], board.matrix[0x21] = tail["20"], tail["m21"]
        sim.at(sim.now + 0.011 * 8, rest)
    guard = 0
    while board.polls - polls0 < K_TAIL + 9 and guard < 200:
        sim.run_quiet(0.05)
        guard += 1
    sim.run_quiet(0.1)
    if board.polls - polls0 < K_TAIL:
        ctx.violation("polling_stopped", "opp", "MPF sent only %d polls in %.2f s after the noise stopped"
                      % (board.polls - polls0, 0.05 * guard))
    stream = _consumed(comm, carry + ser.delivered(mark))
    main = _opp_judge(ctx, plan, stream, calls, watch, init, vectors, noisy[0], "main")
    _chunk_probes(ctx, ser, mark, None)
    rx = [d for k, _, d in ser.events[mark:] if k == "rx"]
    if any(len(d) % 26 for d in rx):
        ctx.probe("split_inside_frame")
    if any(len(d) > 26 for d in rx):
        ctx.probe("coalesced_frames")

    # -- differential replay (always) ---------------------------------------------------------------------------
    ctx.probe("diff_replay")
    sim2, h2 = _opp_boot(ctx, plan, "ref")
    sim2.boot()
    sim2.run_quiet(0.05)
    h2["board"].mute = True
    watch2 = SwitchWatch(sim2, ctx, "ref")
    comm2, calls2 = _opp_tap(sim2, ctx, watch2, "ref")
    sim2.run_quiet(0.3)                      # polls go unanswered from now on
    carry2 = _carry(comm2, comm2.part_msg)
    if carry2.strip(b"\xff"):
        raise AssertionError("reference run is not at a frame boundary after boot: %r" % carry2)
    # a decoder in sync skips EOM bytes, so "EOMs + stream" decodes like "stream" from an empty buffer
    pieces = _split_keep(stream, b"\xff")
    for i, piece in enumerate(pieces):
        h2["ser"].feed(piece, 0.001 * (i + 1))
    sim2.run_quiet(0.001 * len(pieces) + 0.3)
    ref = {"calls": [(c["hdr"], c["msg"]) for c in calls2], "history": list(watch2.history),
           "final": watch2.states(), "stream": stream}
    _compare_runs(ctx, main, ref, "opp")


def _opp_judge(ctx, plan, stream, calls, watch, init, vectors, noisy, tag):
    from checks import _c14_boards as B
    windows = B.opp_valid_windows(stream)
    vectors = dict(vectors)
    model = dict(init)
    # attribution: every frame handed on that changes a switch is a checksum-valid window of the delivered bytes
    search_from = 0
    for c in calls:
        msg = c["msg"]
        kind = "inp" if c["hdr"] == 0x08 else "mtx"
        n = 7 if kind == "inp" else 11
        ok = len(msg) == n and B.crc8(msg[:n - 1]) == msg[n - 1] and (msg[0] & 0xe0) == 0x20 and msg[1] == c["hdr"]
        pos = stream.find(msg, search_from)
        if pos < 0:
            ctx.violation("phantom_message", "opp", "frame %s handed to the processor is not a window of the delivered "
                          "byte stream (after offset %d)" % (msg.hex(), search_from))
        else:
            search_from = pos + 1
        if not ok:
            ctx.probe("opp_bad_crc_window")
            if c["changes"]:
                ctx.violation("malformed_changed_switch", "opp:%s" % kind, "frame %s has a wrong checksum / shape but "
                              "changed %r" % (msg.hex(), c["changes"]))
            continue
        addr = msg[0]
        if (addr, kind) not in vectors:
            if c["changes"]:
                ctx.violation("wrong_switch_changed", "opp", "frame %s for a card without such inputs changed %r"
                              % (msg.hex(), c["changes"]))
            continue
        v = int.from_bytes(msg[2:n - 1], "big")
        vectors[(addr, kind)] = v
        new = _opp_states_from(vectors)
        want = sorted((k, new[k]) for k in new if new[k] != model[k])
        if kind == "mtx" and want:
            ctx.probe("opp_matrix_change")
        if any(b in (0x20, 0x21, 0x08, 0x19) for b in msg[2:n - 1]):
            ctx.probe("opp_payload_looks_like_header")
        if sorted(c["changes"]) != want:
            ctx.violation("wrong_switch_changed", "opp:%s" % kind, "valid frame %s caused %r, expected %r"
                          % (msg.hex(), c["changes"], want))
        model = new
        for name in OPP_NC:
            if any(k == name for k, _ in want):
                ctx.probe("nc_switch_report")
        ctx.state("opp", plan["chunking"], plan["noise_mode"], kind, _vec(model))
    # exactness without noise: every delivered frame is decoded, in order
    if not noisy:
        ref_frames = _opp_reference_decode(stream)
        got = [c["msg"] for c in calls]
        if got != ref_frames:
            n = min(len(got), len(ref_frames))
            i = next((k for k in range(n) if got[k] != ref_frames[k]), n)
            ctx.violation("valid_frame_not_decoded", "opp", "noise-free stream: frames handed to the processors differ "
                          "from the frames on the wire at index %d: mpf=%r wire=%r (%d/%d)"
                          % (i, [g.hex() for g in got[i:i + 2]], [g.hex() for g in ref_frames[i:i + 2]], len(got),
                             len(ref_frames)))
    elif windows:
        ctx.probe("resync_after_noise")
    # last report: the tail vectors were reported >= K_TAIL times after the noise stopped
    tail = plan["tail"]
    last = _opp_states_from({(0x20, "inp"): tail["20"], (0x21, "inp"): tail["21"], (0x21, "mtx"): tail["m21"]})
    final = watch.states()
    if final != last:
        diff = {k: (final[k], last[k]) for k in last if final[k] != last[k]}
        ctx.violation("last_report", "opp", "after >= %d clean poll replies switch states differ from the last report: "
                      "{switch: (mpf, last report)} = %r; tail vectors %08x %08x %016x" %
                      (K_TAIL, diff, tail["20"], tail["21"], tail["m21"]))
    ctx.log("final", tag, sorted(final.items()))
    return {"calls": [(c["hdr"], c["msg"]) for c in calls], "history": list(watch.history), "final": final,
            "stream": stream}


def _opp_reference_decode(stream):
    """Decode a noise-free OPP reply stream: frames are back to back, groups end with EOM (0xff)."""
    out = []
    i = 0
    n = len(stream)
    while i < n:
        b = stream[i]
        if b == 0xff:
            i += 1
            continue
        if (b & 0xe0) == 0x20:
            if i + 1 >= n:
                break                  # a frame whose first byte only has been consumed so far
            ln = 7 if stream[i + 1] == 0x08 else 11 if stream[i + 1] == 0x19 else None
            if ln is None:
                raise AssertionError("reference decoder: unexpected command byte in a noise-free stream at %d" % i)
            if i + ln > n:
                break
            out.append(bytes(stream[i:i + ln]))
            i += ln
            continue
        raise AssertionError("reference decoder: unexpected byte 0x%02x at %d in a noise-free stream" % (b, i))
    return out


# ---------------------------------------------------------------------------------------------------------------


def execute(ctx, plan):
    fam = plan["family"]
    if fam == "fast_in":
        _exec_fast_in(ctx, plan)
    elif fam == "fast_flow":
        _exec_fast_flow(ctx, plan)
    elif fam == "opp":
        _exec_opp(ctx, plan)
    elif fam == "pkone":
        _exec_pkone(ctx, plan)
    else:
        raise Discard("unknown family")


def on_crash(ctx, crash):
    """An exception reached the loop's exception handler: MPF stops.  The statement says that malformed input never
    changes a switch *and* that the decoder resynchronises afterwards, so dying on line noise is a violation."""
    import traceback
    exc = crash.exc
    fam = ctx.info.get("family", "?")
    tb = traceback.extract_tb(exc.__traceback__) if exc is not None else []
    where = ""
    for fr in reversed(tb):
        if "/mpf/platforms/" in fr.filename:
            where = "%s:%s" % (fr.filename.rsplit("/", 1)[1], fr.name)
            break
    if not where:
        return None
    noise = ctx.info.get("noise", "none")
    rule = "decoder_crash" if noise != "none" else "decoder_crash_on_valid_stream"
    return (rule, "%s:%s in %s" % (fam, type(exc).__name__, where),
            "MPF stops: %s: %s raised in %s while decoding the serial stream (noise mode %s)"
            % (type(exc).__name__, exc, where, noise))
