"""Helpers of the C02 check: history oracle (written from the property statement) and the workload driver."""
import asyncio
import re

QEV = ["q0", "q1", "q2", "q3"]
REV = ["r0", "r1"]
BEV = ["b0", "b1"]
CEV = ["c0", "c1"]
MODES = {"mq": {"start": "q1", "wq": True}, "mqc": {"start": "q2", "wq": True},
         "mp": {"start": "q3", "wq": False}, "mr": {"start": None, "wq": False}}
MSTART = ["mode_mq_starting", "mode_mqc_starting", "mode_mp_starting"]
MSTOP = ["mode_mq_stopping", "mode_mqc_stopping", "mode_mp_stopping"]
GMODES = ["gm1", "gm2", "gm3"]
GEV = ["ball_starting", "ball_ending", "game_ending", "mode_game_stopping"] + \
      ["mode_%s_starting" % m for m in GMODES] + ["mode_%s_stopping" % m for m in GMODES]
RELAYS = {"relay": {"req": "c02_relay_req", "ack": "c02_relay_ack", "ev": "q3"},
          "mr": {"req": "c02_mr_req", "ack": "c02_mr_ack", "ev": "q0"}}
EPS = 1e-9
INST_CAP = 60


def eff_prio(spec):
    """Effective priority of a handler: nominal priority + the relative priority its callable carries."""
    return spec["prio"] + spec.get("rel", 0)


def crash_sig(txt):
    t = re.sub(r"0x[0-9a-f]+", "0x", txt)
    t = re.sub(r"\d+", "N", t)
    return t[:90]


class Inst:
    """One posted event instance and everything observed about it."""

    def __init__(self, iid, name, typ, how, kw, t, seq, has_cb=True):
        self.iid = iid
        self.name = name
        self.typ = typ            # queue / relay / boolean
        self.how = how
        self.kw = dict(kw)        # posted kwargs
        self.t = t
        self.seq = seq
        self.has_cb = has_cb
        self.entries = []         # [(hkey, prio, seq)]
        self.waits = {}           # wid -> description, outstanding only
        self.done = 0
        self.done_seq = None
        self.progress_t = t       # instant of the last observed progress (post, entry, clear, callback)
        self.cur = dict(kw)       # relay: arguments as updated so far
        self.false_seen = False   # boolean
        self.on_done = None
        self.stuck_exempt = False  # MPF-internal handlers may hold this instance without us seeing it
        self.queues = []           # [(hkey, QueuedEvent)] the queue objects handed to handlers of this instance

    def __repr__(self):
        return "<%s#%s %s>" % (self.name, self.iid, self.typ)


class World:
    """Workload driver + history oracle.

    Oracle rules (ids used in ctx.violation), all derived from the statement of C02:
      callback_twice          completion callback fired more than once
      callback_before_clear   completion while a wait registered by a handler of this instance is outstanding
      handler_skipped         completion although a handler registered for the whole life of the instance never ran
      overlap                 a handler was entered while an earlier handler's wait is outstanding
      order                   handlers of one instance entered in ascending priority / a handler entered twice
      handler_after_callback  a handler of an instance ran after its completion callback
      locked_queue            a handler was handed a QueuedEvent that already carries somebody else's wait
      queue_state             wait()/clear() of a legally used QueuedEvent raised (Double lock / Not locked)
      stuck                   nothing outstanding (no wait, or the last wait was cleared) but the instance made no
                              progress although simulated time moved on (bounded liveness, bound = same instant)
      never_completes         end of run (every wait cleared, settle time elapsed) and no completion
      relay_args / relay_result   relay handler saw / callback got other arguments than posted+updates
      bool_after_false / bool_result   handler ran after the first False / ev_result wrong
      unregistered_handler    handler ran although it was removed before the event was posted
      crash                   (on_crash) an exception reached the loop
    """

    def __init__(self, ctx, sim, plan):
        self.ctx = ctx
        self.sim = sim
        self.plan = plan
        self.m = sim.machine
        self.ev = sim.machine.events
        self.loop = sim.loop
        self.seq = 0
        self.insts = {}
        self.all = []
        self.next_iid = 1
        self.sys_inflight = {}
        self.qep_inflight = {}
        self.pools = {c: [] for c in CEV}
        self.hreg = {}            # hid -> {"spec", "key", "fn", "intervals"}
        self.mode_state = {m: "idle" for m in MODES}
        self.mode_busy_seq = {m: -1 for m in MODES}     # last seq at which the mode was not idle
        self.mode_nonactive_seq = {m: 0 for m in MODES}  # last seq at which the mode was not 'active'
        self.mode_hold = {m: None for m in MODES}
        self.mode_starts = {m: 0 for m in MODES}
        self.pseudo_prio = {}
        self.deadlines = []
        self.acks = 0
        self.tokens = 0
        self.skipped_posts = 0
        self.last_clear_t = None
        self.ops_done = False

    # ------------------------------------------------------------------ utilities
    def now(self):
        return self.loop.time()

    def tick(self, kind):
        self.seq += 1
        self.ctx.state(sum(1 for i in self.all if not i.done), sum(len(i.waits) for i in self.all),
                       tuple(self.mode_state[m] for m in sorted(MODES)), kind)
        return self.seq

    def log(self, kind, *detail):
        self.ctx.log(kind, *detail, t=self.now())

    def deadline(self, t):
        self.deadlines.append(t)
        return t

    def stall_landed_now(self):
        sl = self.loop.stall_log
        return bool(sl) and abs(sl[-1][1] - self.now()) <= EPS and sl[-1][1] - sl[-1][0] > EPS

    # ------------------------------------------------------------------ oracle
    def progress(self, inst):
        inst.progress_t = self.now()

    def check_stuck(self):
        """Bounded liveness: an instance without outstanding wait progresses in the instant that enabled it."""
        now = self.now()
        for inst in self.all:
            if inst.done or inst.waits or not inst.has_cb or inst.stuck_exempt:
                continue
            if now > inst.progress_t + EPS:
                self.ctx.violation("stuck", "%s never progressed" % inst.name,
                                   "%r (posted %.6f, %d handlers entered: %r) has no outstanding wait since %.6f but "
                                   "neither a further handler nor its completion callback ran (now %.6f)"
                                   % (inst, inst.t, len(inst.entries), [e[0] for e in inst.entries],
                                      inst.progress_t, now))
                inst.progress_t = now      # known finding: do not repeat

    def enter(self, inst, hkey, prio, queue=None):
        seq = self.tick("enter")
        self.log("enter", inst.name, inst.iid, hkey, prio)
        self.check_stuck()
        if inst.done:
            self.ctx.violation("handler_after_callback", inst.name,
                               "handler %r of %r ran after the completion callback" % (hkey, inst))
        if inst.waits:
            self.ctx.violation("overlap", inst.name, "handler %r of %r entered while waits %r of earlier handlers "
                               "are outstanding" % (hkey, inst, sorted(inst.waits.values())))
        locked = self.locked_queues(inst)
        if locked:
            self.ctx.violation("overlap", inst.name, "handler %r of %r entered while the QueuedEvent handed to "
                               "earlier handler(s) %r still carries a wait" % (hkey, inst, locked))
        if any(e[0] == hkey for e in inst.entries):
            self.ctx.violation("order", "handler twice", "handler %r ran twice for %r" % (hkey, inst))
        if inst.entries and prio is not None:
            last = [e[1] for e in inst.entries if e[1] is not None]
            if last and prio > last[-1]:
                self.ctx.violation("order", "priority", "handler %r (priority %s) of %r ran after a handler of "
                                   "priority %s" % (hkey, prio, inst, last[-1]))
        if queue is not None and getattr(queue, "waiter", False):
            self.ctx.violation("locked_queue", inst.name, "handler %r of %r was handed a QueuedEvent that already "
                               "carries a wait" % (hkey, inst))
        if inst.typ == "boolean" and inst.false_seen:
            self.ctx.violation("bool_after_false", inst.name, "handler %r of %r ran after a handler returned False"
                               % (hkey, inst))
        if isinstance(hkey, tuple) and hkey[0] == "h":
            reg = self.hreg[hkey[1]]
            if not any((b is None or b >= inst.seq) and a <= seq for a, b in reg["intervals"]):
                self.ctx.violation("unregistered_handler", inst.name, "handler %r ran for %r although it was not "
                                   "registered at any time since the post" % (hkey, inst))
        inst.entries.append((hkey, prio, seq))
        self.progress(inst)
        if sum(1 for i in self.all if not i.done and i.typ == "queue" and i.entries) >= 2:
            self.ctx.probe("concurrent_queue_events")

    def locked_queues(self, inst):
        """Handlers of `inst` whose QueuedEvent object still carries a wait (whoever registered it, e.g. Mode.start).

        Direct observation of "an earlier handler's wait is outstanding".  A queue which a handler forwarded to a
        nested event is shared with that event's handlers and says nothing about this instance: skipped.
        """
        shared = getattr(self, "shared_queues", ())
        return [hk for hk, q in inst.queues if q.waiter and not any(q is x for x in shared)]

    def wait_begin(self, inst, wid, desc):
        self.tick("wait")
        self.log("wait", inst.name, inst.iid, desc)
        inst.waits[wid] = desc

    def wait_end(self, inst, wid):
        if wid not in inst.waits:
            return
        self.tick("clear")
        self.log("clear", inst.name, inst.iid, inst.waits[wid])
        del inst.waits[wid]
        now = self.now()
        if self.last_clear_t is not None and abs(self.last_clear_t - now) <= EPS:
            self.ctx.probe("clears_same_instant")
        self.last_clear_t = now
        self.progress(inst)

    def required_handlers(self, inst, seq):
        """Handlers that were registered during the whole life [post, completion] of the instance."""
        req = []
        for hid in sorted(self.hreg):
            reg = self.hreg[hid]
            if reg["spec"]["ev"] != inst.name:
                continue
            if any(a <= inst.seq and (b is None or b >= seq) for a, b in reg["intervals"]):
                req.append(("h", hid))
        for mname, mc in MODES.items():
            if mc["start"] == inst.name and self.mode_state[mname] == "idle" and \
                    self.mode_busy_seq[mname] < inst.seq:
                req.append(("mode", mname))
        if inst.name == "q3":
            req.append(("relay", "relay"))
        if inst.name == "q0" and self.mode_state["mr"] == "active" and self.mode_nonactive_seq["mr"] < inst.seq:
            req.append(("relay", "mr"))
        return req

    def complete(self, inst, kwargs):
        seq = self.tick("done")
        self.log("done", inst.name, inst.iid, sorted((k, repr(v)) for k, v in kwargs.items() if k != "queue"))
        self.check_stuck()
        inst.done += 1
        if inst.done > 1:
            self.ctx.violation("callback_twice", inst.name, "completion callback of %r fired %d times"
                               % (inst, inst.done))
            return
        inst.done_seq = seq
        if inst.waits:
            self.ctx.violation("callback_before_clear", inst.name, "completion callback of %r fired while waits %r "
                               "are outstanding" % (inst, sorted(inst.waits.values())))
        locked = self.locked_queues(inst)
        if locked:
            self.ctx.violation("callback_before_clear", inst.name, "completion callback of %r fired while the "
                               "QueuedEvent handed to handler(s) %r still carries a wait" % (inst, locked))
        entered = {e[0] for e in inst.entries}
        if not (inst.typ == "boolean" and inst.false_seen):
            missing = [h for h in self.required_handlers(inst, seq) if h not in entered]
            if missing:
                self.ctx.violation("handler_skipped", inst.name, "completion callback of %r fired but handlers %r "
                                   "(registered since before the post) never ran; ran: %r"
                                   % (inst, missing, [e[0] for e in inst.entries]))
        if inst.typ == "relay":
            got = {k: v for k, v in kwargs.items() if k != "ev_result"}
            if got != inst.cur:
                self.ctx.violation("relay_result", inst.name, "relay %r returned %r, posted %r updated by the "
                                   "handlers gives %r" % (inst, got, inst.kw, inst.cur))
            if len([e for e in inst.entries]) >= 3:
                self.ctx.probe("relay_chain3")
        if inst.typ == "boolean":
            if inst.false_seen:
                self.ctx.probe("bool_false_midway")
                if kwargs.get("ev_result", "missing") is not False:
                    self.ctx.violation("bool_result", inst.name, "boolean %r: a handler returned False but the "
                                       "callback got ev_result=%r" % (inst, kwargs.get("ev_result", "missing")))
            else:
                self.ctx.probe("bool_no_false")
                if kwargs.get("ev_result", None) is False:
                    self.ctx.violation("bool_result", inst.name, "boolean %r: no handler returned False but "
                                       "ev_result is False" % (inst,))
        if inst.typ == "queue" and not inst.entries:
            self.ctx.probe("no_handler_queue_event")
        self.progress(inst)
        if inst.on_done is not None:
            fn, inst.on_done = inst.on_done, None
            fn()

    # ------------------------------------------------------------------ attribution of observations
    def attribute(self, evname, kwargs):
        if evname in MSTART or evname in MSTOP:
            inst = self.sys_inflight.get(evname)
        elif "iid" in kwargs:
            inst = self.insts.get(kwargs["iid"])
        elif kwargs.get("src") in ("qep", "qep2"):
            inst = self.qep_inflight.get(kwargs["src"])
        else:
            inst = self.empty_inflight.get(evname)
        if inst is None:
            raise AssertionError("harness: cannot attribute handler call of %s %r" % (evname, sorted(kwargs)))
        return inst

    # ------------------------------------------------------------------ setup
    def setup(self):
        from sim.tap import tap_events
        self.empty_inflight = {}
        self.mode_stopped_t = {}
        self.shared_queues = []      # QueuedEvents forwarded to a nested queue event (identity list, no hashing)
        self.waited_queues = []      # QueuedEvents on which one of our handlers already waited once
        self.qep2_used = False
        self.qep_requested = False
        for mname, mc in MODES.items():
            if mc["start"]:
                for h in self.ev.registered_handlers.get(mc["start"], []):
                    if h.callback == self.m.modes[mname].start:
                        self.pseudo_prio[("mode", mname)] = h.priority
        for h in self.ev.registered_handlers.get("q3", []):
            if getattr(h.callback, "__name__", "") == "config_play_callback":
                self.pseudo_prio[("relay", "relay")] = h.priority
        assert len(self.pseudo_prio) == 4, self.pseudo_prio
        self.pseudo_prio[("relay", "mr")] = None     # mode-scoped player: priority not part of the oracle
        self.names = {}
        for mname in MODES:
            for ph in ("will_start", "starting", "started", "will_stop", "stopping", "stopped"):
                self.names["mode_%s_%s" % (mname, ph)] = (ph, mname)
        for which, r in RELAYS.items():
            self.names[r["req"]] = ("req", which)
            self.names[r["ack"]] = ("ack", which)
        self.names["q0"] = ("q0", None)
        self.names["c02_qep_done"] = ("qep_done", None)
        tap_events(self.sim, self.on_post)
        for c in CEV:
            self.ev.add_handler(c, self._mk_c_handler(c), priority=1)
        for which, r in RELAYS.items():
            self.ev.add_handler(r["ack"], self._mk_ack_handler(which), priority=1000000)
        self.ev.add_handler("c02_rm", lambda hid, **kwargs: self.unregister(hid), priority=1)
        self.ev.add_handler("c02_add", lambda hid, **kwargs: self.register(hid), priority=1)
        self.ev.add_handler("c02_rm_all", lambda hids, **kwargs: [self.unregister(h) for h in hids], priority=1)
        self.ev.add_handler("c02_add_all", lambda hids, **kwargs: [self.register(h) for h in hids], priority=1)
        for spec in self.plan["handlers"]:
            self.hreg[spec["hid"]] = {"spec": spec, "key": None, "fn": self._mk_handler(spec), "intervals": []}
            self.register(spec["hid"])
        if self.plan["drv"].get("mr_boot"):
            self.ev.post("c02_start_mr")
            self.sim.run_quiet(0.01)

    def register(self, hid):
        reg = self.hreg[hid]
        if reg["key"] is not None:
            return
        spec = reg["spec"]
        if spec["kind"] == "coro":
            reg["key"] = self.ev.add_async_handler(spec["ev"], reg["fn"], priority=spec["prio"])
        else:
            reg["key"] = self.ev.add_handler(spec["ev"], reg["fn"], priority=spec["prio"], **spec.get("reg", {}))
        reg["intervals"].append([self.tick("add"), None])
        self.log("add_handler", hid)

    def unregister(self, hid):
        reg = self.hreg[hid]
        if reg["key"] is None:
            return
        self.ev.remove_handler_by_key(reg["key"])
        reg["key"] = None
        reg["intervals"][-1][1] = self.tick("rm")
        self.log("remove_handler", hid)
        name = reg["spec"]["ev"]
        inflight = [i for i in self.all if i.name == name and not i.done and i.has_cb]
        if inflight:
            self.ctx.probe("handler_removed_in_flight")
            if name not in self.ev.registered_handlers and any(not i.entries for i in inflight):
                self.ctx.probe("all_handlers_removed_after_post")

    # ------------------------------------------------------------------ handlers owned by the workload
    def _mk_c_handler(self, c):
        def on_c(**kwargs):
            self.clear_pool(c, "event")
        return on_c

    def _mk_ack_handler(self, which):
        # Registered with a priority above the relay player's own wait_for handlers: runs first in the dispatch
        # of the ack event, i.e. exactly the relay waits registered when the ack is processed are released.
        def on_ack(**kwargs):
            for inst in self.all:
                if ("relay", which) in inst.waits:
                    self.wait_end(inst, ("relay", which))
        return on_ack

    def _mk_handler(self, spec):
        kind = spec["kind"]
        if kind == "relay":
            fn = self._mk_relay_handler(spec)
        elif kind == "bool":
            fn = self._mk_bool_handler(spec)
        elif kind == "coro":
            return self._mk_coro_handler(spec)
        else:
            fn = self._mk_queue_handler(spec)
        if spec.get("rel"):
            from mpf.core.events import event_handler
            fn = event_handler(spec["rel"])(fn)       # sets fn.relative_priority, added inside add_handler
            self.ctx.probe("relative_priority_handler")
        return fn

    def _mk_queue_handler(self, spec):
        hid = spec["hid"]
        hkey = ("h", hid)

        def handler(queue=None, **kwargs):
            if queue is None:
                raise AssertionError("harness: queue handler %d called without queue" % hid)
            inst = self.attribute(spec["ev"], kwargs)
            self.enter(inst, hkey, eff_prio(spec), queue)
            inst.queues.append((hkey, queue))
            if spec["kind"] == "wait":
                if spec["ev"] in MSTART:
                    self.ctx.probe("mode_starting_waiter")
                elif spec["ev"] in MSTOP:
                    self.ctx.probe("mode_stopping_waiter")
                if spec.get("rewait"):
                    # legal per the QueuedEvent API: wait, clear, wait again (never double-wait / double-clear)
                    self.ctx.probe("rewait_same_queue")
                    pre = self.new_token(inst, queue, hid)
                    try:
                        queue.wait()
                    except AssertionError as e:
                        self.ctx.violation("queue_state", str(e), "first wait() of handler %r of %r raised %r"
                                           % (hkey, inst, e))
                        return
                    self.wait_begin(inst, pre["wid"], "h%d-pre" % hid)
                    self.clear_token(pre, "now")
                if any(q is queue for q in self.waited_queues):
                    self.ctx.probe("shared_queue_second_wait")
                else:
                    self.waited_queues.append(queue)
                tok = self.new_token(inst, queue, hid)
                try:
                    queue.wait()
                except AssertionError as e:
                    self.ctx.violation("queue_state", str(e), "wait() on the QueuedEvent handed to handler %r of %r "
                                       "raised %r" % (hkey, inst, e))
                    return
                self.wait_begin(inst, tok["wid"], "h%d" % hid)
                c = spec["clear"]
                now = self.now()
                if c[0] == "now":
                    self.ctx.probe("immediate_clear")
                    self.clear_token(tok, "now")
                elif c[0] == "timed":
                    self.sim.at(self.deadline(now + c[1]), self._timed_clear, tok)
                elif c[0] == "event":
                    self.pools[c[1]].append(tok)
                    if c[2] < 0:
                        self.ev.post(c[1])
                    else:
                        self.sim.at(self.deadline(now + c[2]), self.post_c, c[1])
                else:
                    if c[2] in QEV:
                        self.ctx.probe("nested_queue_in_waiting_handler")
                    self.post_event(c[1], c[2], c[3], on_done=lambda: self.clear_token(tok, "nested"))
            self.run_acts(spec["acts"], inst, queue, kwargs)
            return self._queue_ret(spec, inst)
        return handler

    def _queue_ret(self, spec, inst):
        """Return value of a queue-event handler: per the statement it has no effect on the dispatch."""
        if "ret" not in spec:
            return None
        ret = spec["ret"]
        if ret is False:
            self.ctx.probe("queue_handler_returns_false")
        else:
            self.ctx.probe("queue_handler_returns_value")
        self.log("ret", inst.name, inst.iid, spec["hid"], repr(ret))
        return dict(ret) if isinstance(ret, dict) else ret

    def _mk_coro_handler(self, spec):
        hid = spec["hid"]
        hkey = ("h", hid)

        async def body(inst, wid):
            # The wait the event manager registered for this coroutine ends when the coroutine ends - also when
            # it ends cancelled (the adapter clears it in the task's done callback right after).
            try:
                cancel = spec.get("cancel")
                if cancel and cancel[0] == "task":
                    # the handler task is cancelled from outside through a handle we keep
                    task = asyncio.current_task()
                    self.sim.at(self.deadline(self.now() + cancel[1]), self._cancel_task, task, hid)
                for seg in spec["segs"]:
                    self.deadline(self.now() + seg["d"])
                    await asyncio.sleep(seg["d"])
                    self.check_stuck()
                    self.run_acts(seg["acts"], inst)
                    if "await_q" in seg:
                        self.ctx.probe("nested_queue_in_waiting_handler")
                        fut = self.post_event("queue_async", seg["await_q"][0], seg["await_q"][1])
                        if fut is not None:
                            await fut
                if cancel and cancel[0] == "fut":
                    # the coroutine awaits a future whose owner cancels it
                    fut = self.loop.create_future()
                    self.sim.at(self.deadline(self.now() + cancel[1]), self._cancel_future, fut, hid)
                    await fut
            except asyncio.CancelledError:
                self.log("coro_cancelled", hid)
                self.ctx.probe("coro_ends_cancelled")
                raise
            finally:
                self.wait_end(inst, wid)
            return self._queue_ret(spec, inst)

        def starter(**kwargs):
            # called synchronously by EventManager._async_handler_coroutine (after it registered the wait)
            inst = self.attribute(spec["ev"], kwargs)
            self.enter(inst, hkey, eff_prio(spec), None)
            self.ctx.probe("coro_handler")
            self.tokens += 1
            wid = ("tok", self.tokens)
            self.wait_begin(inst, wid, "coro%d" % hid)
            return body(inst, wid)
        return starter

    def _cancel_task(self, task, hid):
        self.check_stuck()
        if not task.done():
            self.log("cancel_task", hid)
            self.ctx.probe("coro_task_cancelled")
            task.cancel()

    def _cancel_future(self, fut, hid):
        self.check_stuck()
        if not fut.done():
            self.log("cancel_future", hid)
            self.ctx.probe("coro_awaited_future_cancelled")
            fut.cancel()

    def _mk_relay_handler(self, spec):
        hid = spec["hid"]

        def handler(**kwargs):
            inst = self.attribute(spec["ev"], kwargs)
            self.enter(inst, ("h", hid), eff_prio(spec), None)
            expected = dict(inst.cur)
            expected.update(spec.get("reg", {}))
            if any(k in inst.cur for k in spec.get("reg", {})):
                self.ctx.probe("relay_reg_collides_posted")
            if isinstance(spec["ret"], dict) and any(k in spec["ret"] for k in spec.get("reg", {})):
                self.ctx.probe("relay_ret_collides_reg")
            if kwargs != expected:
                self.ctx.violation("relay_args", inst.name, "relay handler %d of %r saw %r, posted %r updated by "
                                   "earlier handlers (+ its registered kwargs) is %r"
                                   % (hid, inst, kwargs, inst.kw, expected))
            self.run_acts(spec["acts"], inst)
            ret = spec["ret"]
            if ret is False:
                self.ctx.probe("relay_handler_returns_false")
            if isinstance(ret, dict):
                inst.cur.update(ret)
                return dict(ret)
            return ret
        return handler

    def _mk_bool_handler(self, spec):
        hid = spec["hid"]

        def handler(**kwargs):
            inst = self.attribute(spec["ev"], kwargs)
            self.enter(inst, ("h", hid), eff_prio(spec), None)
            self.run_acts(spec["acts"], inst)
            ret = spec["ret"]
            if ret is False:
                inst.false_seen = True
            return dict(ret) if isinstance(ret, dict) else ret
        return handler

    # ------------------------------------------------------------------ waits owned by the workload
    def new_token(self, inst, queue, hid):
        self.tokens += 1
        return {"wid": ("tok", self.tokens), "inst": inst, "queue": queue, "hid": hid, "cleared": False}

    def clear_token(self, tok, how):
        if tok["cleared"]:
            raise AssertionError("harness: workload cleared a wait twice")
        tok["cleared"] = True
        self.ctx.probe({"now": "immediate_clear", "timed": "timed_clear", "event": "clear_by_event",
                        "nested": "clear_by_nested_callback", "direct": "direct_clear_from_handler"}[how])
        if self.stall_landed_now():
            self.ctx.probe("late_after_stall")
        self.wait_end(tok["inst"], tok["wid"])
        try:
            tok["queue"].clear()
        except AssertionError as e:
            self.ctx.violation("queue_state", str(e), "clear() of the wait of handler %d of %r raised %r"
                               % (tok["hid"], tok["inst"], e))

    def _timed_clear(self, tok):
        self.check_stuck()
        self.clear_token(tok, "timed")

    def clear_pool(self, c, how):
        toks = self.pools[c]
        self.pools[c] = []
        if len(toks) > 1 and self.plan["knobs"].get("perm_clears"):
            perm = self.ctx.rt.shuffle_perm("clr_order", len(toks))
            if perm != list(range(len(toks))):
                self.ctx.fault("clear_order_permuted")
            toks = [toks[i] for i in perm]
        for tok in toks:
            self.clear_token(tok, how)

    def post_c(self, c):
        self.check_stuck()
        self.log("post_c", c)
        self.ev.post(c)

    def run_acts(self, acts, inst, queue=None, kwargs=None):
        for act in acts or []:
            if act[0] == "postfwd":
                # Re-post the received kwargs *including the queue* on a nested queue event: every handler of
                # the nested event is handed this one QueuedEvent (the dispatcher takes `queue` from the posted
                # kwargs).  Legal only while the queue is unlocked and not already shared with another
                # dispatcher (two dispatchers on one queue could double-wait), otherwise an ordinary post.
                self.ctx.probe("nested_post_in_handler")
                if queue is None or queue.waiter or any(q is queue for q in self.shared_queues):
                    self.post_event("queue", act[1], act[2])
                else:
                    self.shared_queues.append(queue)
                    self.ctx.probe("forwarded_queue_nested")
                    extra = {k: v for k, v in (kwargs or {}).items() if k not in ("iid", "src", "mode")}
                    extra.update(act[2])
                    self.post_event("queue", act[1], extra, fwd_queue=queue)
            elif act[0] == "post":
                self.ctx.probe("nested_post_in_handler")
                if inst.waits and act[2] in QEV:
                    self.ctx.probe("nested_queue_in_waiting_handler")
                self.post_event(act[1], act[2], act[3])
            elif act[0] == "postc":
                self.log("post_c", act[1])
                self.ev.post(act[1])
            else:
                self.clear_pool(act[1], "direct")

    # ------------------------------------------------------------------ posting
    def post_event(self, how, ev, kw, on_done=None, fwd_queue=None):
        if len(self.all) >= INST_CAP:
            self.skipped_posts += 1
            self.log("post_skipped", ev)
            if on_done is not None:
                on_done()
            return None
        typ = "queue" if ev in QEV else ("relay" if ev in REV else "boolean")
        iid = self.next_iid
        self.next_iid += 1
        empty = typ == "relay" and not kw and self.empty_inflight.get(ev) is None
        full = {} if empty else dict(kw, iid=iid)
        inst = Inst(iid, ev, typ, how, full, self.now(), self.tick("post"))
        self.insts[iid] = inst
        self.all.append(inst)
        inst.on_done = on_done
        if empty:
            self.empty_inflight[ev] = inst
            self.ctx.probe("relay_empty_kwargs")
        if typ == "queue" and any(i is not inst and i.name == ev and not i.done for i in self.all):
            self.ctx.probe("same_event_concurrent")
        self.log("post", ev, iid, how, sorted(full.items()))

        def cb(**k):
            self._completed(inst, k)
        if how == "queue" and fwd_queue is not None:
            self.ev.post_queue(ev, callback=cb, queue=fwd_queue, **full)
        elif how == "queue":
            self.ev.post_queue(ev, callback=cb, **full)
        elif how == "relay":
            self.ev.post_relay(ev, callback=cb, **full)
        elif how == "boolean":
            self.ev.post_boolean(ev, callback=cb, **full)
        else:
            fut = self.ev.post_queue_async(ev, **full) if how == "queue_async" else \
                self.ev.post_relay_async(ev, **full)
            fut.add_done_callback(lambda f: self._async_done(inst, f))
            return fut
        return None

    def _async_done(self, inst, f):
        if f.cancelled():
            # the coroutine awaiting this future was cancelled: the completion of the nested event is no
            # longer observable; only its handler-level rules stay in force
            inst.has_cb = False
            self.log("awaiter_cancelled", inst.name, inst.iid)
            return
        self._completed(inst, f.result())

    def _completed(self, inst, k):
        if self.empty_inflight.get(inst.name) is inst:
            del self.empty_inflight[inst.name]
        for mname, mc in MODES.items():
            if mc["start"] == inst.name and not any(e[0] == ("mode", mname) for e in inst.entries):
                self.ctx.probe("mode_start_noop_active")
        self.complete(inst, k)

    # ------------------------------------------------------------------ observation of MPF's own handlers (tap)
    def on_post(self, name, ev_type, callback, kwargs):
        what = self.names.get(name)
        if what is None:
            return
        ph, arg = what
        if ph == "q0":
            if kwargs.get("src") in ("qep", "qep2") and "iid" not in kwargs:
                src = kwargs["src"]
                inst = Inst("%s-%d" % (src, self.tick("post")), "q0", "queue", src, dict(kwargs), self.now(),
                            self.seq, has_cb=(src == "qep"))
                self.all.append(inst)
                self.qep_inflight[src] = inst
                self.ctx.probe("qep_post")
                self.log("post", "q0", inst.iid, src)
            return
        if ph == "qep_done":
            inst = self.qep_inflight.pop("qep", None)
            self.qep_requested = False
            if inst is None:
                self.ctx.violation("callback_twice", "q0", "queue_event_player finished event without a pending "
                                   "queue event")
                return
            self.complete(inst, {})
            return
        if ph == "req":
            r = RELAYS[arg]
            inst = self.attribute(r["ev"], kwargs)
            self.enter(inst, ("relay", arg), self.pseudo_prio[("relay", arg)], None)
            self.wait_begin(inst, ("relay", arg), "relay:%s" % arg)
            self.ctx.probe("relay_player_wait" if arg == "relay" else "mr_relay_wait")
            d = self.plan["drv"]["ack"][self.acks % len(self.plan["drv"]["ack"])]
            self.acks += 1
            self.sim.at(self.deadline(self.now() + d), self.post_ack, arg)
            return
        if ph == "ack":
            return      # the clears happen when the ack is *processed*: see _mk_ack_handler
        mname = arg
        self.log("mode", mname, ph)
        if ph == "will_start":
            busy_before = self.mode_busy_seq[mname]
            s = self.tick("mode")
            self.mode_state[mname] = "starting"
            self.mode_busy_seq[mname] = s
            self.mode_nonactive_seq[mname] = s
            self.mode_starts[mname] += 1
            q = kwargs.get("queue")
            mc = MODES[mname]
            if q is not None and mc["start"] and "iid" in kwargs:
                inst = self.attribute(mc["start"], kwargs)
                # (no locked-queue check here: whether the mode registers its own wait before or after
                # posting will_start is an implementation detail)
                if busy_before >= inst.seq:
                    # The mode was busy at some time since the event was posted: this may be a start which Mode.start
                    # put off until the previous stop had cleaned up.  It is then carried out by the mode's stop
                    # callback, not inside the dispatcher's handler call, i.e. it is not a handler entry (no
                    # overlap / order judgement); the wait it registers counts from here on.
                    self.tick("enter")
                    self.log("enter_deferred", inst.name, inst.iid, ("mode", mname))
                    self.ctx.probe("mode_start_maybe_deferred")
                    if not any(e[0] == ("mode", mname) for e in inst.entries):
                        inst.entries.append((("mode", mname), None, self.seq))
                    self.progress(inst)
                else:
                    self.enter(inst, ("mode", mname), self.pseudo_prio[("mode", mname)], None)
                inst.queues.append((("mode", mname), q))
                if self.mode_stopped_t.get(mname) is not None and abs(self.mode_stopped_t[mname] - self.now()) <= EPS:
                    # the mode restarts in the very instant in which its previous run stopped
                    self.ctx.probe("mode_restart_in_stop_instant")
                self.ctx.probe("mode_start_on_queue")
                if mc["wq"]:
                    self.wait_begin(inst, ("mode", mname), "mode:%s" % mname)
                    self.mode_hold[mname] = inst
                    self.ctx.probe("mode_wait_queue_held")
        elif ph == "starting":
            inst = Inst("S%d" % self.tick("post"), name, "queue", "system", {}, self.now(), self.seq)
            self.all.append(inst)
            self.sys_inflight[name] = inst
            if name in self.ev.registered_handlers:
                self.ctx.probe("mode_starting_has_handlers")
        elif ph == "started":
            s = self.tick("mode")
            self.mode_state[mname] = "active"
            self.mode_busy_seq[mname] = s
            self.mode_nonactive_seq[mname] = s
            inst = self.sys_inflight.pop("mode_%s_starting" % mname, None)
            if inst is not None:
                self.complete(inst, {})
            ds = self.plan["drv"]["mode_stop"][mname]
            d = ds[self.mode_starts[mname] % len(ds)]
            self.sim.at(self.deadline(self.now() + d), self.stop_mode, mname)
        elif ph == "will_stop":
            s = self.tick("mode")
            self.mode_state[mname] = "stopping"
            self.mode_busy_seq[mname] = s
            self.mode_nonactive_seq[mname] = s
        elif ph == "stopping":
            inst = Inst("S%d" % self.tick("post"), name, "queue", "system", {}, self.now(), self.seq)
            self.all.append(inst)
            self.sys_inflight[name] = inst
            if name in self.ev.registered_handlers:
                self.ctx.probe("mode_stopping_has_handlers")
        elif ph == "stopped":
            inst = self.sys_inflight.pop("mode_%s_stopping" % mname, None)
            if inst is not None:
                self.complete(inst, {})
            self.mode_stopped_t[mname] = self.now()
            s = self.tick("mode")
            self.mode_state[mname] = "idle"
            self.mode_busy_seq[mname] = s
            self.mode_nonactive_seq[mname] = s
            hold, self.mode_hold[mname] = self.mode_hold[mname], None
            if hold is not None:
                self.wait_end(hold, ("mode", mname))
            if mname == "mr":
                for inst in self.all:
                    if ("relay", "mr") in inst.waits:
                        self.ctx.probe("mr_relay_cleared_by_stop")
                        self.wait_end(inst, ("relay", "mr"))

    def stop_mode(self, mname):
        self.check_stuck()
        self.log("stop_mode", mname)
        self.ev.post("c02_stop_%s" % mname)

    def post_ack(self, which):
        self.check_stuck()
        self.log("ack", which)
        self.ev.post(RELAYS[which]["ack"])

    # ------------------------------------------------------------------ root operations
    def do_op(self, op):
        self.check_stuck()
        k = op["op"]
        self.log("op", k, op.get("ev") or op.get("m") or op.get("c") or op.get("hid") or op.get("which"))
        if k == "post":
            self.post_event(op["how"], op["ev"], op["kw"])
        elif k == "postc":
            self.ev.post(op["c"])
        elif k == "clr":
            self.clear_pool(op["c"], "direct")
        elif k == "stop_mode":
            self.ev.post("c02_stop_%s" % op["m"])
        elif k == "start_mode":
            if self.mode_state[op["m"]] == "idle":
                self.m.modes[op["m"]].start()
        elif k == "start_mr":
            self.ev.post("c02_start_mr")
        elif k == "stop_mr":
            self.ev.post("c02_stop_mr")
        elif k == "ack":
            self.post_ack(op["which"])
        elif k == "qep":
            if op["which"] == 1:
                if not self.qep_requested:
                    self.qep_requested = True
                    self.ev.post("c02_qep_go")
            elif not self.qep2_used:
                self.qep2_used = True
                self.ev.post("c02_qep_go2")
        elif k in ("rm_all", "add_all"):
            hids = [h for h in sorted(self.hreg) if self.hreg[h]["spec"]["ev"] == op["ev"]]
            if op["via"] == "direct":
                for h in hids:
                    (self.unregister if k == "rm_all" else self.register)(h)
            else:
                self.ev.post("c02_%s" % k, hids=hids)
        elif k in ("rm", "add"):
            if op["hid"] not in self.hreg:
                return
            if op["via"] == "direct":
                (self.unregister if k == "rm" else self.register)(op["hid"])
            else:
                self.ev.post("c02_%s" % k, hid=op["hid"])

    def run_ops(self):
        self.ops = self.plan["ops"]
        self.idx = 0
        self._schedule_next()
        guard = 0
        while not self.ops_done:
            self.sim.run(0.5)
            guard += 1
            if guard > 400:
                raise AssertionError("harness: op chain did not finish")

    def _schedule_next(self):
        if self.idx >= len(self.ops):
            self.ops_done = True
            return
        w = self.ops[self.idx]["when"]
        now = self.now()
        if w[0] == "deadline":
            self.deadlines = [d for d in self.deadlines if d >= now - EPS]
            dls = sorted(set(self.deadlines))
            if dls:
                d = dls[w[1] % len(dls)]
                t = d if w[2] == 0.0 else max(now, d + w[2])
                if w[2] == 0.0:
                    self.ctx.probe("op_on_deadline")
            else:
                t = now + 0.01
        elif w[0] == "rel":
            t = now + w[1]
        else:
            t = now
        self.sim.at(t, self._run_op)

    def _run_op(self):
        while True:
            op = self.ops[self.idx]
            self.idx += 1
            self.do_op(op)
            if self.idx < len(self.ops) and self.ops[self.idx]["when"][0] == "same":
                continue
            break
        self._schedule_next()

    # ------------------------------------------------------------------ end of run
    def quiescent(self):
        if any(i.has_cb and not i.done for i in self.all):
            return False
        if any(i.waits for i in self.all):
            return False
        return all(s in ("idle", "active") for s in self.mode_state.values())

    def drain(self):
        """Faults stop; every wait has a scheduled clear (longest chain: bounded by nesting depth x delays)."""
        # The run is over when the model has been quiescent - and the loop had nothing left to run at the end of
        # the chunk (a chunk boundary may fall into the middle of a cascade of call_soon callbacks: then some
        # dispatcher is about to continue and "everything completed" would be judged too early) - for 3 s.
        idle, last, settled = 0, self.seq, 0
        for _ in range(4000):
            self.sim.run_quiet(0.5)
            self.check_stuck()
            if self.quiescent() and not self.loop._ready:
                settled += 1
                if settled >= 6:
                    break
                continue
            settled = 0
            if self.seq == last:
                # nothing observable happened: the longest single timer of the workload is 2.5 s, so after
                # 10 s without any model event nothing is going to happen any more
                idle += 1
                if idle >= 20:
                    break
            else:
                idle, last = 0, self.seq
        self.check_stuck()

    def final_checks(self):
        for inst in self.all:
            entered = {e[0] for e in inst.entries}
            if inst.has_cb and not inst.done:
                self.ctx.violation("never_completes", inst.name, "%r posted at %.6f never completed; outstanding "
                                   "waits %r, handlers entered %r, mode states %r"
                                   % (inst, inst.t, sorted(inst.waits.values()), sorted(map(str, entered)),
                                      self.mode_state))
            if not inst.has_cb:
                missing = [h for h in self.required_handlers(inst, self.seq) if h not in entered]
                if inst.waits or missing:
                    self.ctx.violation("never_completes", inst.name, "%r (no callback) did not finish its handlers: "
                                       "waits %r missing %r" % (inst, sorted(inst.waits.values()), missing))
        pending = [t for t in self.ev._queue_tasks if not t.done()]    # (a finished task is removed by its done
        if self.quiescent() and pending:                                 # callback one loop iteration later)
            self.ctx.violation("stuck", "queue task leaked", "%d queue dispatcher tasks still pending at quiescence"
                               % len(pending))
        self.log("end", len(self.all), self.skipped_posts)


class GameWorld(World):
    """Game family: the queue events are MPF's own (posted by the game, the mode controller and the modes of a
    running game).  Every queue event posted by anybody is an instance; its completion is observed through a
    pass-through wrapper around the callback given to EventManager._post.  Holders owned by the workload are the
    usual waiter/coroutine handlers; MPF's own holders (mode controller on ball_ending, game on mode_game_stopping)
    are not visible, therefore

      * the same-instant rule `stuck` is applied to mode_<m>_starting / mode_<m>_stopping only (nobody inside MPF
        waits on those in this machine),
      * for every instance: callback at most once, not while one of our waits is outstanding, our handlers in
        priority order and never overlapping an outstanding wait of ours, and - the statement's "completes once
        every wait has been cleared" - at quiescence (all our waits released, 10 s without any event) every queue
        event that was posted has completed and no dispatcher task is left (`never_completes`, `stuck`).
    """

    LOG_EVENTS = ("ball_started", "ball_ended", "game_started", "game_ended", "ball_will_end")

    def setup(self):
        from mpf.core.events import EventManager
        self.empty_inflight = {}
        self.shared_queues = []
        self.waited_queues = []
        self.sys_by_name = {}
        self.nsys = 0
        self.last_start_done_t = None
        self.last_ball_ending_clear_t = None
        m = self.m
        m.ball_controller.num_balls_known = 3
        self.pf = 0

        def add_ball_stub(*args, **kwargs):
            # MpfFakeGameTestCase: no ball devices, the playfield just counts
            self.pf += 1
        m.playfield.add_ball = add_ball_stub

        orig = EventManager._post
        events = self.ev
        world = self

        def _post(self_, event, ev_type, callback, **kwargs):
            if self_ is events:
                if ev_type == "queue":
                    inst = world.sys_post(event, kwargs, callback is not None)
                    if callback is not None:
                        inner = callback

                        def callback(**kw):            # pass-through: record, then the real callback
                            world.sys_done(inst, kw)
                            return inner(**kw)
                else:
                    world.plain_post(event, kwargs)
            return orig(self_, event, ev_type, callback, **kwargs)
        EventManager._post = _post

        for c in CEV:
            self.ev.add_handler(c, self._mk_c_handler(c), priority=1)
        for spec in self.plan["handlers"]:
            self.hreg[spec["hid"]] = {"spec": spec, "key": None, "fn": self._mk_handler(spec), "intervals": []}
            self.register(spec["hid"])
        self.start_game()
        self.sim.run(0.05)

    # -- observation ---------------------------------------------------------------------------------
    def sys_post(self, name, kwargs, has_cb):
        self.nsys += 1
        inst = Inst("S%d" % self.nsys, name, "queue", "system", {}, self.now(), self.tick("post"), has_cb=has_cb)
        inst.stuck_exempt = not (name.startswith("mode_gm") and (name.endswith("_starting") or
                                                                  name.endswith("_stopping")))
        self.all.append(inst)
        self.sys_by_name.setdefault(name, []).append(inst)
        self.log("post", name, inst.iid)
        return inst

    def sys_done(self, inst, kw):
        if inst.name.endswith("_starting") and inst.name.startswith("mode_gm"):
            self.last_start_done_t = self.now()
        self.complete(inst, {})

    def plain_post(self, name, kwargs):
        if name in self.LOG_EVENTS or (name.startswith("mode_") and name.endswith(("_started", "_stopped"))):
            self.log("ev", name)
            if name == "ball_ended":
                self.ctx.probe("game_ball_ended")
            elif name == "game_ended":
                self.ctx.probe("game_ended")
            elif name.endswith("_stopped") and any(i.name == "ball_ending" and not i.done for i in self.all):
                self.ctx.probe("game_mode_stopped_by_ball_end")

    def attribute(self, evname, kwargs):
        hid = kwargs.get("_c02_hid")
        for inst in self.sys_by_name.get(evname, []):
            if not inst.done:
                return inst
        raise AssertionError("harness: handler of %s called without a pending instance (hid %r)" % (evname, hid))

    def required_handlers(self, inst, seq):
        req = []
        for hid in sorted(self.hreg):
            reg = self.hreg[hid]
            if reg["spec"]["ev"] == inst.name and \
                    any(a <= inst.seq and (b is None or b >= seq) for a, b in reg["intervals"]):
                req.append(("h", hid))
        return req

    def wait_begin(self, inst, wid, desc):
        super().wait_begin(inst, wid, desc)
        self.ctx.probe("game_queue_event_held")
        if inst.name == "ball_ending":
            self.ctx.probe("game_ball_ending_held")
        elif inst.name.endswith("_starting"):
            self.ctx.probe("game_mode_starting_held")
        elif inst.name.endswith("_stopping"):
            self.ctx.probe("game_mode_stopping_held")

    def wait_end(self, inst, wid):
        had = wid in inst.waits
        super().wait_end(inst, wid)
        if had and inst.name == "ball_ending":
            self.last_ball_ending_clear_t = self.now()

    def complete(self, inst, kwargs):
        super().complete(inst, kwargs)
        t = self.now()
        if self.last_start_done_t is not None and self.last_ball_ending_clear_t is not None and \
                abs(self.last_start_done_t - t) <= EPS and abs(self.last_ball_ending_clear_t - t) <= EPS:
            # a held ball_ending carried on in the very instant in which a held mode start completed
            self.ctx.probe("game_holds_released_together")

    # -- driving the game ----------------------------------------------------------------------------
    def start_game(self):
        if self.m.game is None:
            self.log("start_game")
            self.sim.hit_switch("s_start", 1)
            self.sim.hit_switch("s_start", 0)

    def do_op(self, op):
        self.check_stuck()
        k = op["op"]
        game = self.m.game
        self.log("op", k, op.get("m") or op.get("c"))
        if k == "gstart":
            self.ev.post("c02_start_%s" % op["m"])
        elif k == "gstop":
            self.ev.post("c02_stop_%s" % op["m"])
        elif k == "drain":
            if game is not None and game.balls_in_play > 0:
                self.pf = max(0, self.pf - 1)
                self.ev.post_relay("ball_drain", balls=1)
        elif k == "end_ball":
            if game is not None and game.balls_in_play > 0:
                game.end_ball()
        elif k == "end_game":
            if game is not None:
                game.end_game()
        elif k == "start_game":
            self.start_game()
        elif k == "postc":
            self.ev.post(op["c"])
        elif k == "clr":
            self.clear_pool(op["c"], "direct")

    def quiescent(self):
        if any(i.has_cb and not i.done for i in self.all):
            return False
        return not any(i.waits for i in self.all)
