"""Helper for C10 (engine feature kept next to the check, see tools/AGENT_BRIEF.md).

install_time_grid(loop): put every timer deadline of a SimLoop on a 1 ns grid (rounded up).

Why: simulated time is frozen inside one loop iteration and the loop (like asyncio) runs timers that are due
within its clock resolution (1 ns).  Two deadlines that differ by a float rounding error (3.6009999999999942 vs
3.6009999999999946) are then run at the earlier clock reading, i.e. one of them a few 1e-16 s *before* its
deadline.  MPF code that re-checks the clock ("is it really time yet?  no -> call_at(deadline) again":
SwitchController._process_active_timed_switches, Tilt._tilt_done) terminates on a real clock because real time
moves on, but spins for ever at a frozen instant.  On the grid a callback never runs before its deadline and a
positive delay never expires at the clock reading at which it was requested.  Deadlines move by < 1 ns.
"""
import math

GRID = 1e-9


def grid_up(when):
    g = math.ceil(when / GRID) * GRID
    while g < when:          # float rounding of the division / multiplication
        g += GRID
    return g


def install_time_grid(loop):
    call_at = loop.call_at
    call_later = loop.call_later

    def grid_call_at(when, callback, *args, context=None):
        return call_at(grid_up(when), callback, *args, context=context)

    def grid_call_later(delay, callback, *args, context=None):
        if 0 < delay < GRID:
            delay = GRID
        return grid_call_at(loop.time() + delay, callback, *args, context=context)

    loop.call_at = grid_call_at
    loop.call_later = grid_call_later
    return loop
