"""C02 - Queue, relay and boolean events complete exactly once and in order.

SUT: real EventManager (queue dispatcher tasks, async-handler adapter, relay/boolean dispatch), real Mode
start/stop (use_wait_queue, mode devices registering on mode_<n>_starting), real queue_relay_player and
queue_event_player, on a booted machine (/verif/machines/c02).
Oracle: a history check written from the property statement (see checks/_c02_helpers.py: class History).
"""
from sim.harness import draw_knobs

from checks import _c02_helpers as H

ID = "C02"
LEVEL = "exploration"
RUNS = {"quick": 2200, "thorough": 120000}
WALL_CAP = {"quick": 120, "thorough": 3000}
RULE = ("one case = a generated handler program (0-5 handlers per queue event q0..q3 of kinds sync / waiter "
        "(cleared by timer, immediately, by another event's handler, by a nested event's callback) / coroutine; "
        "handlers on relay, boolean and mode_<n>_starting events; nested posts from inside handlers) plus a "
        "history of 3-14 root operations (posts of all five kinds, extra clears, mode starts/stops, handler "
        "removal/re-add, queue_event_player triggers) placed at relative times or exactly on pending clear "
        "deadlines, executed on the real EventManager/Mode/config players under a seeded scheduler (stalls, "
        "same-instant tie permutations, clear-order permutations); non-trivial = at least one reach probe; "
        "distinct = distinct sequence of observed event kinds")
PROBES = ["immediate_clear", "timed_clear", "clear_by_event", "clear_by_nested_callback", "direct_clear_from_handler",
          "coro_handler", "nested_post_in_handler", "nested_queue_in_waiting_handler", "concurrent_queue_events",
          "same_event_concurrent", "clears_same_instant", "op_on_deadline", "no_handler_queue_event",
          "mode_start_on_queue", "mode_wait_queue_held", "mode_start_noop_active", "mode_starting_has_handlers",
          "mode_starting_waiter", "relay_player_wait", "mr_relay_wait", "mr_relay_cleared_by_stop", "qep_post",
          "relay_chain3", "relay_empty_kwargs", "bool_false_midway", "bool_no_false",
          "game_queue_event_held", "game_ball_ending_held", "game_mode_starting_held", "game_mode_stopping_held",
          "game_holds_released_together", "game_ball_ended", "game_ended", "game_mode_stopped_by_ball_end",
          "mode_stopping_has_handlers", "mode_stopping_waiter", "mode_restart_in_stop_instant",
          "mode_start_maybe_deferred", "queue_handler_returns_false", "queue_handler_returns_value", "relay_handler_returns_false",
          "relative_priority_handler", "coro_ends_cancelled", "coro_task_cancelled",
          "coro_awaited_future_cancelled", "rewait_same_queue", "forwarded_queue_nested", "shared_queue_second_wait", "relay_reg_collides_posted",
          "relay_ret_collides_reg", "handler_removed_in_flight", "all_handlers_removed_after_post", "late_after_stall"]
REAL = ["mpf.core.events.EventManager (post_queue/_async, post_relay/_async, post_boolean, add_async_handler, "
        "QueuedEvent)", "mpf.core.mode.Mode start/stop incl. use_wait_queue", "mpf.core.mode_controller",
        "mpf.devices.logic_blocks.Counter (mode device registering on mode_<n>_starting)",
        "mpf.config_players.queue_relay_player", "mpf.config_players.queue_event_player", "MachineController boot",
        "game family: mpf.modes.game.code.game.Game (ball/game lifecycle), ModeController ball_ending/ball_starting"]
STUBS = ["event loop (SimLoop: virtual time, stalls, tie order)", "clock (SimClock)", "virtual hardware platform",
         "in-memory data manager", "game family: playfield.add_ball replaced by a counter (no ball devices), "
         "ball_controller.num_balls_known set by the harness, completion callbacks of MPF's own queue events "
         "observed through a pass-through wrapper around EventManager._post"]
ASSUMPTIONS = ["call_soon FIFO order is kept (asyncio guarantees it)",
               "bounded liveness: a dispatcher that may proceed (no wait outstanding) does so within the simulated "
               "instant that enabled it (post, handler return, clear); at the end of a run every wait has been "
               "cleared by the workload and 10 simulated seconds without any model event have passed",
               "time does not advance inside one loop iteration; lateness only through injected stalls",
               "handlers of equal priority may run in either order (statement only fixes priority order)",
               "a handler removed while an event is in flight may or may not run for that event",
               "bus family: no game is running (modes under test are game_mode: false); game family: device-less "
               "game, MPF-internal holders of its queue events (mode controller, game) are not visible, so the "
               "same-instant liveness rule is only applied to mode_<m>_starting/_stopping there and the end-of-run "
               "rule (everything posted has completed at quiescence) to all"]
STATE_ABSTRACTION = "(in-flight instances, outstanding waits, states of the 4 modes, kind of last model event)"
TECHNIQUE = "deterministic simulation, randomized handler programs + histories, history-checking oracle"

QEV = H.QEV
REV = H.REV
BEV = H.BEV
CEV = H.CEV
DELAYS = [0.0, 0.0, 0.001, 0.01, 0.01, 0.05, 0.1, 0.1, 0.25, 0.5, 2.5]     # 2.5: rare long wait
PRIOS = [10, 50, 100, 120, 150, 200, 300]
LEVELS = {e: i for i, e in enumerate(QEV + REV + BEV)}


def _prio(ch, h, feat, decorate=True):
    """Nominal priority (small offsets so that priorities lie close together) and, for a share of the handlers,
    a relative priority as carried by @event_handler(n) callables (effective priority = nominal + relative)."""
    h["prio"] = ch.pick("prio", PRIOS) + ch.pick("prio_off", [0, 0, 0, 1, 3, 5, 6])
    if decorate and feat["relprio"] and ch.flag("rel", 0.4):
        h["rel"] = 1 + ch.choice("relv", 10)
    return h


def _higher(ev, feat):
    """Events a handler of `ev` may post (strictly higher level => bounded nesting)."""
    out = []
    lv = LEVELS.get(ev, -1)
    for e in QEV + REV + BEV:
        if LEVELS[e] <= lv:
            continue
        if e in QEV[1:] and not feat["modes"]:
            continue
        if e in REV and not feat["relay"]:
            continue
        if e in BEV and not feat["bool"]:
            continue
        out.append(e)
    return out


def _how_for(ch, ev):
    if ev in QEV:
        return ch.pick("how_q", ["queue", "queue_async"])
    if ev in REV:
        return ch.pick("how_r", ["relay_async", "relay"])
    return "boolean"


def _kw(ch, allow_empty=False):
    if allow_empty and ch.flag("kw_empty", 0.2):
        return {}
    kw = {"a": ch.choice("kw_a", 4)}
    if ch.flag("kw_p", 0.4):
        kw["p"] = ch.choice("kw_pv", 3)
    return kw


def _gen_acts(ch, ev, feat, only_clear=False, fwd=False):
    acts = []
    if ch.flag("act", 0.35):
        opts = [("postc", 2), ("clr", 2)]
        hi = [] if only_clear else _higher(ev, feat)
        if hi and feat["nested"]:
            opts.insert(0, ("post", 5))
            if fwd and feat["fwd"] and any(e in QEV for e in hi):
                # the handler re-posts what it got, *including its unlocked queue*, on a nested queue event
                opts.insert(1, ("postfwd", 6))
        k = ch.weighted("act_kind", opts)
        if k == "post":
            e = ch.pick("act_ev", hi)
            acts.append(["post", _how_for(ch, e), e, _kw(ch)])
        elif k == "postfwd":
            acts.append(["postfwd", ch.pick("fwd_ev", [e for e in hi if e in QEV]), _kw(ch)])
        elif k == "postc":
            acts.append(["postc", ch.pick("act_c", CEV)])
        else:
            acts.append(["clr", ch.pick("act_c", CEV)])
    return acts


def _gen_queue_handler(ch, hid, ev, feat, only_clear=False):
    h = _prio(ch, {"hid": hid, "ev": ev, "acts": []}, feat)
    kinds = [("wait", 5), ("sync", 3)]
    if feat["coro"]:
        kinds.append(("coro", 2))
    h["kind"] = ch.weighted("hkind", kinds)
    if h["kind"] == "wait":
        opts = [("timed", 5), ("now", 2), ("event", 3)]
        hi = [] if only_clear else [e for e in _higher(ev, feat)]
        if hi and feat["nested"]:
            opts.append(("nested", 3))
        c = ch.weighted("clear", opts)
        if c == "timed":
            h["clear"] = ["timed", ch.pick("d", DELAYS)]
        elif c == "now":
            h["clear"] = ["now"]
        elif c == "event":
            # delay -1: the clearing event is posted from inside the handler itself
            h["clear"] = ["event", ch.pick("cev", CEV), ch.pick("d_ev", [-1] + DELAYS)]
        else:
            e = ch.pick("nest_ev", hi)
            h["clear"] = ["nested", _how_for(ch, e), e, _kw(ch)]
        if feat["rewait"] and ch.flag("rewait", 0.35):
            # (1a) wait(); clear(); and then the wait proper: one QueuedEvent is waited on twice
            h["rewait"] = True
    elif h["kind"] == "coro":
        segs = []
        for _ in range(1 + ch.choice("nseg", 2)):
            seg = {"d": ch.pick("d", DELAYS), "acts": _gen_acts(ch, ev, feat, only_clear)}
            hi = [] if only_clear else [e for e in _higher(ev, feat) if e in QEV]
            if hi and feat["nested"] and ch.flag("seg_await", 0.25):
                seg["await_q"] = [ch.pick("nest_ev", hi), _kw(ch)]
            segs.append(seg)
        h["segs"] = segs
        h.pop("rel", None)     # add_async_handler registers a functools.partial: no relative priority
        if feat["cancel"] and ch.flag("coro_cancel", 0.45):
            # the coroutine ends cancelled: it awaits a future its owner cancels / its task is cancelled
            h["cancel"] = [ch.pick("cancel_how", ["fut", "task"]), ch.pick("d", DELAYS)]
    unlocked_after = h["kind"] == "sync" or (h["kind"] == "wait" and h["clear"] == ["now"])
    h["acts"] = _gen_acts(ch, ev, feat, only_clear, fwd=unlocked_after)
    # What a handler of a *queue* event returns has no effect on which handlers run (only boolean events stop at
    # False, only relay events take a dict): sync handlers, waiters and coroutines return all sorts of values.
    r = ch.weighted("qret", [("none", 4), ("false", 3), ("true", 1), ("zero", 1), ("empty", 1), ("dict", 1)])
    if r != "none":
        h["ret"] = {"false": False, "true": True, "zero": 0, "empty": {}, "dict": {"a": 99, "z": 1}}[r]
    return h


GEV = H.GEV
GPRIOS = [-100, -10, 10, 50, 100, 300]     # the mode controller's ball_ending/ball_starting handlers have priority 0


def _when(ch, op):
    w = ch.weighted("when", [("rel", 5), ("same", 2), ("deadline", 3)])
    if w == "rel":
        op["when"] = ["rel", ch.pick("dt", [0.0, 0.0, 0.001, 0.01, 0.05, 0.1, 0.1, 0.3, 0.6])]
    elif w == "same":
        op["when"] = ["same"]
    else:
        op["when"] = ["deadline", ch.choice("dl_idx", 4), ch.pick("dl_delta", [0.0, 0.0, -0.001, 0.001])]
    return op


def plan_game(ch, knobs):
    """Game family: MPF's own queue events (ball_starting/ball_ending/game_ending/mode_<m>_starting/_stopping/
    mode_game_stopping) of a running game with game modes, held by workload handlers and released at tape-chosen
    instants (often several in the same instant), while balls end, modes start/stop and the game ends."""
    feat = {"modes": False, "msh": False, "nested": False, "relay": False, "bool": False, "rm": False, "qep": False,
            "mr": False, "fwd": False, "coro": ch.flag("f.coro", 0.5), "rewait": ch.flag("f.rewait", 0.4),
            "relprio": ch.flag("f.relprio", 0.4), "cancel": ch.flag("f.cancel", 0.5)}
    handlers = []
    hid = 0
    for ev in GEV:
        heavy = ev in ("ball_ending",) or ev.endswith("_starting")
        n = ch.weighted("nh_g", [(1, 4), (0, 2), (2, 2)] if heavy else [(0, 4), (1, 3), (2, 1)])
        for _ in range(n):
            hid += 1
            h = _gen_queue_handler(ch, hid, ev, feat, only_clear=True)
            h["prio"] = ch.pick("gprio", GPRIOS) + ch.pick("prio_off", [0, 0, 0, 1, 3, 5, 6])
            if h["kind"] == "wait" and h["clear"][0] == "event" and h["clear"][2] >= 0:
                # holds which are released together with others: longer delays so that several holds pile up
                h["clear"][2] = ch.pick("g_d_ev", [0.1, 0.25, 0.5, 0.5, 1.0])
            handlers.append(h)
    if ch.flag("g_together", 0.5):
        # holds on the mode starts and a hold in front of the mode controller's ball_ending handler which are all
        # released by the same event (think of players waiting for the same "animation finished"): the dispatchers
        # of mode_<m>_starting and of ball_ending resume in the same instant, in the order of the releases
        pool = ch.pick("g_pool", CEV)
        d = ch.pick("g_d_tog", [0.25, 0.5, 0.5, 1.0])
        for ev in ["mode_%s_starting" % m for m in H.GMODES] + ["ball_ending"]:
            if ev != "ball_ending" and not ch.flag("g_tog_m", 0.7):
                continue
            hid += 1
            handlers.append({"hid": hid, "ev": ev, "acts": [], "kind": "wait", "clear": ["event", pool, d],
                             "prio": ch.pick("g_tog_prio", [100, 50, 300]) + ch.pick("prio_off", [0, 0, 0, 1, 3, 5, 6])})
    ops = []
    for _ in range(5 + ch.choice("nops", 12)):
        k = ch.weighted("gop", [("gstart", 6), ("drain", 4), ("end_ball", 2), ("gstop", 2), ("postc", 3), ("clr", 1),
                                ("end_game", 0.7), ("start_game", 1)])
        op = {"op": k}
        if k in ("gstart", "gstop"):
            op["m"] = ch.pick("op_gm", ["gm1", "gm2", "gm3"])
        elif k in ("postc", "clr"):
            op["c"] = ch.pick("op_c", CEV)
        ops.append(_when(ch, op))
    return {"fam": "game", "knobs": knobs, "feat": feat, "handlers": handlers, "ops": ops,
            "drv": {"bpg": ch.pick("bpg", [3, 1, 2])}}


def plan(ch, tier):
    knobs = draw_knobs(ch)
    knobs["perm_clears"] = ch.flag("knob.perm_clears", 0.5)
    if ch.weighted("fam", [("bus", 7), ("game", 3)]) == "game":
        return plan_game(ch, knobs)
    feat = {"modes": ch.flag("f.modes", 0.7), "msh": ch.flag("f.msh", 0.5), "nested": ch.flag("f.nested", 0.6),
            "coro": ch.flag("f.coro", 0.6), "relay": ch.flag("f.relay", 0.5), "bool": ch.flag("f.bool", 0.5),
            "rm": ch.flag("f.rm", 0.3), "qep": ch.flag("f.qep", 0.25), "mr": ch.flag("f.mr", 0.4),
            "fwd": ch.flag("f.fwd", 0.6), "rewait": ch.flag("f.rewait", 0.6),
            "relprio": ch.flag("f.relprio", 0.6), "cancel": ch.flag("f.cancel", 0.6)}
    handlers = []
    hid = [0]

    def nh():
        hid[0] += 1
        return hid[0]
    qevs = QEV if feat["modes"] else QEV[:1]
    for ev in qevs:
        n = ch.weighted("nh_q", [(2, 3), (1, 2), (3, 3), (0, 1), (4, 1), (5, 1)])
        for _ in range(n):
            handlers.append(_gen_queue_handler(ch, nh(), ev, feat))
    if feat["modes"] and feat["msh"]:
        for ev in H.MSTART:
            n = ch.weighted("nh_ms", [(0, 2), (1, 3), (2, 1)])
            for _ in range(n):
                handlers.append(_gen_queue_handler(ch, nh(), ev, feat, only_clear=True))
        for ev in H.MSTOP:
            n = ch.weighted("nh_mstop", [(0, 3), (1, 3), (2, 1)])
            for _ in range(n):
                handlers.append(_gen_queue_handler(ch, nh(), ev, feat, only_clear=True))
    together = []
    if feat["modes"] and ch.flag("b_together", 0.35):
        # A hold on mode_<m>_stopping and a hold in front of Mode.start on the mode's (queue) start event which are
        # released by the same event: the stop of the previous run completes and the dispatcher of the next start
        # event reaches Mode.start in the same instant (restart while the stop is still cleaning up).
        pool = ch.pick("b_pool", CEV)
        d = ch.pick("b_d_tog", [0.1, 0.25, 0.5, 0.5])
        for m, ev in (("mq", "q1"), ("mqc", "q2")):
            if not ch.flag("b_tog_m", 0.7):
                continue
            together.append(ev)
            handlers.append({"hid": nh(), "ev": "mode_%s_stopping" % m, "acts": [], "kind": "wait",
                             "clear": ["event", pool, d], "prio": ch.pick("prio", PRIOS)})
            handlers.append({"hid": nh(), "ev": ev, "acts": [], "kind": "wait", "clear": ["event", pool, d],
                             "prio": 300 + ch.pick("prio_off", [0, 0, 0, 1, 3, 5, 6])})
    if feat["relay"]:
        for ev in REV:
            for _ in range(1 + ch.choice("nh_r", 5)):
                r = ch.weighted("rret", [("delta", 5), ("none", 2), ("true", 1), ("zero", 1), ("false", 1.5),
                                         ("empty", 1)])
                h = _prio(ch, {"hid": nh(), "ev": ev, "kind": "relay", "acts": _gen_acts(ch, ev, feat)}, feat)
                if r == "delta":
                    h["ret"] = {ch.pick("rk", ["a", "b", "x"]): ch.choice("rv", 5) + 10
                                for _ in range(1 + ch.choice("rn", 2))}
                else:
                    # False / {} on a relay event: no update and no stop (only boolean events stop at False)
                    h["ret"] = {"none": None, "true": True, "zero": 0, "false": False, "empty": {}}[r]
                if ch.flag("rreg", 0.45):
                    # registered kwargs; names collide with posted arguments ('a', 'p') in a good share of cases
                    h["reg"] = {ch.pick("rregk", ["a", "p", "reg", "a", "b"]): ch.choice("rregv", 3) + 20}
                    if isinstance(h["ret"], dict) and ch.flag("rreg_collide", 0.7):
                        # ... and the handler returns a new value for its own registered key (the update is for
                        # all later handlers and the result; the registered value only overrides what it sees)
                        for k in h["reg"]:
                            h["ret"][k] = ch.choice("rv", 5) + 30
                handlers.append(h)
    if feat["bool"]:
        for ev in BEV:
            for _ in range(1 + ch.choice("nh_b", 5)):
                r = ch.weighted("bret", [("none", 3), ("false", 2), ("true", 2), ("zero", 1), ("dict", 1)])
                handlers.append(_prio(ch, {"hid": nh(), "ev": ev, "kind": "bool",
                                           "ret": {"none": None, "false": False, "true": True, "zero": 0,
                                                   "dict": {"z": 1}}[r],
                                           "acts": _gen_acts(ch, ev, feat)}, feat))
    # root operations -------------------------------------------------------------------
    postable = list(qevs)
    if feat["relay"]:
        postable += REV
    if feat["bool"]:
        postable += BEV
    ops = []
    n = 3 + ch.choice("nops", 12)
    my_q_hids = [h["hid"] for h in handlers if h["ev"] in QEV]
    for _ in range(n):
        kinds = [("post", 10), ("postc", 2), ("clr", 1)]
        if feat["modes"]:
            kinds += [("stop_mode", 1.5), ("start_mode", 1)]
        if feat["mr"]:
            kinds += [("start_mr", 1.5), ("stop_mr", 1), ("ack", 1)]
        if feat["qep"]:
            kinds += [("qep", 2)]
        if feat["rm"] and my_q_hids:
            kinds += [("rm", 2), ("add", 1.5)]
        k = ch.weighted("op", kinds)
        op = {"op": k}
        if k == "post":
            ev = ch.pick("op_ev", postable)
            if ev in QEV and ch.flag("op_q0", 0.3):
                ev = "q0"
            op.update(ev=ev, how=_how_for(ch, ev), kw=_kw(ch, allow_empty=ev in REV))
        elif k in ("postc", "clr"):
            op["c"] = ch.pick("op_c", CEV)
        elif k in ("stop_mode", "start_mode"):
            op["m"] = ch.pick("op_m", ["mq", "mqc", "mp"])
        elif k == "ack":
            op["which"] = ch.pick("op_ack", ["relay", "mr"])
        elif k == "qep":
            op["which"] = ch.pick("op_qep", [1, 2])
        elif k in ("rm", "add"):
            op["hid"] = ch.pick("op_hid", my_q_hids)
            op["via"] = ch.pick("op_via", ["event", "direct"])
        w = ch.weighted("when", [("rel", 5), ("same", 2), ("deadline", 3)])
        if w == "rel":
            op["when"] = ["rel", ch.pick("dt", [0.0, 0.0, 0.001, 0.01, 0.05, 0.1, 0.1, 0.3, 0.6])]
        elif w == "same":
            op["when"] = ["same"]
        else:
            op["when"] = ["deadline", ch.choice("dl_idx", 4), ch.pick("dl_delta", [0.0, 0.0, -0.001, 0.001])]
        ops.append(op)
        if feat["rm"] and k == "post" and op["ev"] in QEV and ch.flag("rm_after_post", 0.3):
            # the handlers of the event vanish in the same batch of events, right after the post
            # (what a stopping mode does to its own handlers)
            ops.append({"op": "rm_all", "ev": op["ev"], "via": ch.pick("op_via", ["event", "direct"]),
                        "when": ch.pick("rm_when", [["same"], ["same"], ["rel", 0.0]])})
            if ch.flag("re_add", 0.6):
                ops.append({"op": "add_all", "ev": op["ev"], "via": "direct",
                            "when": ["rel", ch.pick("dt", [0.0, 0.0, 0.001, 0.01, 0.05, 0.1, 0.1, 0.3, 0.6])]})
    for ev in together:
        # the start event is posted at least twice, the second time often right at/after the scheduled stop
        for _ in range(2 + ch.choice("b_nposts", 2)):
            op = {"op": "post", "ev": ev, "how": _how_for(ch, ev), "kw": _kw(ch)}
            w = ch.weighted("b_when", [("deadline", 5), ("rel", 3)])
            op["when"] = ["deadline", ch.choice("dl_idx", 4), ch.pick("b_dl_delta", [0.001, 0.0, 0.01, 0.05])] \
                if w == "deadline" else ["rel", ch.pick("dt", [0.0, 0.0, 0.001, 0.01, 0.05, 0.1, 0.1, 0.3, 0.6])]
            ops.insert(ch.choice("b_pos", len(ops) + 1), op)
    drv = {"mode_stop": {m: [ch.pick("ms_d", DELAYS + [1.0]) for _ in range(3)] for m in ("mq", "mqc", "mp", "mr")},
           "ack": [ch.pick("ack_d", DELAYS) for _ in range(4)],
           "mr_boot": feat["mr"] and ch.flag("mr_boot", 0.5)}
    return {"knobs": knobs, "feat": feat, "handlers": handlers, "ops": ops, "drv": drv}


def shrink(plan):
    """Extra minimisation candidates: drop/simplify handlers, drop features of the driver."""
    hs = plan["handlers"]
    for i in range(len(hs)):
        p = dict(plan)
        p["handlers"] = hs[:i] + hs[i + 1:]
        yield p
    for i, h in enumerate(hs):
        simpler = []
        if h.get("acts"):
            simpler.append(dict(h, acts=[]))
        if h.get("rel"):
            simpler.append({k: v for k, v in h.items() if k != "rel"})
        if h["kind"] in ("sync", "wait", "coro") and "ret" in h:
            simpler.append({k: v for k, v in h.items() if k != "ret"})
        if h.get("cancel"):
            simpler.append({k: v for k, v in h.items() if k != "cancel"})
        if h["kind"] == "coro":
            simpler.append({k: v for k, v in h.items() if k not in ("segs", "cancel")} | {"kind": "sync"})
            if len(h["segs"]) > 1:
                simpler.append(dict(h, segs=h["segs"][:1]))
        if h["kind"] == "wait":
            if h.get("rewait"):
                simpler.append({k: v for k, v in h.items() if k != "rewait"})
            if h["clear"] != ["now"]:
                simpler.append(dict(h, clear=["now"]))
            if h["clear"][0] == "timed" and h["clear"][1] != 0.0:
                simpler.append(dict(h, clear=["timed", 0.0]))
        for s in simpler:
            p = dict(plan)
            p["handlers"] = hs[:i] + [s] + hs[i + 1:]
            yield p
    ops = plan["ops"]
    for i, op in enumerate(ops):
        if op.get("when") not in (["rel", 0.0], ["rel", 0.1]):
            p = dict(plan)
            p["ops"] = ops[:i] + [dict(op, when=["rel", 0.1])] + ops[i + 1:]
            yield p


def warm():
    from sim.machine import preload
    preload("c02")
    preload("c02g")


def on_crash(ctx, crash):
    """MPF must not die on a legal workload: an exception reaching the loop is a violation."""
    exc = crash.exc
    txt = ("%s: %s" % (type(exc).__name__, exc)) if exc is not None else str(crash)
    cause = getattr(exc, "__cause__", None)
    if cause is not None:
        txt = "%s: %s <- %s" % (type(cause).__name__, cause, type(exc).__name__)
    return ("crash", H.crash_sig(txt), "exception reached the event loop (MPF would stop): %s" % txt[:400])


def execute(ctx, plan):
    if plan.get("fam") == "game":
        sim = ctx.new_sim("c02g", patches={"game": {"balls_per_game": plan["drv"]["bpg"]}})
        sim.boot()
        w = H.GameWorld(ctx, sim, plan)
    else:
        sim = ctx.new_sim("c02")
        sim.boot()
        w = H.World(ctx, sim, plan)
    w.setup()
    w.run_ops()
    w.drain()
    w.final_checks()
