"""C08 - Coils are never driven beyond their configured safety limits.

SUT: Driver (pulse/enable/timed_enable/disable + control events), DualWoundCoil, DigitalOutput, coil_player
(config, mode and show based), pulse/enable/hold coil ejectors inside ball devices, Flipper (rules, sw_flip,
software EOS repulse), AutofireCoil, PlatformController hardware rules, DriverLight.

Observation points
* the platform-driver seam (SimPlatform): every pulse/enable/timed_enable/disable command and every hardware
  rule with its settings;
* the public request API (Driver.pulse/enable/timed_enable/disable and PlatformController.set_*_rule), wrapped
  read-only at class level inside the forked child: who asked for what, and did it return or raise.

Oracle (written from the property statement, see RULES below).
"""
import inspect

from sim.harness import draw_knobs, Discard      # noqa: F401

ID = "C08"
LEVEL = "exploration"
RUNS = {"quick": 2500, "thorough": 60000}
WALL_CAP = {"quick": 120, "thorough": 3000}
RULE = ("one case = one drawn coil-limit configuration for 12 coils (max_pulse_ms, default/max powers, "
        "allow_enable, max_hold_duration, pulse_with_timed_enable, machine default_pulse_ms, flipper/autofire "
        "overwrites, coil_player/show entries, ejector pulse lists) plus one history of 6-30 requests (direct "
        "calls, control events, coil_player events, shows, mode stop, dual-wound coil, digital output, driver "
        "light, flipper rules/sw_flip/EOS repulse, ball ejects) with parameters from {default, in range, "
        "boundary, just above a limit, 0, negative, fractional, wrong type}, placed relative to each other or "
        "exactly on / 1 ms around a pending software switch-off deadline, run under a seeded scheduler (stalls, "
        "same-instant tie permutations); non-trivial = reached a reach probe; distinct = distinct sequence of "
        "observed request/command kinds")
PROBES = ["refused_illegal", "refusal_crash", "sw_pulse", "sw_pulse_off", "sw_pulse_superseded", "mhd_enable",
          "mhd_off", "psu_deferred", "op_on_deadline", "off_late_after_stall", "hold_enable", "hw_pulse",
          "timed_enable", "rule_set", "rule_refused", "eos_repulse", "ejector_pulse", "ejector_enable",
          "ejector_hold", "coil_player_request", "show_request", "mode_stop_holding", "dual_wound", "driver_light",
          "digital_output", "over_refusal", "boot_refused", "pulse_with_timed_enable", "event_request", "template_default_changed"]
REAL = ["mpf.devices.driver.Driver", "mpf.devices.dual_wound_coil.DualWoundCoil", "mpf.devices.digital_output.DigitalOutput",
        "mpf.config_players.coil_player.CoilPlayer (machine, mode, show)", "mpf.devices.flipper.Flipper",
        "mpf.devices.autofire.AutofireCoil", "mpf.core.platform_controller.PlatformController + SoftwareEosRepulseManager",
        "mpf.devices.ball_device (pulse/enable/hold coil ejectors)", "mpf.platforms.driver_light_platform.DriverLight",
        "mpf.devices.power_supply_unit.PowerSupplyUnit", "mpf.core.delays.DelayManager", "EventManager, ModeController, "
        "ShowController, MachineController boot"]
STUBS = ["event loop (SimLoop)", "clock (SimClock)", "SimPlatform (recording virtual platform, 255 ms hardware pulse limit)",
         "in-memory data manager", "ball movement (switch changes scripted by the check, no physics)"]
ASSUMPTIONS = ["call_soon FIFO order is kept", "time does not advance inside one loop iteration; lateness only through "
               "injected stalls", "max_hold_duration is not configured on coils driven by hardware rules (MPF cannot "
               "time a hold the hardware executes)", "requested pulse lengths never exceed max_hold_duration (whether a "
               "software-timed pulse longer than max_hold_duration counts as a hold is left open by the statement)"]
STATE_ABSTRACTION = "(coil physically on?, open switch-off obligations, deferred requests, last request kind/outcome)"
LEVEL_TEXT = "deterministic simulation of the real device layer on a recording platform; seam monitor + request oracle"
TECHNIQUE = "DST: config swarm + request histories + scheduler faults, monitor at the platform-driver seam"

RULES = """
limit          every command/rule at the seam: 0 <= pulse_ms <= max_pulse_ms (when set); 0 <= pulse_power <=
               max_pulse_power; 0 <= hold_power <= max_hold_power (when set, else 1); timed_enable hold time
               0 <= ms <= max_hold_duration (when set).
hold_not_allowed  an `enable` command (or a hold rule) on a coil whose configuration does not allow holding
               (no allow_enable, no max/default hold power) that is not the switch-on of a software-timed pulse.
not_refused    a request above a limit or with a negative duration/power returned normally.
emitted_before_refusal  such a request raised, but a command/rule for that coil went out first.
not_switched_off  software-timed pulse: no `disable` reached the driver within (on, on+pulse_ms]; max_hold_duration:
               no `disable` within (on, on+max_hold_duration]; lateness only by an injected stall.
left_on        at the end of a run a coil that may not hold is physically on.
Relaxations: (R1) a later accepted pulse request on the same coil supersedes the switch-off obligation of an earlier
software-timed pulse (the newer command legitimately switches the coil on for its own time, exactly as a hardware
pulse would restart).  (R2) refusing a legal request is never a violation (safety property); the refusal classes
MPF is known to apply are listed in `safe_refusal`; any other refusal of a legal request is reported as a harness
error for triage.  (R3) wrong-typed / fractional parameters: either refusal or execution within limits (a bool that
reaches the seam counts as the number it stands for).  (R4) the switch-on of a software-timed pulse is an `enable`
whose hold field carries the *pulse* power for the pulse time: it is judged against max_pulse_power, not against
max_hold_power.  (R5) in the instant a template default_pulse_ms is re-evaluated a parameterless request may be judged
with the old or the new default ("instant" = within the loop's clock resolution of 1 ns: timers that close run in
one batch before the queued re-evaluation).  A parameterless pulse stands for the default in force when it was requested (also
when the PSU defers it and the default changes meanwhile).
Refusal inside an event handler / task kills MPF (MpfCrashed): for a request that may be refused this is the
expected refusal-by-exception and ends the run; any other crash is a harness error.
"""


class HarnessBug(BaseException):
    """Internal inconsistency of the check itself (never swallowed by MPF's or the check's `except Exception`)."""


HW_MAX_PULSE = 255          # DriverPlatform.features['max_pulse'] of the (virtual) platform
GENERIC = ["c_a", "c_b"]
ALL_COILS = ["c_a", "c_b", "c_fmain", "c_fhold", "c_fsingle", "c_dmain", "c_dhold", "c_trough", "c_plunger",
             "c_lock", "c_light", "c_sling"]
RULE_DRIVEN = ("c_fmain", "c_fhold", "c_fsingle", "c_sling")
EVENT_PREFIX = {"c_a": "ca", "c_b": "cb"}


# ----------------------------------------------------------------------------------------------
# envelope helpers (pure functions of the drawn configuration)

def is_num(x):
    return isinstance(x, (int, float)) and not isinstance(x, bool)


def seam_num(x):
    """At the seam a bool is the number it stands for (R3: a wrong-typed request may be executed within limits)."""
    return isinstance(x, (int, float))


def holds_allowed(env):
    return bool(env.get("allow_enable")) or bool(env.get("max_hold_power")) or bool(env.get("default_hold_power"))


def eff_pulse_ms(env, mpf_default):
    return env["default_pulse_ms"] if env.get("default_pulse_ms") is not None else mpf_default


def eff_pulse_ms_options(env, mpf_default):
    """The default in force; two candidates in the instant a template default is being re-evaluated."""
    return [eff_pulse_ms(env, mpf_default)] + list(env.get("default_pulse_ms_old", ()))


def eff_pulse_power(env):
    return env["default_pulse_power"] if env.get("default_pulse_power") is not None else 1.0


def eff_hold_power(env):
    if env.get("default_hold_power"):
        return env["default_hold_power"]
    if env.get("max_hold_power"):
        return env["max_hold_power"]
    return 1.0 if env.get("allow_enable") else 0.0


def eff_timed_ms(env):
    return env["default_timed_enable_ms"] if env.get("default_timed_enable_ms") is not None else 0


def max_pulse_power(env):
    return env["max_pulse_power"] if env.get("max_pulse_power") is not None else 1.0


def judge_pulse_part(env, mpf_default, pulse_ms, pulse_power):
    """-> (illegal reasons, open reasons)"""
    ill, opn = [], []
    ms = pulse_ms if pulse_ms is not None else eff_pulse_ms(env, mpf_default)
    if not is_num(ms):
        opn.append("ms_type")
    else:
        if ms < 0:
            ill.append("pulse_ms<0")
        elif env.get("max_pulse_ms") is not None and ms > env["max_pulse_ms"]:
            ill.append("pulse_ms>max")
        if not isinstance(ms, int):
            opn.append("ms_fraction")
    pw = pulse_power if pulse_power is not None else eff_pulse_power(env)
    if not is_num(pw):
        opn.append("power_type")
    elif pw < 0:
        ill.append("pulse_power<0")
    elif pw > max_pulse_power(env) or pw > 1:
        ill.append("pulse_power>max")
    return ill, opn


def judge_hold_power(env, hold_power):
    ill, opn = [], []
    hp = hold_power if hold_power is not None else eff_hold_power(env)
    if not is_num(hp):
        opn.append("hold_type")
    elif hp < 0:
        ill.append("hold_power<0")
    elif hp > 1 or (env.get("max_hold_power") is not None and hp > env["max_hold_power"]):
        ill.append("hold_power>max")
    return ill, opn


def safe_refusal(kind, env, a):
    """Refusals of requests that are legal by the statement but that MPF refuses on the safe side (R2)."""
    why = []
    if kind in ("enable", "rule_hold"):
        hp = a.get("hold_power")
        if not holds_allowed(env):
            why.append("hold_not_configured")
        if (hp if hp is not None else eff_hold_power(env)) == 0:
            why.append("hold_power_0")
    if kind in ("enable", "rule_hold", "timed_enable"):
        hp = a.get("hold_power")
        if is_num(hp) and env.get("max_hold_power") is None and not env.get("allow_enable"):
            # no explicit maximum: MPF takes default_hold_power (or 0) as the ceiling
            if hp > (env.get("default_hold_power") or 0):
                why.append("hold_above_default_without_max")
    if kind == "timed_enable":
        t = a.get("timed_enable_ms")
        t = t if t is not None else eff_timed_ms(env)
        if is_num(t) and env.get("max_hold_duration") and t > env["max_hold_duration"]:
            why.append("timed_ms_vs_seconds")      # F-C08 note: ms compared with seconds (over-refusal)
    return why


def judge(kind, env, mpf_default, a):
    """Classify a request: ('illegal'|'open'|'legal', reasons, safe-refusal reasons)."""
    if kind == "disable":
        return "legal", [], []
    ill, opn = judge_pulse_part(env, mpf_default, a.get("pulse_ms"), a.get("pulse_power"))
    if kind in ("enable", "rule_hold"):
        i2, o2 = judge_hold_power(env, a.get("hold_power"))
        ill += i2
        opn += o2
    if kind == "timed_enable":
        i2, o2 = judge_hold_power(env, a.get("hold_power"))
        ill += i2
        opn += o2
        t = a.get("timed_enable_ms")
        t = t if t is not None else eff_timed_ms(env)
        if not is_num(t):
            opn.append("timed_type")
        else:
            if t < 0:
                ill.append("timed_ms<0")
            elif env.get("max_hold_duration") and t > env["max_hold_duration"] * 1000:
                ill.append("timed_ms>max_hold_duration")
            if not isinstance(t, int):
                opn.append("timed_fraction")
    mw = a.get("max_wait_ms")
    if mw is not None and (not is_num(mw) or mw < 0):
        opn.append("max_wait")
    if env.get("pulse_with_timed_enable") and kind == "pulse":
        # the pulse is executed as a timed_enable with the default hold settings
        i2, o2 = judge_hold_power(env, None)
        opn += ["pwte_" + x for x in i2 + o2]
    safe = safe_refusal(kind, env, a)
    if kind == "pulse" and env.get("pulse_with_timed_enable"):
        safe += safe_refusal("timed_enable", env, {})
    if ill:
        return "illegal", ill, safe
    if opn:
        return "open", opn, safe
    return "legal", [], safe


def env_boot_problems(env, mpf_default):
    """Would the defaults of this coil, used on every parameterless request, break a limit? -> reasons."""
    ill, _ = judge_pulse_part(env, mpf_default, None, None)
    i2, _ = judge_hold_power(env, None)
    ill += i2
    t = eff_timed_ms(env)
    if env.get("max_hold_duration") and t > env["max_hold_duration"] * 1000:
        ill.append("timed_ms>max_hold_duration")
    return ill


def env_boot_safe(env):
    t = eff_timed_ms(env)
    return bool(env.get("max_hold_duration") and t > env["max_hold_duration"])


# ----------------------------------------------------------------------------------------------
# plan

def _draw_env(ch, name, mpf_default, allow_bad):
    """Coil limit configuration as it would be written in the machine config."""
    c = ch.sub("cfg." + name)
    env = {}
    generic = name in GENERIC
    env["max_pulse_ms"] = c.pick("max_ms", [None, None, 30, 100, 255, 300, 500] if generic else [None, None, 30, 100, 300])
    d = c.pick("def_ms", [None, None, 10, 20, 30, 100, 256, 300])
    if d is not None and env["max_pulse_ms"] is not None and d > env["max_pulse_ms"] and not allow_bad:
        d = env["max_pulse_ms"]
    if d is None and env["max_pulse_ms"] is not None and mpf_default > env["max_pulse_ms"] and not allow_bad:
        d = env["max_pulse_ms"]
    env["default_pulse_ms"] = d
    env["max_pulse_power"] = c.pick("max_pp", [None, None, None, 0.5, 0.25])
    dp = c.pick("def_pp", [None, None, 0.25, 0.5, 1.0])
    if env["max_pulse_power"] is not None and not allow_bad:
        if dp is None or dp > env["max_pulse_power"]:
            dp = env["max_pulse_power"]
    env["default_pulse_power"] = dp
    must_hold = name in ("c_fhold", "c_fsingle", "c_dhold", "c_plunger", "c_lock", "c_light")
    modes = [("allow", 3), ("none", 3 if not must_hold else 0.5), ("max", 2), ("default", 2), ("both", 1)]
    if name == "c_light":
        modes = [("allow", 8), ("max", 1), ("none", 0.3)]
    hm = c.weighted("hold", modes)
    env["allow_enable"] = hm == "allow" or (hm in ("max", "default") and c.flag("also_allow", 0.2))
    env["max_hold_power"] = c.pick("max_hp", [0.25, 0.5, 1.0]) if hm in ("max", "both") else None
    env["default_hold_power"] = None
    if hm in ("default", "both"):
        dh = c.pick("def_hp", [0.25, 0.5, 1.0])
        if env["max_hold_power"] is not None and dh > env["max_hold_power"] and not allow_bad:
            dh = env["max_hold_power"]
        env["default_hold_power"] = dh
    env["max_hold_duration"] = None
    if name not in RULE_DRIVEN and name != "c_light":
        env["max_hold_duration"] = c.weighted("mhd", [(None, 5), (0.5, 1), (1, 1.5), (2, 1.5)])
    env["pulse_with_timed_enable"] = generic and c.flag("pwte", 0.08)
    env["default_timed_enable_ms"] = c.weighted("def_te", [(None, 6), (0, 1), (50, 1), (200, 1)]) if generic else None
    if env["max_hold_duration"] and env["default_timed_enable_ms"] and not allow_bad and not c.flag("te_unit", 0.15):
        env["default_timed_enable_ms"] = None       # would be refused at boot (ms compared with seconds)
    return env


def _ms_value(ch, env, mpf_default):
    mx = env["max_pulse_ms"]
    opts = [(None, 5), (1, 1), (10, 2), (20, 1), (30, 1), (0, 1), (HW_MAX_PULSE, 1.5), (HW_MAX_PULSE + 1, 2),
            (300, 2), (400, 1), (500, 1), (-1, 0.7), (-5, 0.7), (10.5, 0.4), (-0.5, 0.3), (20.0, 0.3),
            ("abc", 0.2), ("20", 0.3), (True, 0.1)]
    if mx is not None:
        opts += [(mx, 2), (mx + 1, 2), (max(0, mx - 1), 1), (mx * 2, 0.5)]
    return ch.weighted("ms", opts)


def _power_value(ch, mx, tag):
    opts = [(None, 6), (1.0, 1.5), (0.5, 1.5), (0.25, 1), (0.125, 0.5), (0, 0.5), (0.0, 0.5), (1, 0.3),
            (1.01, 0.5), (1.5, 0.4), (-0.1, 0.6), (-0.5, 0.6), (-1, 0.2), ("1", 0.2), ("high", 0.1)]
    if mx is not None:
        opts += [(mx, 2), (round(mx + 0.01, 4), 1.5), (round(mx / 2, 4), 0.5)]
    return ch.weighted(tag, opts)


def _timed_value(ch, env):
    opts = [(None, 4), (0, 1), (1, 1), (2, 1), (10, 1), (100, 2), (500, 1), (2500, 0.5), (-100, 0.7), (-1, 0.5),
            (50.5, 0.3), ("100", 0.2)]
    if env["max_hold_duration"]:
        m = int(env["max_hold_duration"] * 1000)
        opts += [(m, 1.5), (m + 1, 1.5), (int(env["max_hold_duration"]), 1)]
    return ch.weighted("timed", opts)


def _wait_value(ch):
    return ch.weighted("wait", [(None, 5), (0, 1), (50, 1.5), (100, 1.5), (500, 1), (-10, 0.1)])


def _int_ms_value(ch, env):
    """coil_player / overwrite style values: config validation only lets integers through."""
    mx = env["max_pulse_ms"]
    opts = [(None, 4), (10, 2), (30, 1), (0, 0.5), (HW_MAX_PULSE, 1), (HW_MAX_PULSE + 1, 2), (300, 2), (500, 1),
            (-1, 0.4), (-5, 0.4)]
    if mx is not None:
        opts += [(mx, 2), (mx + 1, 1.5)]
    return ch.weighted("ims", opts)


def _float_power_value(ch, mx, tag):
    opts = [(None, 5), (1.0, 1.5), (0.5, 1.5), (0.25, 1), (0.0, 0.4), (1.01, 0.3), (1.5, 0.3), (-0.1, 0.4), (-0.5, 0.4)]
    if mx is not None:
        opts += [(mx, 2), (round(mx + 0.01, 4), 1)]
    return ch.weighted(tag, opts)


def _cp_entry(ch, coil, env, mpf_default):
    c = ch.sub("cp")
    action = c.weighted("action", [("pulse", 4), ("enable", 3), ("disable", 1.5), ("on", 0.5), ("off", 0.5)])
    e = {"action": action}
    if action in ("pulse", "enable", "on"):
        v = _int_ms_value(c, env)
        if v is not None:
            e["pulse_ms"] = v
        v = _float_power_value(c, max_pulse_power(env), "pp")
        if v is not None:
            e["pulse_power"] = v
    if action in ("enable", "on"):
        v = _float_power_value(c, env["max_hold_power"], "hp")
        if v is not None:
            e["hold_power"] = v
    if action == "pulse":
        v = c.weighted("mw", [(None, 4), (50, 1), (100, 1), (500, 1)])
        if v is not None:
            e["max_wait_ms"] = v
    if action in ("enable", "on") and not holds_allowed(env) and not c.flag("nohold", 0.15):
        e = {"action": "pulse"}
    if action in ("pulse", "enable", "on"):
        cls, _, safe = judge("pulse" if e["action"] == "pulse" else "enable", env, mpf_default, e)
        if (cls != "legal" or safe) and not c.flag("illegal", 0.15):
            e = {"action": e["action"]}
    return e


def _gen_op(ch, envs, mpf_default, cps, n_show_steps):
    kind = ch.weighted("op", [("call", 10), ("event", 4), ("cp", 4), ("show", 1.5), ("mode", 1.5), ("dw", 1.5),
                              ("do", 1), ("light", 1.5), ("flipper", 2.5), ("autofire", 0.8), ("switch", 2), ("eos_cycle", 1),
                              ("ball", 1.5), ("lock", 1.2)])
    op = {"op": kind}
    if kind in ("call", "event"):
        coil = ch.pick("coil", GENERIC)
        env = envs[coil]
        m = ch.weighted("method", [("pulse", 5), ("enable", 3.5), ("disable", 2.5), ("timed_enable", 1.5)])
        op.update(coil=coil, method=m)
        a = {}
        if m in ("pulse", "enable", "timed_enable"):
            a["pulse_ms"] = _ms_value(ch, env, mpf_default)
            a["pulse_power"] = _power_value(ch, max_pulse_power(env), "pp")
        if m in ("enable", "timed_enable"):
            a["hold_power"] = _power_value(ch, env["max_hold_power"], "hp")
        if m == "timed_enable":
            a["timed_enable_ms"] = _timed_value(ch, env)
        if m in ("pulse", "timed_enable") or (m == "enable" and kind == "call"):
            a["max_wait_ms"] = _wait_value(ch)
        if kind == "event":
            a.pop("max_wait_ms", None) if m == "enable" else None
            if ch.flag("extra_kw", 0.3):
                a["foo"] = "bar"
        a = {k: v for k, v in a.items() if v is not None or ch.flag("explicit_none", 0.1)}
        if kind == "event":
            # MPF dies on a refusal inside an event handler (end of the run): keep most event requests legal
            if m == "enable" and not holds_allowed(env) and not ch.flag("ev_nohold", 0.2):
                op["method"] = m = "pulse"
                a.pop("hold_power", None)
            cls, _, safe = judge(m, env, mpf_default, a)
            if (cls != "legal" or safe) and not ch.flag("ev_illegal", 0.2):
                a = {k: v for k, v in a.items() if k in ("foo", "max_wait_ms") and (v is None or is_num(v) and v >= 0)}
        op["args"] = a
    elif kind == "cp":
        op["name"] = ch.pick("cpname", cps + ["cp_static_pulse", "cp_static_off", "m1_static_on"])
    elif kind == "show":
        op["what"] = ch.weighted("show", [("sh1_play", 3), ("sh1_stop", 2), ("m1_sh1_play", 2)])
    elif kind == "mode":
        op["what"] = ch.weighted("mode", [("stop", 3), ("start", 2)])
    elif kind == "dw":
        m = ch.weighted("dwm", [("pulse", 3), ("enable", 3), ("disable", 2)])
        op["method"] = m
        if m == "pulse":
            op["ms"] = _ms_value(ch, envs["c_dmain"], mpf_default)
            op["power"] = _power_value(ch, max_pulse_power(envs["c_dhold"]), "pp")
    elif kind == "do":
        op["method"] = ch.weighted("dom", [("enable", 3), ("disable", 3), ("pulse", 2)])
        if op["method"] == "pulse":
            op["ms"] = ch.weighted("doms", [(10, 3), (100, 3), (255, 3), (256, 1), (1000, 0.5), (-5, 1), (0, 1)])
    elif kind == "light":
        op["brightness"] = ch.pick("lb", [255, 128, 64, 0, 32])
        op["fade_ms"] = ch.pick("lf", [0, 0, 100, 300])
    elif kind == "flipper":
        op["which"] = ch.pick("fl", ["f1", "f2"])
        op["method"] = ch.weighted("flm", [("enable", 3), ("disable", 2), ("sw_flip", 3), ("sw_release", 2)])
        op["via_event"] = ch.flag("flev", 0.3)
    elif kind == "autofire":
        op["method"] = ch.pick("afm", ["enable", "disable"])
    elif kind == "switch":
        op["switch"] = ch.weighted("sw", [("s_flip2", 3), ("s_eos2", 4), ("s_flip1", 1), ("s_sling", 1)])
        op["state"] = ch.choice("swst", 2)
    elif kind == "eos_cycle":
        op["closed_ms"] = ch.pick("eos_closed", [150, 100, 99, 300])
        op["release_after"] = ch.pick("eos_rel", [0.2, 0.0, 1.0, None])
    elif kind == "ball":
        op["what"] = ch.weighted("ball", [("request", 3), ("arrive_plunger", 2), ("leave_plunger", 2), ("drain", 1)])
    elif kind == "lock":
        op["what"] = ch.weighted("lock", [("enter", 3), ("eject", 2), ("leave", 2), ("hold_event", 1)])
    return op


def plan(ch, tier):
    knobs = draw_knobs(ch)
    allow_bad = ch.flag("bad_defaults", 0.05)
    mpf_default = ch.weighted("mpf_default_pulse_ms", [(10, 6), (30, 2), (256, 1)])
    envs = {name: _draw_env(ch, name, mpf_default, allow_bad) for name in ALL_COILS}
    # default_pulse_ms of c_b as a template on a machine variable that changes at run time
    tmpl = None
    if ch.flag("tmpl", 0.2):
        tmpl = envs["c_b"]["default_pulse_ms"] if envs["c_b"]["default_pulse_ms"] is not None else mpf_default
    # coil_player entries (machine-wide and in mode m1) and the show, drawn per run
    cps = {}
    for i in range(1 + ch.choice("ncp", 4)):
        nm = ("cp%d" if ch.flag("cp_in_machine", 0.6) else "m1_cp%d") % i
        ent = {}
        for coil in (GENERIC if ch.flag("cp_both", 0.3) else [ch.pick("cp_coil", GENERIC)]):
            ent[coil] = _cp_entry(ch, coil, envs[coil], mpf_default)
        cps[nm] = ent
    show = []
    t = 0.0
    for i in range(1 + ch.choice("nshow", 4)):
        coil = ch.pick("sh_coil", GENERIC)
        show.append({"time": t, "coils": {coil: _cp_entry(ch, coil, envs[coil], mpf_default)}})
        t = round(t + ch.pick("sh_dt", [0.1, 0.256, 0.3, 0.5]), 3)
    show.append({"time": t, "duration": ch.pick("sh_end", [0.1, 1, -1])})
    overwrites = {}
    for key, coil in (("f1.main_coil_overwrite", "c_fmain"), ("f1.hold_coil_overwrite", "c_fhold"),
                      ("f2.main_coil_overwrite", "c_fsingle"), ("f2.hold_coil_overwrite", "c_fsingle"),
                      ("af1.coil_overwrite", "c_sling")):
        if ch.flag("ow." + key, 0.4):
            c = ch.sub("ow." + key)
            env = envs[coil]
            o = {}
            v = c.weighted("ms", [(None, 2), (10, 2), (30, 2), (100, 1), (300, 1)] +
                           ([(env["max_pulse_ms"], 2), (env["max_pulse_ms"] + 1, 2)] if env["max_pulse_ms"] else []))
            if v is not None:
                o["pulse_ms"] = v
            v = c.weighted("pp", [(None, 3), (1.0, 1), (0.5, 1), (0.25, 1)])
            if v is not None:
                o["pulse_power"] = v
            v = c.weighted("hp", [(None, 3), (1.0, 1), (0.5, 1), (0.25, 1), (0.125, 1)])
            if v is not None:
                o["hold_power"] = v
            overwrites[key] = o
    ej = {"eject_times": ch.weighted("ej.times", [(None, 3), ([20], 1), ([30, 300], 1), ([100, 256], 1)]),
          "jam": ch.weighted("ej.jam", [(None, 3), ([5], 1), ([300], 1)]),
          "retry": ch.weighted("ej.retry", [(None, 2), ([40], 1), ([300], 1), ([600], 0.5)]),
          "enable_time": ch.pick("ej.enable", [[300], [100], [600], [100, 300]]),
          "max_wait": ch.pick("ej.wait", [None, 0, 200]),
          "af_delay": ch.pick("af.delay", [0, 0, 20])}
    n = 6 + ch.choice("nops", 25)
    ops = []
    for _ in range(n):
        op = _gen_op(ch, envs, mpf_default, sorted(cps), len(show))
        if tmpl is not None and ch.flag("setvar", 0.15):
            mx = envs["c_b"]["max_pulse_ms"]
            op = {"op": "setvar", "value": ch.weighted("varval", [(10, 2), (30, 2), (256, 1), (300, 1), (-3, 0.7), (10.5, 0.3)] +
                                                     ([(mx, 2), (mx + 1, 2)] if mx is not None else []))}
        w = ch.weighted("when", [("rel", 5), ("deadline", 4), ("now", 1.5)])
        if w == "rel":
            op["when"] = ["rel", ch.pick("dt", [0.0, 0.001, 0.01, 0.05, 0.1, 0.2, 0.255, 0.256, 0.3, 0.5, 1.0, 2.0])]
        elif w == "deadline":
            op["when"] = ["deadline", ch.choice("dl_idx", 3), ch.pick("dl_delta", [0.0, 0.0, -0.001, 0.001, -0.1, -0.25])]
        else:
            op["when"] = ["rel", 0.0]
        ops.append(op)
    return {"knobs": knobs, "mpf_default": mpf_default, "envs": envs, "cps": cps, "show": show,
            "overwrites": overwrites, "ej": ej, "ops": ops, "allow_bad": allow_bad, "tmpl": tmpl}


def shrink(plan):
    """Simpler request arguments / configs."""
    ops = plan["ops"]
    for i, op in enumerate(ops):
        a = op.get("args")
        if a:
            for k in sorted(a):
                if k in ("foo", "max_wait_ms") or a[k] is not None:
                    a2 = dict(a)
                    del a2[k]
                    p = dict(plan)
                    p["ops"] = ops[:i] + [dict(op, args=a2)] + ops[i + 1:]
                    yield p
        if op["when"] != ["rel", 0.0]:
            p = dict(plan)
            p["ops"] = ops[:i] + [dict(op, when=["rel", 0.0])] + ops[i + 1:]
            yield p
    for key in ("cps", "overwrites"):
        if plan[key]:
            p = dict(plan)
            p[key] = {}
            yield p


def warm():
    from sim.machine import preload
    preload("c08")
    import sim.platform    # noqa: F401


# ----------------------------------------------------------------------------------------------
# monitor

class Monitor:

    def __init__(self, ctx, envs, mpf_default):
        self.ctx = ctx
        self.sim = None
        # private copy: the model updates template defaults
        self.envs = {k: {kk: vv for kk, vv in v.items() if kk not in ("default_pulse_ms_old", "default_changed_at")}
                     for k, v in envs.items()}
        # digital outputs announce this envelope to the platform themselves (DriverConfig in DigitalOutput)
        self.envs["do1"] = {"max_pulse_ms": 255, "max_pulse_power": 1.0, "max_hold_power": 1.0, "allow_enable": True,
                            "default_pulse_ms": 255, "default_pulse_power": 1.0, "default_hold_power": 1.0,
                            "max_hold_duration": None}
        self.mpf_default = mpf_default
        self.stack = []
        self.deferred = {}            # coil -> [request]
        self.obl = []                 # switch-off obligations
        self.ncmd = {}                # coil -> number of commands seen
        self.nrule = {}               # coil -> number of rule records seen
        self.last_refusal = None
        self.refusals = []
        self.unexpected = []          # refusals of legal requests outside the known safe classes (harness error)
        self.dead = False             # MPF crashed: no more judgement
        self.reqs = 0
        self.num2name = {}

    # -- helpers ------------------------------------------------------------------------------
    def now(self):
        return self.sim.loop.time() if self.sim is not None else 0.0

    def same_instant(self, t):
        """Is `t` the instant the loop is processing right now?  Timers due within the loop's clock resolution
        (1 ns, as in asyncio) run in the same iteration batch, before callbacks queued by earlier ones of the
        batch (here: the hops that re-evaluate a template default); the clock reads their own deadline then."""
        return self.now() - t <= self.sim.loop._clock_resolution

    def on(self, coil):
        hw = self.sim.hw
        for num, d in hw.sim_drivers.items():
            if self.name_of(d) == coil:
                return d.sim_enabled
        return False

    def name_of(self, driver):
        n = self.num2name.get(str(driver.number))
        if n is None:
            n = self.num2name[str(driver.number)] = getattr(driver.config, "name", None) or str(driver.number)
        return n

    def open_obligations(self, coil=None):
        return [o for o in self.obl if not o["done"] and not o["superseded"] and (coil is None or o["coil"] == coil)]

    # -- requests -----------------------------------------------------------------------------
    def begin(self, kind, coil, a):
        env = self.envs.get(coil)
        self.reqs += 1
        if env is None:
            req = {"kind": kind, "coil": coil, "a": a, "cls": "open", "why": ["unknown_coil"], "safe": []}
        else:
            if "default_pulse_ms_old" in env and not self.same_instant(env["default_changed_at"]):
                del env["default_pulse_ms_old"]
            cls, why, safe = judge(kind, env, self.mpf_default, a)
            if "default_pulse_ms_old" in env and a.get("pulse_ms") is None and kind != "disable":
                # a template default changed in this very instant: MPF may still use the previous value
                for old in env["default_pulse_ms_old"]:
                    env2 = dict(env, default_pulse_ms=old)
                    del env2["default_pulse_ms_old"]
                    cls2, why2, safe2 = judge(kind, env2, self.mpf_default, a)
                    if cls2 != cls:
                        cls, why, safe = "open", ["default_changing"], safe + safe2
            req = {"kind": kind, "coil": coil, "a": a, "cls": cls, "why": why, "safe": safe}
        # the default pulse length a parameterless request stands for is the one in force when the request is made
        # (MPF resolves it then; a PSU-deferred pulse keeps it even if a template default changes while it waits)
        req["def_ms"] = eff_pulse_ms_options(env, self.mpf_default) if env is not None else []
        req["n0"] = self.ncmd.get(coil, 0)
        req["r0"] = self.nrule.get(coil, 0)
        req["t"] = self.now()
        req["id"] = self.reqs
        self.stack.append(req)
        if kind == "pulse" and coil == "c_trough":
            self.ctx.probe("ejector_pulse")
        elif kind == "enable" and coil == "c_plunger":
            self.ctx.probe("ejector_enable")
        elif kind == "enable" and coil == "c_lock":
            self.ctx.probe("ejector_hold")
        self.ctx.log("req", kind, coil, sorted((k, repr(v)) for k, v in a.items()), req["cls"], t=req["t"])
        return req

    def end(self, req, exc):
        from sim.harness import Violation
        if not self.stack or self.stack[-1] is not req:
            raise HarnessBug("request stack out of order")
        self.stack.pop()
        if isinstance(exc, Violation) or (exc is not None and not isinstance(exc, Exception)):
            return
        ctx = self.ctx
        coil, kind = req["coil"], req["kind"]
        emitted = (self.ncmd.get(coil, 0) - req["n0"]) + (self.nrule.get(coil, 0) - req["r0"])
        ctx.log("req_end", kind, coil, "raised:" + type(exc).__name__ if exc is not None else "ok", emitted, t=self.now())
        ctx.state(kind, req["cls"], exc is None, len(self.open_obligations()), self.on(coil) if self.sim and self.sim.booted else None)
        if self.dead:
            return
        if exc is not None:
            self.last_refusal = (req, exc)
            self.refusals.append((req, exc))
        if req["cls"] == "illegal":
            sig = "%s:%s" % (kind, "+".join(sorted(set(req["why"]))))
            if exc is None:
                ctx.violation("not_refused", sig, "%s(%s) on %s returned normally although %s (limits %r); %d command(s) "
                              "went out" % (kind, req["a"], coil, req["why"], self._lim(coil), emitted))
            elif emitted:
                ctx.violation("emitted_before_refusal", sig, "%s(%s) on %s raised %r but %d command(s) went out first"
                              % (kind, req["a"], coil, exc, emitted))
            else:
                ctx.probe("refused_illegal")
                if kind.startswith("rule"):
                    ctx.probe("rule_refused")
        elif req["cls"] == "legal":
            if exc is not None:
                if req["safe"]:
                    ctx.probe("over_refusal")
                else:
                    self.unexpected.append("%s(%s) on %s (limits %r) raised %r" % (kind, req["a"], coil, self._lim(coil), exc))
            elif emitted == 0 and kind in ("pulse", "enable"):
                # accepted, nothing went out yet: deferred by the PSU wait
                self.deferred.setdefault(coil, []).append(req)
                ctx.probe("psu_deferred")
        elif exc is None and emitted == 0 and kind in ("pulse", "enable"):
            self.deferred.setdefault(coil, []).append(req)

    def _lim(self, coil):
        e = self.envs.get(coil, {})
        return {k: e.get(k) for k in ("max_pulse_ms", "max_pulse_power", "max_hold_power", "allow_enable",
                                      "default_hold_power", "max_hold_duration")}

    # -- seam ---------------------------------------------------------------------------------
    def check_limits(self, coil, rec, what):
        env = self.envs.get(coil)
        ctx = self.ctx
        if env is None:
            return
        bad = []
        ms, pp, hp = rec.get("pulse_ms"), rec.get("pulse_power"), rec.get("hold_power")
        if ms is not None:
            if not seam_num(ms):
                bad.append("pulse_ms_type")
            elif ms < 0:
                bad.append("pulse_ms<0")
            elif env.get("max_pulse_ms") is not None and ms > env["max_pulse_ms"]:
                bad.append("pulse_ms>max")
        if pp is not None:
            if not seam_num(pp):
                bad.append("pulse_power_type")
            elif pp < 0:
                bad.append("pulse_power<0")
            elif pp > max_pulse_power(env) or pp > 1:
                bad.append("pulse_power>max")
        if hp is not None:
            if not seam_num(hp):
                bad.append("hold_power_type")
            elif hp < 0:
                bad.append("hold_power<0")
            elif hp > 1 or (env.get("max_hold_power") is not None and hp > env["max_hold_power"]):
                bad.append("hold_power>max")
        hm = rec.get("hold_ms")
        if hm is not None:
            if not seam_num(hm):
                bad.append("hold_ms_type")
            elif hm < 0:
                bad.append("hold_ms<0")
            elif env.get("max_hold_duration") and hm > env["max_hold_duration"] * 1000:
                bad.append("hold_ms>max_hold_duration")
        for b in bad:
            ctx.violation("limit", "%s:%s:%s" % (what, "do" if coil == "do1" else "coil", b),
                          "%s on %s carries %s: %r, limits %r" % (what, coil, b, {k: v for k, v in rec.items() if v is not None},
                                                                  self._lim(coil)))

    def on_command(self, driver, rec):
        ctx = self.ctx
        coil = self.name_of(driver)
        self.ncmd[coil] = self.ncmd.get(coil, 0) + 1
        now = rec["t"]
        op = rec["op"]
        ctx.log("cmd", coil, op, rec["pulse_ms"], rec["pulse_power"], rec["hold_power"], rec["hold_ms"], t=now)
        if self.dead:
            return
        env = self.envs.get(coil)
        if env is None:
            return
        top = self.stack[-1] if self.stack and self.stack[-1]["coil"] == coil else None
        if op == "disable":
            self._disable_seen(coil, now)
            return
        src = top
        if src is None:
            src = self._match_deferred(coil, rec)
            if src is None and coil == "c_fsingle":
                ctx.probe("eos_repulse")
        if op == "enable" and src is not None and src["kind"] == "pulse":
            # R4: the switch-on of a software-timed pulse carries the *pulse* power in the hold field (the platform
            # interface has no other way to say "on at power p until told otherwise"): judge it as pulse power
            self.check_limits(coil, dict(rec, pulse_power=rec["hold_power"], hold_power=None), "sw_pulse_enable")
            if rec["pulse_power"] != rec["hold_power"]:
                self.check_limits(coil, dict(rec, hold_power=None), "sw_pulse_enable")
        else:
            self.check_limits(coil, rec, op)
        if op == "pulse":
            ctx.probe("hw_pulse")
            return
        if op == "timed_enable":
            ctx.probe("timed_enable")
            if top is not None and len(self.stack) >= 2 and self.stack[-2]["kind"] == "pulse" and self.stack[-2]["coil"] == coil:
                ctx.probe("pulse_with_timed_enable")
            return
        # op == enable
        if src is not None and src["kind"] == "pulse":
            d = src["a"].get("pulse_ms")
            if d is None:
                d = max([x for x in src["def_ms"] if is_num(x)] or [0])
            d = d if is_num(d) else 0
            ctx.probe("sw_pulse")
            for o in self.open_obligations(coil):
                if o["kind"] == "sw_pulse":
                    o["superseded"] = True       # R1
                    ctx.probe("sw_pulse_superseded")
            self._add_obligation(coil, "sw_pulse", now, now + max(0, d) / 1000.0)
        else:
            if src is None:
                ctx.log("unattributed_enable", coil, t=now)
            if not holds_allowed(env):
                ctx.violation("hold_not_allowed", "enable:%s" % ("request" if src is not None else "direct"),
                              "enable command reached %s whose configuration does not allow holding (%r); source %r"
                              % (coil, self._lim(coil), src and (src["kind"], src["a"])))
            ctx.probe("hold_enable")
            if env.get("max_hold_duration"):
                ctx.probe("mhd_enable")
                self._add_obligation(coil, "mhd", now, now + env["max_hold_duration"])

    def _match_deferred(self, coil, rec):
        lst = self.deferred.get(coil) or []
        op = rec["op"]
        env = self.envs[coil]
        for i, r in enumerate(lst):
            a = r["a"]
            pp = a.get("pulse_power")
            pp = pp if pp is not None else eff_pulse_power(env)
            mss = [a["pulse_ms"]] if a.get("pulse_ms") is not None else r["def_ms"]
            if r["kind"] == "pulse":
                if op == "pulse" and rec["pulse_ms"] in mss and rec["pulse_power"] == pp:
                    return lst.pop(i)
                if op == "timed_enable" and rec["pulse_ms"] in mss and rec["pulse_power"] == pp:
                    return lst.pop(i)
                if op == "enable" and rec["pulse_ms"] == 0 and rec["pulse_power"] == pp and rec["hold_power"] == pp:
                    # ambiguous with a deferred enable(pulse_ms=0, equal powers): then take the hold reading (no
                    # software-pulse obligation is invented for what may be a legal hold)
                    for j, r2 in enumerate(lst):
                        if r2["kind"] != "enable" or r2["a"].get("pulse_ms") != 0 or not holds_allowed(env):
                            continue
                        pp2 = r2["a"].get("pulse_power")
                        pp2 = pp2 if pp2 is not None else eff_pulse_power(env)
                        hp2 = r2["a"].get("hold_power")
                        hp2 = hp2 if hp2 is not None else eff_hold_power(env)
                        if pp2 == pp and hp2 == rec["hold_power"]:     # only a deferred enable that would emit exactly this
                            return lst.pop(j)
                    return lst.pop(i)
            elif r["kind"] == "enable" and op == "enable" and rec["pulse_ms"] in mss and rec["pulse_power"] == pp:
                hp = a.get("hold_power")
                hp = hp if hp is not None else eff_hold_power(env)
                if rec["hold_power"] == hp:
                    return lst.pop(i)
        return None

    def _add_obligation(self, coil, kind, t_on, deadline):
        o = {"coil": coil, "kind": kind, "t_on": t_on, "deadline": deadline, "done": False, "superseded": False}
        self.obl.append(o)
        self.ctx.log("obligation", coil, kind, round(deadline - t_on, 6), t=t_on)
        self.sim.at(deadline + 1e-6, self._verify, o)

    def _disable_seen(self, coil, now):
        for o in self.open_obligations(coil):
            o["done"] = True
            self.ctx.probe("sw_pulse_off" if o["kind"] == "sw_pulse" else "mhd_off")
            if now > o["deadline"] + 1e-9:
                if self.sim.late_ok(o["deadline"], now):
                    self.ctx.probe("off_late_after_stall")
                else:
                    self.ctx.violation("not_switched_off", "%s:late" % o["kind"],
                                       "%s switched on at %.6f (%s), due off at %.6f, disable only at %.6f without a stall"
                                       % (coil, o["t_on"], o["kind"], o["deadline"], now))

    def _verify(self, o):
        if self.dead or o["done"] or o["superseded"]:
            return
        o["done"] = True
        now = self.now()
        self.ctx.violation("not_switched_off", "%s:missing" % o["kind"],
                           "%s switched on at %.6f (%s) must be switched off by %.6f; no disable reached the driver "
                           "until %.6f (physically on: %s)" % (o["coil"], o["t_on"], o["kind"], o["deadline"], now,
                                                               self.on(o["coil"])))

    def on_rule(self, rec):
        ctx = self.ctx
        coil = self.num2name.get(rec["coil"])
        if coil is None:
            d = self.sim.hw.sim_drivers.get(rec["coil"]) if self.sim else None
            coil = self.name_of(d) if d is not None else rec["coil"]
        ctx.log("rule", rec["kind"], rec.get("type"), rec["switch"], coil, rec.get("pulse_ms"), rec.get("pulse_power"),
                rec.get("hold_power"), t=rec["t"])
        if rec["kind"] != "set":
            return
        self.nrule[coil] = self.nrule.get(coil, 0) + 1
        if self.dead:
            return
        ctx.probe("rule_set")
        env = self.envs.get(coil)
        if env is None:
            return
        self.check_limits(coil, rec, "rule")
        if rec.get("hold_power") is not None and not holds_allowed(env):
            ctx.violation("hold_not_allowed", "rule", "hold rule %s installed on %s whose configuration does not allow "
                          "holding (%r)" % (rec["type"], coil, self._lim(coil)))


def install_wrappers(mon):
    """Read-only wrappers around the public request API (class level, inside the forked child)."""
    from mpf.devices.driver import Driver
    from mpf.core.platform_controller import PlatformController
    from sim.platform import SimPlatform

    def wrap_driver(kind):
        orig = getattr(Driver, kind)
        sig = inspect.signature(orig)

        def w(self, *args, **kwargs):
            try:
                ba = sig.bind(self, *args, **kwargs)
                a = {k: v for k, v in ba.arguments.items() if k != "self"}
            except TypeError:
                a = dict(kwargs)
            req = mon.begin(kind, self.name, a)
            try:
                r = orig(self, *args, **kwargs)
            except BaseException as e:      # pylint: disable=broad-except
                mon.end(req, e)
                raise
            mon.end(req, None)
            return r
        setattr(Driver, kind, w)

    for k in ("pulse", "enable", "timed_enable", "disable"):
        wrap_driver(k)

    def wrap_rule(name):
        orig = getattr(PlatformController, name)
        sig = inspect.signature(orig)
        kind = "rule_hold" if "_enable_" in name else "rule_pulse"

        def w(self, *args, **kwargs):
            ba = sig.bind(self, *args, **kwargs)
            ps = ba.arguments.get("pulse_setting")
            hs = ba.arguments.get("hold_settings")
            drv = ba.arguments["driver"].driver
            a = {"pulse_ms": ps.duration if ps else None, "pulse_power": ps.power if ps else None}
            if kind == "rule_hold":
                a["hold_power"] = hs.power if hs else None
            req = mon.begin(kind, drv.name, a)
            try:
                r = orig(self, *args, **kwargs)
            except BaseException as e:      # pylint: disable=broad-except
                mon.end(req, e)
                raise
            mon.end(req, None)
            return r
        setattr(PlatformController, name, w)

    for n in ("set_pulse_on_hit_rule", "set_delayed_pulse_on_hit_rule", "set_pulse_on_hit_and_release_rule",
              "set_pulse_on_hit_and_enable_and_release_rule", "set_pulse_on_hit_and_release_and_disable_rule",
              "set_pulse_on_hit_and_enable_and_release_and_disable_rule"):
        wrap_rule(n)

    from mpf.devices.digital_output import DigitalOutput
    orig_do_pulse = DigitalOutput.pulse

    def do_pulse(self, pulse_ms):
        req = mon.begin("pulse", self.name, {"pulse_ms": pulse_ms})
        try:
            r = orig_do_pulse(self, pulse_ms)
        except BaseException as e:      # pylint: disable=broad-except
            mon.end(req, e)
            raise
        mon.end(req, None)
        return r
    DigitalOutput.pulse = do_pulse

    orig_init = SimPlatform.__init__

    def init(self, machine):
        orig_init(self, machine)
        self.driver_listeners.append(mon.on_command)
        self.rule_listeners.append(mon.on_rule)
    SimPlatform.__init__ = init


# ----------------------------------------------------------------------------------------------
# execute

def _coil_patch(env):
    p = {}
    for k in ("max_pulse_ms", "default_pulse_ms", "max_pulse_power", "default_pulse_power", "max_hold_power",
              "default_hold_power", "max_hold_duration", "default_timed_enable_ms"):
        if env.get(k) is not None:
            p[k] = env[k]
    if env.get("allow_enable"):
        p["allow_enable"] = True
    if env.get("pulse_with_timed_enable"):
        p["pulse_with_timed_enable"] = True
    return p


def build_patches(plan):
    patches = {"coils": {n: _coil_patch(e) for n, e in plan["envs"].items()},
               "mpf": {"default_pulse_ms": plan["mpf_default"]},
               "coil_player": {}, "flippers": {}, "autofire_coils": {}, "ball_devices": {"bd_trough": {}, "bd_plunger": {}}}
    mode_cp = {}
    for nm, ent in plan["cps"].items():
        (mode_cp if nm.startswith("m1_") else patches["coil_player"])[nm] = ent
    patches["shows"] = {"sh1": plan["show"]}
    for key, o in plan["overwrites"].items():
        dev, k = key.split(".")
        sec = "autofire_coils" if dev == "af1" else "flippers"
        patches[sec].setdefault(dev, {})[k] = o
    ej = plan["ej"]
    if ej["eject_times"]:
        patches["ball_devices"]["bd_trough"]["ejector"] = {
            "class": "mpf.devices.ball_device.pulse_coil_ejector.PulseCoilEjector", "eject_times": ej["eject_times"]}
    if ej["jam"]:
        patches["ball_devices"]["bd_trough"]["eject_coil_jam_pulse"] = ej["jam"]
    if ej["retry"]:
        patches["ball_devices"]["bd_trough"]["eject_coil_retry_pulse"] = ej["retry"]
    patches["ball_devices"]["bd_plunger"]["eject_coil_enable_time"] = ej["enable_time"]
    if ej["max_wait"] is not None:
        patches["ball_devices"]["bd_trough"]["eject_coil_max_wait_ms"] = ej["max_wait"]
        patches["ball_devices"]["bd_plunger"]["eject_coil_max_wait_ms"] = ej["max_wait"]
    if ej["af_delay"]:
        patches["autofire_coils"].setdefault("af1", {})["coil_pulse_delay"] = ej["af_delay"]
    if plan.get("tmpl") is not None:
        patches["coils"]["c_b"]["default_pulse_ms"] = "machine.cb_ms"
        patches["machine_vars"] = {"cb_ms": {"initial_value": plan["tmpl"], "value_type": "int", "persist": False}}
    mode_patches = {"m1": {"coil_player": mode_cp}} if mode_cp else None
    return patches, mode_patches


def execute(ctx, plan):
    from sim.machine import MpfCrashed
    from sim.harness import Violation
    envs = plan["envs"]
    mpf_default = plan["mpf_default"]
    mon = Monitor(ctx, envs, mpf_default)
    if plan.get("tmpl") is not None:
        mon.envs["c_b"]["default_pulse_ms"] = plan["tmpl"]
    ctx.c08 = mon
    install_wrappers(mon)
    patches, mode_patches = build_patches(plan)
    boot_ill = {n: env_boot_problems(e, mpf_default) for n, e in envs.items()}
    boot_ill = {n: v for n, v in boot_ill.items() if v}
    boot_safe = [n for n, e in envs.items() if env_boot_safe(e)]
    sim = ctx.new_sim("c08", platform="simhw", patches=patches, mode_patches=mode_patches)
    mon.sim = sim
    try:
        sim.boot()
    except Violation:
        raise
    except Exception as e:      # pylint: disable=broad-except
        if ctx.first_violation is not None:
            raise ctx.first_violation
        if boot_ill or boot_safe:
            # a coil whose own defaults break its limits (or the ms/seconds over-refusal): config refused at boot
            ctx.log("boot_refused", sorted(boot_ill), sorted(boot_safe))
            ctx.probe("boot_refused")
            return
        raise
    m = sim.machine
    loop = sim.loop
    if boot_ill:
        ctx.log("boot_accepted_bad_defaults", sorted(boot_ill.items()))
    m.modes["m1"].start()
    sim.run(0.01)

    cp_names = set(plan["cps"]) | {"cp_static_pulse", "cp_static_off", "m1_static_on"}
    state = {"crashed": False}

    def guarded(fn, *a, **kw):
        """A direct call: an exception is a refusal (judged per request by the monitor)."""
        try:
            fn(*a, **kw)
        except Violation:
            raise
        except Exception as e:   # pylint: disable=broad-except
            ctx.log("call_raised", type(e).__name__, t=loop.time())

    def do_op(op):
        kind = op["op"]
        now = loop.time()
        ctx.log("op", kind, op.get("coil"), op.get("method") or op.get("what") or op.get("name"), t=now)
        if kind == "call":
            coil = m.coils[op["coil"]]
            guarded(getattr(coil, op["method"]), **op["args"])
        elif kind == "event":
            ctx.probe("event_request")
            sim.post("%s_%s" % (EVENT_PREFIX[op["coil"]], {"timed_enable": "timed"}.get(op["method"], op["method"])),
                     **op["args"])
        elif kind == "cp":
            ctx.probe("coil_player_request")
            sim.post(op["name"])
        elif kind == "show":
            ctx.probe("show_request")
            sim.post(op["what"])
        elif kind == "mode":
            mode = m.modes["m1"]
            if op["what"] == "stop" and mode.active and not mode.stopping:
                inst = m.coil_player.instances.get("m1", {}).get("coil_player", {}) if hasattr(m.coil_player, "instances") else {}
                if inst:
                    ctx.probe("mode_stop_holding")
                mode.stop()
            elif op["what"] == "start" and not mode.active and not mode._starting and not mode.stopping:
                mode.start()
        elif kind == "dw":
            ctx.probe("dual_wound")
            dw = m.dual_wound_coils["dw1"]
            if op["method"] == "pulse":
                guarded(dw.pulse, op["ms"], op["power"])
            else:
                guarded(getattr(dw, op["method"]))
        elif kind == "do":
            ctx.probe("digital_output")
            do = m.digital_outputs["do1"]
            if op["method"] == "pulse":
                guarded(do.pulse, op["ms"])
            else:
                guarded(getattr(do, op["method"]))
        elif kind == "light":
            ctx.probe("driver_light")
            guarded(m.lights["l_drv"].on, brightness=op["brightness"], fade_ms=op["fade_ms"])
        elif kind == "flipper":
            f = m.flippers[op["which"]]
            if op["via_event"]:
                sim.post("%s_%s" % (op["which"], {"sw_flip": "flip", "sw_release": "release"}.get(op["method"], op["method"])))
            else:
                guarded(getattr(f, op["method"]))
        elif kind == "autofire":
            guarded(getattr(m.autofire_coils["af1"], op["method"]))
        elif kind == "switch":
            sim.hit_switch(op["switch"], op["state"])
        elif kind == "setvar":
            env = mon.envs["c_b"]
            if "default_pulse_ms_old" in env and not mon.same_instant(env["default_changed_at"]):
                del env["default_pulse_ms_old"]
            env["default_pulse_ms_old"] = env.get("default_pulse_ms_old", []) + [env["default_pulse_ms"]]
            env["default_pulse_ms"] = op["value"]
            env["default_changed_at"] = now
            ctx.probe("template_default_changed")
            m.variables.set_machine_var("cb_ms", op["value"])
        elif kind == "eos_cycle":
            # button pressed, EOS closes, stays closed, opens again (flipper knocked down) -> software repulse
            guarded(m.flippers["f2"].enable)
            sim.hit_switch("s_flip2", 1)
            sim.hit_switch("s_eos2", 1)
            sim.after(op["closed_ms"] / 1000.0, sim.hit_switch, "s_eos2", 0)
            if op["release_after"] is not None:
                sim.after(op["closed_ms"] / 1000.0 + op["release_after"], sim.hit_switch, "s_flip2", 0)
        elif kind == "ball":
            w = op["what"]
            if w == "request":
                guarded(m.playfield.add_ball)
            elif w == "arrive_plunger":
                if m.switches["s_trough1"].state:
                    sim.hit_switch("s_trough1", 0)
                elif m.switches["s_trough2"].state:
                    sim.hit_switch("s_trough2", 0)
                sim.after(0.1, sim.hit_switch, "s_plunger", 1)
            elif w == "leave_plunger":
                sim.hit_switch("s_plunger", 0)
                sim.after(0.2, sim.hit_switch, "s_playfield", 1)
                sim.after(0.25, sim.hit_switch, "s_playfield", 0)
            elif w == "drain":
                if not m.switches["s_trough1"].state:
                    sim.hit_switch("s_trough1", 1)
                elif not m.switches["s_trough2"].state:
                    sim.hit_switch("s_trough2", 1)
        elif kind == "lock":
            w = op["what"]
            if w == "enter":
                sim.hit_switch("s_lock1", 1)
            elif w == "leave":
                sim.hit_switch("s_lock1", 0)
            elif w == "eject":
                guarded(m.ball_devices["bd_lock"].eject)
            else:
                sim.post("lock_hold")

    ops = plan["ops"]
    idx = [0]
    done = [False]

    def schedule_next():
        if idx[0] >= len(ops):
            done[0] = True
            return
        op = ops[idx[0]]
        w = op["when"]
        now = loop.time()
        if w[0] == "rel":
            t = now + w[1]
        else:
            dls = sorted(set(o["deadline"] for o in mon.open_obligations() if o["deadline"] >= now))
            if dls:
                d = dls[w[1] % len(dls)]
                t = d if w[2] == 0.0 else max(now, d + w[2])
                if w[2] == 0.0:
                    ctx.probe("op_on_deadline")
            else:
                t = now + 0.02
        sim.at(t, run_op)

    def run_op():
        op = ops[idx[0]]
        idx[0] += 1
        try:
            do_op(op)
        finally:
            schedule_next()

    schedule_next()
    guard = 0
    try:
        while not done[0]:
            sim.run(0.5)
            guard += 1
            if guard > 400:
                raise AssertionError("op chain did not finish")
        # let every software timer expire: longest obligation 2 s, ejector retries, stalls up to 3 s
        sim.run(1.0)
        sim.run_quiet(4.0)
        for _ in range(3):
            pend = [o["deadline"] for o in mon.open_obligations()]
            if not pend:
                break
            sim.run_quiet(max(0.01, max(pend) - loop.time() + 0.01))
    except MpfCrashed as c:
        if ctx.first_violation is not None:
            raise ctx.first_violation
        mon.dead = True
        chain = []
        e = c.exc
        while e is not None and len(chain) < 10:
            chain.append(e)
            e = e.__cause__ or e.__context__
        lr = [r for r in mon.refusals if any(x is r[1] for x in chain)]
        lr = lr[0] if lr else None
        if lr is not None:
            # MPF died on a refused request (refusal-by-exception inside an event handler / task)
            ctx.log("refusal_crash", lr[0]["kind"], lr[0]["coil"], lr[0]["cls"], t=loop.time())
            ctx.probe("refusal_crash")
            state["crashed"] = True
        else:
            raise
    if mon.unexpected:
        raise AssertionError("legal request refused outside the known safe-side classes: %s" % mon.unexpected[:3])
    if state["crashed"]:
        return
    # end of run: nothing may be left on that must be off
    for o in mon.obl:
        # (devices with a life of their own, e.g. a hold ejector retrying, may have switched on again just now)
        if not o["done"] and not o["superseded"] and o["deadline"] + 1e-6 < loop.time():
            ctx.violation("not_switched_off", "%s:missing" % o["kind"], "%s switched on at %.6f (%s) still has no disable at "
                          "the end of the run (%.6f)" % (o["coil"], o["t_on"], o["kind"], loop.time()))
    for num in sorted(sim.hw.sim_drivers, key=lambda x: (len(x), x)):
        d = sim.hw.sim_drivers[num]
        coil = mon.name_of(d)
        env = mon.envs.get(coil)
        ctx.log("final", coil, d.sim_enabled)
        if env is not None and d.sim_enabled and not holds_allowed(env) and not mon.open_obligations(coil):
            # (a coil with an open, not yet due obligation is inside a running software-timed pulse, e.g. a looping show)
            ctx.violation("left_on", "final", "%s is physically on at the end of the run but its configuration does not "
                          "allow holding (%r)" % (coil, mon._lim(coil)))
