"""C05 - Ball requests make progress: no lost or stuck ejects (PinWorld behind SimPlatform)."""
from checks import _balls_common as common

ID = "C05"
LEVEL = "exploration"
RUNS = {"quick": 6000, "thorough": 100000}
WALL_CAP = {"quick": 200, "thorough": 3600}
RULE = ("one case = one of eleven machine topologies (t1 trough+coil plunger, t2 +two-ball lock and a multiball with ball_locks, "
        "t3 +entrance-counted VUK, t4 mechanical plunger (optionally home-tagged with a ball in the lane at boot, weak plunges), "
        "t5 +ball saves (machine-wide, or mode-scoped with delayed eject), t6 two independent feeds, t7 three-stage chain with "
        "requests for the staging device and balls straying to the playfield, t8 two-ball launcher, t9 outhole + "
        "entrance-counted trough whose last ball rests on the entrance switch, t10 jam-switch trough with shaken balls and "
        "reorder pulses) with 1-4 balls, a swarm-drawn eject failure rate and scheduler knobs, and a history of game "
        "actions (start, drain, pairs of drains, playfield hit, multiball add, requests for several balls, lock shot/release, "
        "manual plunge, lane return, mode start/stop, end game) with tape-chosen timing, plus reactive requests a moment "
        "after a kick and handlers holding the trough's eject-attempt queue event; the physical world (PinWorld) answers coil "
        "commands with success / fall-back / stuck / late arrival / shaken / stray. Non-trivial = reached a probe (drain, "
        "multiball add, physical eject failure, lock shot, ...); distinct = distinct sequence of observed event kinds")
PROBES = common.PROBES
REAL = ["mpf.devices.ball_device.* (counters, incoming/outgoing handlers, ejectors)", "mpf.devices.playfield", "mpf.core.ball_controller",
        "mpf.modes.game", "mpf.core.switch_controller", "mpf.devices.driver", "MachineController boot"]
STUBS = ["physical machine (sim/pinworld.py)", "platform leaf objects (SimPlatform/SimDriver)", "event loop/clock (SimLoop)"]
ASSUMPTIONS = [
               "further named relaxations (DESIGN.md, Corrections, C04/C05 items 5-19): arrival, identity, settle and re-plunge "
               "ambiguity, skip assumption of mechanical lanes, playfield confirmation, entrance arrival during the device's own "
               "eject, starved devices, requests only while a ball is in progress",
               "PinWorld rules (module docstring); host stalls limited to 0.2 s; in the two-feed topology a queued request is only "
               "held against MPF when a ball sits upstream of the requesting device", "liveness is judged only after faults stop, bound = 3 x sum of eject and "
               "ball-missing timeouts of the topology + 30 s", "a broken device (max_eject_attempts exhausted) is excluded, per statement"]
STATE_ABSTRACTION = "(topology, per-device (balls, state), playfield.balls, game running)"

warm = common.warm
plan = common.plan


def execute(ctx, plan_):
    return common.execute(ctx, plan_, ID)


def on_crash(ctx, crash):
    return common.on_crash(ctx, crash, ID)
