"""C05 - Ball requests make progress: no lost or stuck ejects (PinWorld behind SimPlatform)."""
from checks import _balls_common as common

ID = "C05"
LEVEL = "exploration"
RUNS = {"quick": 6000, "thorough": 100000}
WALL_CAP = {"quick": 200, "thorough": 3600}
RULE = ("same workload as C04 (topologies x ball counts x game-action histories x physical eject outcomes); oracle: bounded "
        "liveness after faults stop - devices return to idle within 3x the timeout chain, nothing is still owed to a target "
        "while a source holds a ball, every physically failed eject was retried or reported. Non-trivial = reached a probe; "
        "distinct = distinct sequence of observed event kinds")
PROBES = common.PROBES
REAL = ["mpf.devices.ball_device.* (counters, incoming/outgoing handlers, ejectors)", "mpf.devices.playfield", "mpf.core.ball_controller",
        "mpf.modes.game", "mpf.core.switch_controller", "mpf.devices.driver", "MachineController boot"]
STUBS = ["physical machine (sim/pinworld.py)", "platform leaf objects (SimPlatform/SimDriver)", "event loop/clock (SimLoop)"]
ASSUMPTIONS = ["PinWorld rules (module docstring); host stalls limited to 0.2 s; in the two-feed topology a queued request is only "
               "held against MPF when a ball sits upstream of the requesting device", "liveness is judged only after faults stop, bound = 3 x sum of eject and "
               "ball-missing timeouts of the topology + 30 s", "a broken device (max_eject_attempts exhausted) is excluded, per statement"]
STATE_ABSTRACTION = "(topology, per-device (balls, state), playfield.balls, game running)"

warm = common.warm
plan = common.plan


def execute(ctx, plan_):
    return common.execute(ctx, plan_, ID)


def on_crash(ctx, crash):
    return common.on_crash(ctx, crash, ID)
