"""Helpers of the C18 check that MPF itself has to import (mode code class named in the mode configs).

`C18Mode` uses the two documented extension points of mpf.core.mode.Mode - `mode_will_start` (called
synchronously right before the mode's devices are loaded) and `mode_stop` (called synchronously right before
the mode's event handlers and devices are removed) - to tell the check the exact instants at which a
mode-based logic block comes into and goes out of existence.  It changes nothing in the mode's behaviour.
"""
from sim import ensure_repo_import

ensure_repo_import()

from mpf.core.mode import Mode      # noqa: E402


class C18Mode(Mode):

    """Mode which reports its load/unload instants to the harness."""

    def mode_will_start(self, **kwargs):
        hook = getattr(self.machine, "c18_hook", None)
        if hook is not None:
            hook("will_start", self)

    def mode_stop(self, **kwargs):
        hook = getattr(self.machine, "c18_hook", None)
        if hook is not None:
            hook("stop", self)
