"""C19 - BCP messages round-trip exactly and reassemble from any chunking.

SUT (all real, unmodified): BCPClientSocket.read_message/_process_command on a real asyncio.StreamReader,
BcpTransportManager._receive_loop (one task per client), BcpInterface.process_bcp_message (dispatch to the
registered command coroutine, `trigger` goes through the real _bcp_receive_trigger into the event queue),
encode_command_string/decode_command_string.  The machine is booted with 1-3 BCP connections whose client class
(checks._c19_helpers.FeedClient, a BCPClientSocket subclass overriding connect() only) hands the workload the
StreamReader that would otherwise belong to the TCP connection.

Workload: one generated list of 1-20 messages (url-style and JSON form, with and without `&bytes=n` binary
payloads, `hello` and unknown commands in between) is encoded once; every client gets the *same* byte stream
cut into its own chunks (all at once / byte by byte / per message / cyclic sizes / cuts at interesting
offsets: before and after the newline, inside the `&bytes=` marker, between its digits, inside and at the
end of the payload) fed at its own instants (same callback, same instant, 1 us .. 50 ms apart) while command
handlers of earlier messages may still be waiting (handler hold), under loop stalls and tie permutations.

Oracle (from the statement):
  codec_roundtrip   decode(encode(cmd, kw)) == (cmd, kw) with equal types (nan by isnan, -0.0 keeps its sign)
  stream_mismatch   the n-th message dispatched for a client equals the whole-line decoding of the n-th message
                    sent (+ its payload bytes under `rawbytes`), for every chunking
  stream_order      ... and it is not some other message of the list (reordered / lost / duplicated)
  stream_extra      nothing is dispatched that was not sent
  stream_lost       after the last byte was fed (and faults stopped) every message is dispatched within the sum
                    of the handler holds
  dispatch_overlap  a client's next command is not handed to its handler before the previous handler returned
  trigger_event     a dispatched `trigger` posts exactly that event with exactly those parameters, in order
  crash             no message sequence makes an exception reach the loop (MPF would stop)

Round 2 additions:
  * garbage lines (a minority input class: broken JSON, '&bytes=' without a size, not UTF-8, ...) are mixed into the
    stream; they are outside the codec claim and never dispatched, but the receiver has to survive them and
    deliver the neighbouring messages unchanged (rule crash, sig ...:garbage_line).
  * the parameter name `client` collides with the name under which the dispatcher passes the sending client to
    every handler.  Allowed outcomes for such a message: delivered unchanged, or refused with a BCP `error` reply
    naming the command (then nothing is dispatched for it).  Anything else (MPF stops, silently dropped) is a violation.
"""
import asyncio

from sim.harness import draw_knobs
from checks import _c19_helpers as H

ID = "C19"
LEVEL = "exploration"
RUNS = {"quick": 4000, "thorough": 150000}
WALL_CAP = {"quick": 120, "thorough": 3000}
RULE = ("one case = one generated list of 1-20 BCP messages (parameter dicts over str/int/float/bool/None/nested, "
        "optional binary payload, hello/unknown commands as noise) encoded once and fed as the same byte stream "
        "to 1-3 real BCPClientSocket receive loops of one booted machine, each with its own tape-chosen chunking "
        "and feed instants, with handler holds, loop stalls and tie permutations; non-trivial = at least one "
        "reach probe (cut inside a line / marker / payload, coalesced messages, chunk while handler busy, ...); "
        "distinct = distinct sequence of observed event kinds + cut kinds")
PROBES = ["cut_in_line", "cut_before_nl", "cut_after_nl_before_payload", "cut_in_marker", "cut_after_marker",
          "cut_in_digits", "cut_in_payload", "cut_at_msg_boundary", "coalesced_messages", "chunk_while_handler_busy",
          "one_byte_chunks", "all_at_once", "payload_msg", "payload_with_newline", "payload_with_marker",
          "big_payload", "json_form", "json_form_with_payload", "hello_in_stream", "unknown_cmd_in_stream",
          "trigger_dispatched", "eof_after_stream", "multi_client", "handler_hold", "bad_class_run",
          "same_callback_chunks", "stall_between_chunks", "codec_checked", "debug_logging", "trigger_with_callback", "garbage_line_in_stream",
          "refused_with_error_reply"]
REAL = ["mpf.core.bcp.bcp_socket_client.BCPClientSocket (read_message, _process_command, send, hello)",
        "mpf.core.bcp.bcp_socket_client.encode_command_string/decode_command_string",
        "mpf.core.bcp.bcp_transport.BcpTransportManager (_receive_loop, register/unregister)",
        "mpf.core.bcp.bcp_interface.BcpInterface (process_bcp_message, _bcp_receive_trigger, bcp_reset)",
        "mpf.core.bcp.bcp.Bcp (_setup_bcp_connections)", "asyncio.StreamReader", "mpf.core.events.EventManager",
        "MachineController boot"]
STUBS = ["event loop (SimLoop: virtual time, stalls, tie order)", "clock (SimClock)",
         "TCP socket (FeedClient.connect creates the StreamReader itself; the workload calls feed_data)",
         "StreamWriter towards the media controller (records writes, answers reset with reset_complete)",
         "virtual hardware platform", "in-memory data manager"]
ASSUMPTIONS = ["command names are BCP-style identifiers ([a-z0-9_]+); parameter names are arbitrary non-empty str",
               "the parameter name 'rawbytes' is reserved (it is how the binary payload is handed to the handler)",
               "strings are sequences of Unicode scalar values (no lone surrogates); nested dict keys are str",
               "a line is shorter than the StreamReader limit (64 KiB, asyncio default as used by open_connection)",
               "payload framing as sent by the media controller: '<line>&bytes=<n>\\n' followed by n >= 1 raw bytes",
               "the connection is closed (EOF) only after a complete message",
               "garbage lines end with a newline and do not contain a well-formed '&bytes=<n>' (stream position stays known)",
               "call_soon FIFO order is kept (asyncio guarantees it)"]
STATE_ABSTRACTION = "(chunking mode, kind of cut preceding the chunk, receiver busy in a handler, chunk completes a message)"

REC_CMDS = ["c19_a", "c19_b", "c19_c", "c19_d"]
EVENTS = ["c19_ev0", "c19_ev1", "c19_ev2"]
CLIENT_NAMES = ["local_display", "c19_b", "c19_c"]
MODES = [("all", 2), ("one", 2), ("msg", 1), ("sizes", 4), ("special", 3), ("sizes+special", 3)]
SIZES = [1, 1, 2, 3, 5, 8, 13, 21, 40, 100, 400]
GAPS = [0.0, 0.0, -1, 1e-6, 0.001, 0.01, 0.05]          # -1: fed in the same callback as the previous chunk
CUT_KINDS = ["before_nl", "after_nl", "marker_mid", "after_marker", "digits_mid", "payload_first", "payload_mid",
             "payload_last", "line_mid", "line_first", "msg_end"]
HOLDS = [(0.0, 7), (0.001, 1), (0.01, 1), (0.1, 1)]


# ------------------------------------------------------------------------------------------------
# plan


def _safe_scalar(ch):
    for _ in range(50):
        v = H.gen_scalar(ch)
        if not (isinstance(v, str) and H.str_value_class(v)):
            return v
    return "x"


def _gen_op(ch, allowed):
    """One message whose known-bad input classes are a subset of `allowed`."""
    for _ in range(40):
        kind = ch.weighted("op.kind", [("rec", 10), ("trigger", 3), ("hello", 1), ("unknown", 1)])
        op = {"cmd": None, "kw": None, "payload": None, "hold": 0.0}
        if kind == "rec":
            op["cmd"] = ch.pick("op.cmd", REC_CMDS)
            op["kw"] = H.gen_kwargs(ch)
            if ch.flag("op.payload", 0.25):
                op["payload"] = H.gen_payload(ch)
            op["hold"] = ch.weighted("op.hold", HOLDS)
        elif kind == "trigger":
            op["cmd"] = "trigger"
            kw = {"name": ch.pick("op.ev", EVENTS)}
            kw.update(H.gen_kwargs(ch, keys_plain=H.TRIGGER_KEYS, allow_odd=False))
            kw["name"] = kw["name"] if isinstance(kw["name"], str) else EVENTS[0]
            if ch.flag("op.callback", 0.15):
                # BCP: "callback" names an event to send back once the triggered event has been handled
                kw["callback"] = ch.pick("op.cbval", ["c19_cb", "c19_ev1", "", None, "done & over"])
            op["kw"] = kw
        elif kind == "hello":
            op["cmd"] = "hello"
            op["kw"] = {"version": "1.1", "controller_name": H.gen_string(ch), "controller_version": "0.57"}
        else:
            op["cmd"] = "c19_nohandler"
            op["kw"] = H.gen_kwargs(ch)
        if "rawbytes" in op["kw"] and op["payload"]:
            continue                      # the payload is delivered under this name
        if set(H.bad_classes(op["kw"])) <= set(allowed):
            return op
    return {"cmd": "c19_a", "kw": {"k0": 1}, "payload": None, "hold": 0.0}


def _gen_bad_op(ch, bad):
    """A message that contains exactly the known-bad input class `bad` (F-C19)."""
    cmd = ch.pick("bad.cmd", REC_CMDS)
    kw = {"k0": _safe_scalar(ch)}
    if bad in ("str_type_prefix", "str_type_prefix_invalid", "str_percent_hex"):
        kw[ch.pick("bad.key", ["value", "k1", "name"])] = ch.pick("bad.val", H.BAD_VALUES[bad])
    elif bad == "json_bytes_marker":
        s = ch.pick("bad.val", H.BAD_VALUES[bad])
        where = ch.choice("bad.where", 3)
        if where == 0:
            kw["k1"] = [s]
        elif where == 1:
            kw["k1"] = {"a": s}
        else:
            kw["k1"] = s
            kw["k2"] = [1, 2]
    elif bad == "key_bytes":
        kw["bytes"] = ch.pick("bad.bytes", [5, None, True, 2.5, "abc", ""])
    elif bad == "key_json_first":
        kw = {"json": ch.pick("bad.json", ["abc", "", 5, '{"a": 1}', None, "x=1"])}
        kw["k0"] = _safe_scalar(ch)
    elif bad == "key_client":
        kw["client"] = _safe_scalar(ch)
    elif bad == "garbage_line":
        return {"cmd": "<garbage>", "kw": {}, "payload": None, "hold": 0.0, "raw": ch.pick("bad.raw", H.GARBAGE_LINES)}
    return {"cmd": cmd, "kw": kw, "payload": None, "hold": 0.0}


def _gen_client(ch, first):
    c = {"mode": ch.weighted("cl.mode", MODES),
         "sizes": [ch.pick("cl.size", SIZES) for _ in range(1 + ch.choice("cl.nsizes", 8))],
         "gaps": [ch.pick("cl.gap", GAPS) for _ in range(1 + ch.choice("cl.ngaps", 4))],
         "cuts": [[ch.pick("cl.cutkind", CUT_KINDS), ch.choice("cl.cutwhich", 20), ch.choice("cl.cutoff", 6)]
                  for _ in range(ch.choice("cl.ncuts", 7))],
         "start": ch.pick("cl.start", [0.0, 0.0, 0.001, 0.0105])}
    del first
    return c


def plan(ch, tier):
    del tier
    knobs = draw_knobs(ch)
    bad = None
    if ch.flag("bad.run", 0.15):
        bad = ch.pick("bad.class", H.BAD_CLASSES)
    n = 1 + ch.choice("nops", 20)
    ops = [_gen_op(ch, ()) for _ in range(n)]
    if bad is not None:
        for _ in range(1 + ch.choice("bad.n", 2)):
            ops.insert(ch.choice("bad.pos", len(ops) + 1), _gen_bad_op(ch, bad))
    nclients = ch.weighted("nclients", [(2, 5), (3, 2), (1, 1)])
    clients = [_gen_client(ch, i == 0) for i in range(nclients)]
    return {"knobs": knobs, "ops": ops, "clients": clients, "eof": ch.flag("eof", 0.3), "bad": bad,
            "debug": ch.flag("debug", 0.25)}


def shrink(plan):
    """Simpler candidates: fewer clients, plain chunking, no holds, fewer parameters, no payload."""
    if len(plan["clients"]) > 1:
        for i in range(len(plan["clients"])):
            p = dict(plan)
            p["clients"] = plan["clients"][:i] + plan["clients"][i + 1:]
            yield p
    for i, c in enumerate(plan["clients"]):
        if c["gaps"] != [0.0]:
            p = dict(plan)
            p["clients"] = list(plan["clients"])
            p["clients"][i] = dict(c, gaps=[0.0], start=0.0)
            yield p
        if c["cuts"]:
            p = dict(plan)
            p["clients"] = list(plan["clients"])
            p["clients"][i] = dict(c, cuts=c["cuts"][:-1])
            yield p
        if len(c["sizes"]) > 1:
            p = dict(plan)
            p["clients"] = list(plan["clients"])
            p["clients"][i] = dict(c, sizes=c["sizes"][:1])
            yield p
    if plan.get("eof"):
        yield dict(plan, eof=False)
    if plan.get("debug"):
        yield dict(plan, debug=False)
    for i, op in enumerate(plan["ops"]):
        if op.get("hold"):
            p = dict(plan)
            p["ops"] = list(plan["ops"])
            p["ops"][i] = dict(op, hold=0.0)
            yield p
        if op.get("payload") and len(op["payload"]) > 1:
            p = dict(plan)
            p["ops"] = list(plan["ops"])
            p["ops"][i] = dict(op, payload=op["payload"][:max(1, len(op["payload"]) // 2)])
            yield p
        if len(op["kw"]) > 1:
            for k in list(op["kw"]):
                if op["cmd"] == "trigger" and k == "name":
                    continue
                p = dict(plan)
                p["ops"] = list(plan["ops"])
                p["ops"][i] = dict(op, kw={a: b for a, b in op["kw"].items() if a != k})
                yield p


def warm():
    from sim.machine import preload
    preload("c19")
    import mpf.core.bcp.bcp_socket_client    # noqa: F401
    import mpf.core.bcp.bcp_interface        # noqa: F401


# ------------------------------------------------------------------------------------------------
# stream layout and chunking


def _layout(msgs):
    """msgs: list of dict(line=bytes, payload=bytes|None).  Returns (stream, per-message offsets)."""
    stream = bytearray()
    lay = []
    for m in msgs:
        ls = len(stream)
        line = m["line"]
        mk = None
        if m["payload"] is not None:
            mk = ls + len(line)
            line = line + b"&bytes=" + str(len(m["payload"])).encode()
        stream += line
        nl = len(stream)
        stream += b"\n"
        ps = pe = None
        if m["payload"] is not None:
            ps = len(stream)
            stream += m["payload"]
            pe = len(stream)
        lay.append({"ls": ls, "nl": nl, "mk": mk, "ps": ps, "pe": pe, "end": len(stream)})
    return bytes(stream), lay


def _special_cut(lay, kind, which, off):
    pl = [x for x in lay if x["mk"] is not None]
    if kind in ("marker_mid", "after_marker", "digits_mid", "payload_first", "payload_mid", "payload_last"):
        if not pl:
            return None
        x = pl[which % len(pl)]
        if kind == "marker_mid":
            return x["mk"] + 1 + off % 6
        if kind == "after_marker":
            return x["mk"] + 7
        if kind == "digits_mid":
            return x["mk"] + 8 if x["nl"] - (x["mk"] + 7) >= 2 else None
        if kind == "payload_first":
            return x["ps"] + 1 if x["pe"] - x["ps"] >= 2 else None
        if kind == "payload_mid":
            return (x["ps"] + x["pe"]) // 2
        return x["pe"] - 1
    x = lay[which % len(lay)]
    if kind == "before_nl":
        return x["nl"]
    if kind == "after_nl":
        return x["nl"] + 1
    if kind == "line_mid":
        return (x["ls"] + x["nl"]) // 2
    if kind == "line_first":
        return x["ls"] + 1
    return x["end"]


def _cuts_for(spec, stream, lay):
    total = len(stream)
    cuts = set()
    mode = spec["mode"]
    if mode == "one":
        if total <= 1500:
            cuts.update(range(1, total))
        else:
            # byte by byte through every line and the edges of every payload, 257-byte steps inside big payloads
            for x in lay:
                cuts.update(range(x["ls"], x["nl"] + 2))
                if x["ps"] is not None:
                    n = x["pe"] - x["ps"]
                    if n <= 64:
                        cuts.update(range(x["ps"], x["pe"] + 1))
                    else:
                        cuts.update(range(x["ps"], x["ps"] + 20))
                        cuts.update(range(x["pe"] - 20, x["pe"] + 1))
                        cuts.update(range(x["ps"] + 20, x["pe"] - 20, 257))
    elif mode == "msg":
        cuts.update(x["end"] for x in lay)
    if "sizes" in mode:
        sizes = list(spec["sizes"])
        while total / (sum(sizes) / len(sizes)) > 1500:
            sizes = [s * 4 for s in sizes]
        p = 0
        i = 0
        while p < total:
            p += sizes[i % len(sizes)]
            i += 1
            cuts.add(p)
    if "special" in mode:
        for kind, which, off in spec["cuts"]:
            c = _special_cut(lay, kind, which, off)
            if c is not None:
                cuts.add(c)
    return sorted(c for c in cuts if 0 < c < total)


def _cut_kind(p, lay):
    """What lies at stream offset p (the first byte of a chunk)."""
    for x in lay:
        if p == x["ls"]:
            return "cut_at_msg_boundary"
        if x["ls"] < p < x["end"]:
            if p < x["nl"]:
                if x["mk"] is not None:
                    if x["mk"] < p < x["mk"] + 7:
                        return "cut_in_marker"
                    if p == x["mk"] + 7:
                        return "cut_after_marker"
                    if p > x["mk"] + 7:
                        return "cut_in_digits"
                return "cut_in_line"
            if p == x["nl"]:
                return "cut_before_nl"
            if p == x["nl"] + 1:
                return "cut_after_nl_before_payload"
            return "cut_in_payload"
    return "cut_at_msg_boundary"


# ------------------------------------------------------------------------------------------------
# execute


class _Client:

    def __init__(self, name, spec):
        self.name = name
        self.spec = spec
        self.next = 0            # number of messages dispatched so far
        self.in_handler = None   # index of the message whose handler is running
        self.failed_in = None    # index of the message whose handler raised
        self.rejected = {}       # cmd -> number of messages accounted for by an `error` reply
        self.chunks = []
        self.ci = 0
        self.fed_done = False
        self.obj = None


def _codec_sig(kw, got_kw, raised):
    """Signature of a codec mismatch: input class of the offending parameter + what happened to it."""
    classes = H.bad_classes(kw)
    if raised is not None:
        return "%s:raises:%s" % ("+".join(sorted(classes)) or "clean", type(raised).__name__)
    if not isinstance(got_kw, dict):
        return "%s:not_a_dict" % ("+".join(sorted(classes)) or "clean")
    parts = set()
    from urllib.parse import unquote
    for k in sorted(set(kw) | set(got_kw)):
        if k in kw and k in got_kw and H.typed_eq(kw[k], got_kw[k]):
            continue
        cls = sorted(c for c, keys in classes.items() if k in keys)
        c = "+".join(cls) or "clean"
        what = "other"
        if k in kw and k in got_kw:
            sent, got = kw[k], got_kw[k]
            if cls == ["str_percent_hex"] and isinstance(got, str) and got == unquote(sent):
                what = "unquoted_twice"
            elif cls == ["str_type_prefix"] and not isinstance(got, str):
                what = "retyped"
        else:
            what = "missing" if k in kw else "added"
        parts.add("%s:%s" % (c, what))
    return "+".join(sorted(parts)) or "cmd"


def execute(ctx, plan):
    from mpf.core.bcp.bcp_socket_client import encode_command_string, decode_command_string

    ops = plan["ops"]
    if not ops:
        from sim.harness import Discard
        raise Discard("no messages")
    st = {"clients": [], "ops": ops, "ref": [], "sim": None}
    ctx.c19 = st

    # ---- codec half (pure; checked on the same traffic) -------------------------------------
    msgs = []
    ref = []        # messages that must be dispatched, in order: dict(op index, cmd, kwargs, hold)
    for i, op in enumerate(ops):
        cmd, kw = op["cmd"], op["kw"]
        if op.get("raw") is not None:
            # a line no encoder produces: not part of the codec claim, never dispatched, must be survived
            ctx.probe("garbage_line_in_stream")
            ctx.log("garbage", i, op["raw"])
            msgs.append({"line": op["raw"].encode("latin-1"), "payload": None, "op": i})
            continue
        payload = op["payload"].encode("latin-1") if op.get("payload") else None
        try:
            line = encode_command_string(cmd, **kw)
        except Exception as e:      # pylint: disable=broad-except
            ctx.violation("codec_roundtrip", "encode_raises:%s" % type(e).__name__,
                          "encode_command_string(%r, **%s) raised %r" % (cmd, H.short(kw), e))
            continue
        if "\n" in line or "\r" in line:
            ctx.violation("codec_roundtrip", "not_a_single_line", "encoding of %r %s contains a line break: %r"
                          % (cmd, H.short(kw), line))
        raised = None
        dcmd = dkw = None
        try:
            dcmd, dkw = decode_command_string(line)
        except Exception as e:      # pylint: disable=broad-except
            raised = e
        ctx.probe("codec_checked")
        if H.is_json_form(kw):
            ctx.probe("json_form")
            if payload is not None:
                ctx.probe("json_form_with_payload")
        ok = raised is None and dcmd == cmd and isinstance(dkw, dict) and H.typed_eq(kw, dkw)
        ctx.log("codec", i, cmd, line, ok)
        if not ok:
            ctx.violation("codec_roundtrip", _codec_sig(kw, dkw, raised) if (raised is not None or dcmd == cmd)
                          else "cmd", "message %d: %r %s encodes to %r which decodes to %s"
                          % (i, cmd, H.short(kw, 300), line, ("exception %r" % raised) if raised is not None
                             else "%r %s" % (dcmd, H.short(dkw, 300))))
        msgs.append({"line": line.encode(), "payload": payload, "op": i})
        if payload is not None:
            ctx.probe("payload_msg")
            if b"\n" in payload:
                ctx.probe("payload_with_newline")
            if b"&bytes=" in payload:
                ctx.probe("payload_with_marker")
            if len(payload) > 65536:
                ctx.probe("big_payload")
        if cmd == "hello":
            continue                        # consumed by the socket client itself, never dispatched
        if cmd == "c19_nohandler":
            continue                        # unknown command: logged by MPF, nothing to dispatch to
        # reference for the stream half: the whole-line decoding (differential against the chunked stream);
        # when the pure decoding raised there is no reference - the stream is expected to do the same (on_crash)
        if raised is None and isinstance(dkw, dict):
            exp = dict(dkw)
        else:
            exp = None
        if exp is not None and payload:
            exp["rawbytes"] = payload
        # `client` is the name under which the dispatcher hands the sending client to every command handler: a
        # parameter of that name cannot be delivered.  Allowed outcomes: delivered unchanged, or refused with a
        # BCP `error` reply naming the command (and nothing dispatched).  Stopping MPF is not allowed.
        ref.append({"op": i, "cmd": cmd, "kwargs": exp, "hold": op.get("hold") or 0.0,
                    "may_reject": "client" in kw})
    st["ref"] = ref
    if plan.get("bad") or any(H.op_classes(op) for op in ops):
        ctx.probe("bad_class_run")

    # ---- boot ------------------------------------------------------------------------------
    names = CLIENT_NAMES[:max(1, min(len(plan["clients"]), len(CLIENT_NAMES)))]
    conns = {n: {"type": "checks._c19_helpers.FeedClient", "host": "sim", "port": 5050, "required": True,
                 "exit_on_close": False} for n in names}
    patches = {"bcp": {"_overwrite": True, "connections": conns, "servers": []}}
    if plan.get("debug"):
        # config swarm: debug logging switches on the "Received ..."/"Processing command ..." paths
        # (process_bcp_message copies the kwargs and replaces the payload for the log line)
        patches["logging"] = {"console": {"bcp_interface": "full", "bcp_client": "full", "bcp": "full"}}
        ctx.probe("debug_logging")
    sim = ctx.new_sim("c19", bcp=True, patches=patches)
    st["sim"] = sim
    sim.boot()
    m = sim.machine
    loop = sim.loop
    interface = m.bcp.interface
    transport = m.bcp.transport
    assert interface.configured and m.bcp.enabled
    clients = []
    for n, spec in zip(names, plan["clients"]):
        c = _Client(n, spec)
        c.obj = transport.get_named_client(n)
        assert isinstance(c.obj, H.FeedClient), "client %s not registered: %r" % (n, c.obj)
        clients.append(c)
    st["clients"] = clients
    by_obj = {}
    for c in clients:
        by_obj[c.obj.name] = c
    if len(clients) > 1:
        ctx.probe("multi_client")

    # ---- observation: command handlers -----------------------------------------------------
    pending_triggers = []       # (event name, kwargs) dispatched to the real trigger handler, event not yet seen

    def error_replies(c, cmd):
        n = 0
        for line in c.obj._sender.lines:
            if line.startswith(b"error?"):
                try:
                    if decode_command_string(line[:-1].decode())[1].get("cmd") == cmd:
                        n += 1
                except Exception:      # pylint: disable=broad-except
                    pass
        return n

    def skip_rejected(c, cmd=None, kwargs=None):
        """Step over messages the dispatcher refused with an `error` reply (only those it is allowed to refuse)."""
        while c.next < len(ref) and ref[c.next]["may_reject"]:
            r = ref[c.next]
            if cmd is not None and r["kwargs"] is not None and cmd == r["cmd"] and H.typed_eq(kwargs, r["kwargs"]):
                break                                   # delivered after all
            if c.rejected.get(r["cmd"], 0) >= error_replies(c, r["cmd"]):
                break                                   # no error reply accounts for it
            c.rejected[r["cmd"]] = c.rejected.get(r["cmd"], 0) + 1
            ctx.log("rejected", c.name, c.next, r["cmd"], t=loop.time())
            ctx.probe("refused_with_error_reply")
            c.next += 1
        return c.next

    def on_dispatch(client, cmd, kwargs):
        c = by_obj[client.name]
        now = loop.time()
        i = skip_rejected(c, cmd, kwargs)
        ctx.log("dispatch", c.name, i, cmd, H.short(kwargs, 200), t=now)
        if c.in_handler is not None:
            ctx.violation("dispatch_overlap", "overlap", "client %s: message %d (%s) handed to its handler at %.6f "
                          "while the handler of message %d is still running" % (c.name, i, cmd, now, c.in_handler))
        if i >= len(ref):
            c.next += 1
            ctx.violation("stream_extra", "extra", "client %s (%s): dispatched %r %s after all %d sent messages"
                          % (c.name, c.spec["mode"], cmd, H.short(kwargs, 300), len(ref)))
            return None
        exp = ref[i]
        c.next += 1
        if exp["kwargs"] is None:
            # the whole-line decoding raised; the stream delivered something instead
            ctx.violation("stream_mismatch", "delivered_undecodable", "client %s: message %d has no whole-line "
                          "decoding (it raises) but the stream dispatched %r %s" % (c.name, i, cmd, H.short(kwargs)))
            return exp
        if cmd == exp["cmd"] and H.typed_eq(kwargs, exp["kwargs"]):
            return exp
        other = [j for j, r in enumerate(ref) if j != i and r["kwargs"] is not None and r["cmd"] == cmd and
                 H.typed_eq(kwargs, r["kwargs"])]
        where = "client %s (chunking %s, chunk %d/%d)" % (c.name, c.spec["mode"], c.ci, len(c.chunks))
        if other:
            ctx.violation("stream_order", "order", "%s: dispatch #%d is message %d of the list (%r), expected message "
                          "%d (%r %s)" % (where, i, other[0], cmd, i, exp["cmd"], H.short(exp["kwargs"])))
        else:
            sig = "content"
            if cmd == exp["cmd"] and isinstance(kwargs, dict):
                a = {k: v for k, v in kwargs.items() if k != "rawbytes"}
                b = {k: v for k, v in exp["kwargs"].items() if k != "rawbytes"}
                if H.typed_eq(a, b):
                    sig = "payload"
            ctx.violation("stream_mismatch", sig, "%s: dispatch #%d is %r %s, the whole-line decoding of message %d "
                          "is %r %s" % (where, i, cmd, H.short(kwargs, 400), i, exp["cmd"],
                                        H.short(exp["kwargs"], 400)))
        return exp

    def make_handler(cmd, inner=None):
        async def handler(client, **kwargs):
            exp = on_dispatch(client, cmd, kwargs)
            c = by_obj[client.name]
            idx = c.next - 1
            c.in_handler = idx
            entry = None
            try:
                if inner is not None:
                    # relaxation: the statement says nothing about how `name`/`callback` of a trigger are presented
                    # to the event handlers; every other parameter must arrive unchanged
                    entry = (kwargs.get("name"), {k: v for k, v in kwargs.items() if k not in ("name", "callback")})
                    pending_triggers.append(entry)
                    ctx.probe("trigger_dispatched")
                    if kwargs.get("callback"):
                        ctx.probe("trigger_with_callback")
                    await inner(client=client, **kwargs)
                hold = exp["hold"] if exp else 0.0
                if hold:
                    ctx.probe("handler_hold")
                    await asyncio.sleep(hold)
            except BaseException:
                c.failed_in = idx           # for on_crash: the handler of this message raised
                if entry is not None and any(e is entry for e in pending_triggers):
                    pending_triggers[:] = [e for e in pending_triggers if e is not entry]
                raise
            finally:
                c.in_handler = None
        return handler

    for cmd in REC_CMDS:
        interface.register_command_callback(cmd, make_handler(cmd))
    interface.register_command_callback("trigger", make_handler("trigger", interface.bcp_receive_commands["trigger"]))

    def make_ev_handler(name):
        def on_ev(**kwargs):
            ctx.log("event", name, H.short(kwargs, 200), t=loop.time())
            if not pending_triggers:
                ctx.violation("trigger_event", "unexpected", "event %s %s posted without a dispatched trigger"
                              % (name, H.short(kwargs)))
                return
            ename, ekw = pending_triggers.pop(0)
            got = {k: v for k, v in kwargs.items() if k not in ("_from_bcp", "name", "callback")}
            if ename != name or not H.typed_eq(got, ekw) or kwargs.get("_from_bcp") is not True:
                ctx.violation("trigger_event", "differs", "trigger %s %s was posted as event %s %s"
                              % (ename, H.short(ekw), name, H.short(kwargs)))
        return on_ev

    for ev in EVENTS:
        m.events.add_handler(ev, make_ev_handler(ev))

    # ---- chunking ----------------------------------------------------------------------------
    stream, lay = _layout(msgs)
    ends = [x["end"] for x in lay]
    for c in clients:
        cuts = _cuts_for(c.spec, stream, lay)
        bounds = [0] + cuts + [len(stream)]
        c.chunks = [(bounds[k], bounds[k + 1]) for k in range(len(bounds) - 1) if bounds[k + 1] > bounds[k]]
        ctx.shape(c.spec["mode"], len(c.chunks))
        if len(c.chunks) == 1:
            ctx.probe("all_at_once")
        elif len(c.chunks) == len(stream):
            ctx.probe("one_byte_chunks")
    for n, x in enumerate(msgs):
        if ops[x["op"]]["cmd"] == "hello":
            ctx.probe("hello_in_stream")
        elif ops[x["op"]]["cmd"] == "c19_nohandler":
            ctx.probe("unknown_cmd_in_stream")

    last_feed = {}

    def feed_next(c):
        now = loop.time()
        first = True
        while True:
            a, b = c.chunks[c.ci]
            kind = _cut_kind(a, lay) if a else "start"
            done_msgs = sum(1 for e in ends if a < e <= b)
            busy = c.in_handler is not None
            ctx.log("feed", c.name, c.ci, a, b, kind, busy, t=now)
            ctx.shape(kind)
            if a:
                ctx.probe(kind)
            if done_msgs >= 2:
                ctx.probe("coalesced_messages")
            if busy:
                ctx.probe("chunk_while_handler_busy")
            if not first:
                ctx.probe("same_callback_chunks")
            if loop.stall_log and loop.stall_log[-1][1] == now and c.ci:
                ctx.probe("stall_between_chunks")
            ctx.state(c.spec["mode"], kind, busy, done_msgs > 0)
            c.obj._receiver.feed_data(stream[a:b])
            c.ci += 1
            first = False
            if c.ci >= len(c.chunks):
                c.fed_done = True
                last_feed[c.name] = now
                return
            gap = c.spec["gaps"][(c.ci - 1) % len(c.spec["gaps"])]
            if gap < 0:
                continue
            sim.at(now + gap, feed_next, c)
            return

    t0 = loop.time()
    for c in clients:
        sim.at(t0 + c.spec["start"], feed_next, c)

    guard = 0
    while not all(c.fed_done for c in clients):
        sim.run(0.25)
        guard += 1
        if guard > 4000:
            raise AssertionError("feeding did not finish")
    # faults stop here.  Everything fed; what is left is at most the holds of the messages not yet handled.
    bound = sum(r["hold"] for r in ref) + 0.05
    sim.run_quiet(bound)

    # ---- end-of-stream checks ------------------------------------------------------------------
    undecodable = [r for r in ref if r["kwargs"] is None]
    for c in clients:
        skip_rejected(c)
        ctx.log("end", c.name, c.next, len(ref), t=loop.time())
        if c.next < len(ref) and not undecodable:
            buf = len(c.obj._receiver._buffer)
            ctx.violation("stream_lost", "lost", "client %s (chunking %s, %d chunks): %d of %d messages dispatched %.3f s "
                          "after the last byte was fed (next expected: message %d %r); %d bytes left in the reader"
                          % (c.name, c.spec["mode"], len(c.chunks), c.next, len(ref), bound, c.next,
                             ref[c.next]["cmd"], buf))
        if c.in_handler is not None:
            ctx.violation("stream_lost", "handler_stuck", "client %s: handler of message %d still running"
                          % (c.name, c.in_handler))
    if pending_triggers and not undecodable:
        ctx.violation("trigger_event", "missing", "triggers dispatched but never posted as events: %s"
                      % H.short(pending_triggers))
    if undecodable:
        # a message whose whole-line decoding raises must have stopped MPF (reported through on_crash);
        # reaching this point means the stream silently skipped or mangled it
        ctx.violation("stream_mismatch", "undecodable_skipped", "message %d cannot be decoded as a whole line, "
                      "yet the receive loops survived it" % undecodable[0]["op"])

    if plan.get("eof"):
        ctx.probe("eof_after_stream")
        before = [c.next for c in clients]
        for c in clients:
            c.obj._receiver.feed_eof()
        sim.run_quiet(0.05)
        for c, n in zip(clients, before):
            ctx.log("eof", c.name, c.next, t=loop.time())
            if c.next != n:
                ctx.violation("stream_extra", "after_eof", "client %s: %d dispatches after EOF" % (c.name, c.next - n))


# ------------------------------------------------------------------------------------------------
# crash classification: a legal message sequence must not stop MPF


def on_crash(ctx, crash):
    st = getattr(ctx, "c19", None)
    exc = crash.exc
    if st is None or exc is None:
        return None
    func = "?"
    tb = exc.__traceback__
    while tb is not None:
        fn = tb.tb_frame.f_code.co_filename
        if "/mpf/core/bcp/" in fn:
            func = tb.tb_frame.f_code.co_name
        tb = tb.tb_next
    # which receive loop died, and on which message(s)
    culprit = None
    sim = st["sim"]
    readers = getattr(sim.machine.bcp.transport, "_readers", {}) if sim is not None else {}
    for c in st["clients"]:
        task = readers.get(c.obj)
        if task is not None and task.done() and not task.cancelled() and task.exception() is exc:
            culprit = c
            break
    ref, ops = st["ref"], st["ops"]
    classes = set()
    window = "?"
    if culprit is not None:
        if culprit.failed_in is not None and culprit.failed_in < len(ref):
            lo = hi = ref[culprit.failed_in]["op"]            # raised inside the handler of this message
        else:
            n = culprit.next                                   # raised before the next dispatch
            lo = ref[n - 1]["op"] + 1 if 0 < n <= len(ref) else 0
            hi = ref[n]["op"] if n < len(ref) else len(ops) - 1
        window = "%d..%d" % (lo, hi) if lo <= hi else "none (all %d messages were consumed)" % len(ops)
        for op in ops[lo:hi + 1]:
            classes.update(H.op_classes(op))
    sig = "%s:%s:%s" % (type(exc).__name__, func, "+".join(sorted(classes)) or "clean")
    msg = ("%r reached the event loop (MPF stops) in %s; receive loop of client %s (chunking %s) after %s dispatched "
           "messages, while processing message(s) %s: %s"
           % (exc, func, culprit.name if culprit else "?", culprit.spec["mode"] if culprit else "?",
              culprit.next if culprit else "?", window,
              H.short([(o["cmd"], o.get("raw") or o["kw"]) for o in ops[lo:hi + 1]] if culprit is not None else None, 500)))
    return "crash", sig, msg
