"""Hand-made mutants of mpf used to measure the sensitivity of checks/c01_events.py (not part of the check).

Usage (scratch worktree with the proposed C01 fix applied, see tools/AGENT_BRIEF.md):
    git -C /repo worktree add --detach /tmp/wt_C01 HEAD
    git -C /tmp/wt_C01 apply /verif/proposed_fixes/C01-fastpath-drops-event-before-late-handler.diff
    MUT_RUNS=400 /venv/bin/python /verif/checks/_c01_mutants.py [names...]
    git -C /repo worktree remove --force /tmp/wt_C01
M*/H* = property-breaking mutants (check must exit 1), L* = legal alternative implementations that exercise
the relaxations R1-R5 (check must exit 0).  Result of the last run is recorded in the final report of C01.
"""
import subprocess, sys, os
BASE = open('/tmp/wt_C01/mpf/core/events.py').read()
WT = '/tmp/wt_C01/mpf/core/events.py'
M = {}
M['M1_inner_append'] = ('''                        inner_queue.appendleft(next_queue)''', '''                        inner_queue.append(next_queue)''')
M['M2_cb_after_leaf'] = ('''                    if self.event_queue:
                        inner_queue.appendleft(next_queue)
                        next_queue = self.event_queue
                        self.event_queue = deque()
''', '''                    if self.event_queue:
                        inner_queue.appendleft(next_queue)
                        next_queue = self.event_queue
                        self.event_queue = deque()
                    elif self.callback_queue:
                        callback, kwargs = self.callback_queue.pop()
                        callback(**kwargs)
''')
M['M3_no_snapshot'] = ('''        result = None
        for handler in self.registered_handlers[event][:]:''', '''        result = None
        for handler in self.registered_handlers[event]:''')
M['M4_merge_reversed'] = ('''                # in case of conflict, handler kwargs will win
                merged_kwargs = dict(list(kwargs.items()) + list(handler.kwargs.items()))''', '''                # in case of conflict, handler kwargs will win
                merged_kwargs = dict(list(handler.kwargs.items()) + list(kwargs.items()))''')
M['M5_default_prio_no_sort'] = ('''        if len(self.registered_handlers[event]) > 1:
            self.registered_handlers[event].sort''', '''        if len(self.registered_handlers[event]) > 1 and priority != 1:
            self.registered_handlers[event].sort''')
M['M6_false_stops_any'] = ('''            if ev_type == 'boolean' and result is False:''', '''            if ev_type in ('boolean', 'relay') and result is False:''')
M['M10_inner_pop_oldest'] = ('''                        next_queue = inner_queue.popleft()''', '''                        next_queue = inner_queue.pop()''')
M['M13_dict_updates_any'] = ('''            if ev_type == 'relay' and isinstance(result, dict):''', '''            if ev_type != 'boolean' and isinstance(result, dict):''')
M['M14_cb_lost_on_false'] = ('''        if callback:
            # For event types other than queue, we'll handle the callback here.''', '''        if callback and (result is not False or ev_type == 'boolean'):
            # For event types other than queue, we'll handle the callback here.''')
M['M15_rm_method_first_only'] = ('''                if handler_tup[0] == method:
                    handler_list.remove(handler_tup)
                    if self._debug:
                        self._pretty_log_removed_handler(method, event)
                    events_to_delete_if_empty.append(event)
''', '''                if handler_tup[0] == method:
                    handler_list.remove(handler_tup)
                    if self._debug:
                        self._pretty_log_removed_handler(method, event)
                    events_to_delete_if_empty.append(event)
                    break
''')
M['M16_cb_before_children'] = ('''            if self.callback_queue:
                callback, kwargs = self.callback_queue.pop()
                callback(**kwargs)''', '''            if self.callback_queue:
                callback, kwargs = self.callback_queue.pop()
                callback(**kwargs)
                while self.callback_queue and not self.event_queue:
                    callback, kwargs = self.callback_queue.pop()
                    callback(**kwargs)''')
M['M19_cb_twice_on_result'] = ("""            if result:
                # if our last handler returned something, add it to kwargs
                kwargs['ev_result'] = result
""", """            if result:
                # if our last handler returned something, add it to kwargs
                kwargs['ev_result'] = result
                self.callback_queue.append((callback, kwargs))
""")
M['M23_fastpath_when_waiting'] = ("""                not self._processing_queue and not self.event_queue:""", """                not self._processing_queue:""")
M['L28_legal_sync_dispatch'] = ("""        self.event_queue.append(posted_event)
""", """        self.event_queue.append(posted_event)
        if not self._processing_queue:
            self.process_event_queue()
""")
M['M31_relay_existing_keys_only'] = ("""                kwargs.update(result)
            elif""", """                kwargs.update({k: v for k, v in result.items() if k in kwargs})
            elif""")
M['M34_cond_false_breaks'] = ("""            # if condition exists and is not true skip
            if handler.condition is not None and not handler.condition.evaluate(merged_kwargs):
                continue

            if self._debug:
                self.debug_log("%s (priority: %s) responding to event '%s'"
                               " with args %s",
                               self._pretty_format_handler(handler.callback), handler.priority,
                               event, merged_kwargs)

            # call the handler and save the results
            try:
                result""", """            # if condition exists and is not true skip
            if handler.condition is not None and not handler.condition.evaluate(merged_kwargs):
                break

            if self._debug:
                self.debug_log("%s (priority: %s) responding to event '%s'"
                               " with args %s",
                               self._pretty_format_handler(handler.callback), handler.priority,
                               event, merged_kwargs)

            # call the handler and save the results
            try:
                result""")
M['M38_rm_by_event_all_events'] = ("""        events_to_delete_if_empty = []
        if event in self.registered_handlers:
            for handler_tup in self.registered_handlers[event][:]:
                if handler_tup[0] == handler:""", """        events_to_delete_if_empty = []
        if event in self.registered_handlers:
            self.remove_handler(handler)
            for handler_tup in self.registered_handlers[event][:]:
                if handler_tup[0] == handler:""")
M['H1_inner_pop_oldest_when_3'] = ("""                        next_queue = inner_queue.popleft()""", """                        next_queue = inner_queue.pop() if len(inner_queue) >= 3 else inner_queue.popleft()""")
M['H6_inner_maxlen4'] = ("""        inner_queue = deque()   # type: Deque[Deque[PostedEvent]]
        while self.event_queue or self.callback_queue:""", """        inner_queue = deque(maxlen=4)   # type: Deque[Deque[PostedEvent]]
        while self.event_queue or self.callback_queue:""")
M['H10_rm_key_by_callback'] = ("""        for handler_tup in self.registered_handlers[key.event][:]:  # copy via slice
            if handler_tup.key == key.key:""", """        callbacks = [h.callback for h in self.registered_handlers[key.event] if h.key == key.key]
        for handler_tup in self.registered_handlers[key.event][:]:  # copy via slice
            if handler_tup.callback in callbacks:""")
M['H11_replace_ignores_kwargs'] = ("""                    if rh[0] == handler and rh[2] == kwargs:""", """                    if rh[0] == handler:""")
DELAYS = {}
DELAYS['H2_delay_own_events_first'] = ("""        callback(**kwargs)
        self.machine.events.process_event_queue()""", """        waiting = self.machine.events.event_queue
        self.machine.events.event_queue = type(waiting)()
        callback(**kwargs)
        self.machine.events.process_event_queue()
        self.machine.events.event_queue.extend(waiting)""")
M['L40_skip_removed'] = ("""            if '_min_priority' in kwargs and handler.blocking_facility and \\""", """            if handler not in self.registered_handlers.get(event, []):
                continue
            if '_min_priority' in kwargs and handler.blocking_facility and \\""")
M['L41_fifo_callbacks'] = ("""                callback, kwargs = self.callback_queue.pop()""", """                callback, kwargs = self.callback_queue.popleft()""")
M['L42_cond_on_posted'] = ("""            # if condition exists and is not true skip
            if handler.condition is not None and not handler.condition.evaluate(merged_kwargs):
                continue

            if self._debug:
                self.debug_log("%s (priority: %s) responding to event '%s'"
                               " with args %s",
                               self._pretty_format_handler(handler.callback), handler.priority,
                               event, merged_kwargs)

            # call the handler and save the results
            try:
                result""", """            # if condition exists and is not true skip
            if handler.condition is not None and not handler.condition.evaluate(kwargs):
                continue

            if self._debug:
                self.debug_log("%s (priority: %s) responding to event '%s'"
                               " with args %s",
                               self._pretty_format_handler(handler.callback), handler.priority,
                               event, merged_kwargs)

            # call the handler and save the results
            try:
                result""")
M['L43_ties_reversed'] = ("""        self.registered_handlers[event].append(RegisteredHandler(handler, priority, kwargs, key, condition,
                                                                 blocking_facility))""", """        self.registered_handlers[event].insert(0, RegisteredHandler(handler, priority, kwargs, key, condition,
                                                                    blocking_facility))""")
names = sys.argv[1:] or (list(M) + list(DELAYS))
runs = os.environ.get("MUT_RUNS", "400")
DBASE = open('/tmp/wt_C01/mpf/core/delays.py').read()
DWT = '/tmp/wt_C01/mpf/core/delays.py'
for n in names:
    open(WT, 'w').write(BASE)
    open(DWT, 'w').write(DBASE)
    if n in DELAYS:
        old, new = DELAYS[n]
        assert DBASE.count(old) == 1, (n, DBASE.count(old))
        open(DWT, 'w').write(DBASE.replace(old, new))
    else:
        old, new = M[n]
        assert BASE.count(old) == 1, (n, BASE.count(old))
        open(WT, 'w').write(BASE.replace(old, new))
    ut = subprocess.run(['/venv/bin/python', '-m', 'unittest', 'mpf.tests.test_EventManager', 'mpf.tests.test_Delay', 'mpf.tests.test_SwitchController'],
                        cwd='/tmp/wt_C01', capture_output=True, text=True)
    utl = [l for l in ut.stderr.splitlines() if l.startswith(('OK', 'FAILED', 'Ran'))]
    ck = subprocess.run(['./check', 'C01', '--runs', runs, '--jobs', '3'], cwd='/verif', capture_output=True, text=True,
                        env=dict(os.environ, VERIF_REPO='/tmp/wt_C01'))
    v = [l for l in ck.stdout.splitlines() if l.startswith(('VIOLATION', '  rule=', 'HARNESS', 'DETERMINISM'))]
    print("=== %s: unit tests: %s | check exit %d" % (n, ' '.join(utl), ck.returncode))
    for l in v[:4]:
        print("   ", l[:260])
    sys.stdout.flush()
open(WT, 'w').write(BASE)
open(DWT, 'w').write(DBASE)
