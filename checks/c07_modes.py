"""C07 - Mode lifecycle is well-formed and leaves nothing behind.

SUT: real ModeController / Mode / ConfigPlayers / mode devices of the machine in /verif/machines/c07
(nine modes: plain, hi, lo, wq (use_wait_queue), dev (counters, accrual, timers, combo switch; delayed control events
"event: 150ms" on the counters and the accrual, as on the shots/group/counter of gshots - a delayed one is followed by a
stop of its mode inside the delay in half of the cases),
players (event/variable/light/show/coil/queue_relay players, conditional and subscription entries),
coded (custom Mode subclass registering delays, switch handlers, event handlers), gm (plain game mode), gshots (game mode
with persisted devices: three shots (persist_enable default and off, start_enabled and enabled by event, delay_switch,
enable/disable/restart/reset/advance/hit events), a shot group, a persisted counter, a timer; started by ball_started)).
In 40 % of the runs a device-less game is played (as mpf/tests/MpfFakeGameTestCase.py: playfield.add_ball replaced, balls
end through the ball_drain relay event): start by start button, add player, drain (ball end auto-stops the game modes, the
next ball restarts gshots), end_game, new game; redundant enable/disable/restart events and switch hits on the shots.

Workload: a generated history of start/stop requests (direct, by event, by queue event, grouped, bursts in one
instant), trigger events for everything the modes registered, machine-variable flips, switch changes, and *hooks*:
handlers on the modes' own lifecycle events that issue further requests and/or hold the queue events
mode_<m>_starting / mode_<m>_stopping for a tape-chosen time.  Operations are placed on pending deadlines of MPF's own
timers, so they race with ticks and delays; the scheduler adds stalls and tie permutations.

Oracle (written from the statement):
  event_order      per mode the lifecycle events follow the cycle will_start, starting, started, will_stop, stopping,
                   stopped - each exactly once per transition.
  flags            mode.active is False until `started` is posted, True from `started` to `will_stop`, False when
                   `stopped` is posted; mode.starting is True exactly between will_start and started.
                   (relaxation R2: whether a *stopping* mode still counts as active is left open by the statement.)
  active_list      at every posted event: mode_controller.active_modes has exactly the modes with active == True, no
                   duplicates, priorities non-increasing (relaxation R1: order among equal priorities is open).
  request_ignored  a request issued at a quiet instant (nothing queued on the bus) to a settled mode must be accepted:
                   start of a stopped mode -> will_start, stop of an active mode -> will_stop (direct: synchronously,
                   by event: within the same dispatch).  Requests issued from handlers are only judged by the other rules.
  refused          a game mode is not started while no game / no player turn is running (and is, when asked at a quiet
                   instant inside a running turn: request_ignored).
  liveness         after the last hold has been cleared and the loop ran fault-free for a bound derived from the
                   longest hold, no mode is left between two states.
  callbacks        start(callback=) / stop(callback=) / post_queue(start_<m>, callback) complete exactly once when
                   accepted, never when refused.
  registry         at every quiet instant at which all test modes are stopped (1 ms after every `stopped`, before every
                   operation, at checkpoints, 6 s after the end), the canonical address-free snapshot of the registries
                   (event handlers, switch handlers incl. armed timed ones, per-mode bookkeeping, every DelayManager,
                   config-player key/instance/block tables, light stacks, enabled coils, timers, logic-block state,
                   unfinished queue-event tasks, everything scheduled on the clock) equals the snapshot taken before
                   the first start (see _c07_helpers.snapshot).
                   R3: compared from the first instant *after* the last lifecycle event on (clean-up through call_soon,
                   e.g. done-callbacks of cancelled futures, is given the rest of that instant).
                   R4: the switch controller's wake-up timer for timed handlers may stay scheduled with nothing to do.
                   R6: empty containers (instances['show_<n>'] = {}, blocks[x] = []) are not registrations.
                   R7: while a game runs (or starts/ends) the rest of the machine legitimately differs from the snapshot
                   taken before the game; then only the items that mention a test mode or one of its devices are compared
                   (they must be exactly those of the pre-start snapshot).  After the game ended and attract is back
                   the full comparison applies again.
  fired_inactive   a handler/delay/switch handler registered by the custom mode code runs while the mode is not active
                   (relaxation R5: not judged in the very instant in which mode_<m>_stopped is posted - the stop completes
                   when that event has been dispatched).
  stop_lost        a direct stop() that returned True (accepted: carried out at once or put off until a held start / the
                   pending mode_start() has completed) makes the run in progress reach `stopped` by the next fault-free
                   settle, without any further request.  (Stops by event have no visible verdict; they are judged only when
                   issued at a quiet instant to a settled active mode: request_ignored.)
  wait_queue       use_wait_queue modes started by a queue event: that queue event is not released before/while its run
                   is running, and is released (exactly once) after the run posted mode_<m>_stopped - judged at the next
                   fault-free settle, not only at the end; at quiescence no start queue of a stopped mode is still held.
  mpf_crash        an exception reaches the loop's exception handler.

Clean on /repo 9e48a14 + proposed_fixes/C07-1, -3, -4, -5, -6, -7 (C07-2 and C02's two queue-event repairs are already in
/repo); without them the check reports the genuine violations described in those files (replays/C07-finding-*.json).
Recorded, not repaired: known_findings.d/C07.json (delayed event_player entries outlive their mode).
"""
import re
from functools import partial

from sim.harness import draw_knobs
from checks import _c07_helpers as H

ID = "C07"
LEVEL = "exploration"
RUNS = {"quick": 1000, "thorough": 30000}
WALL_CAP = {"quick": 150, "thorough": 3000}
RULE = ("one case = one generated history (3-45 operations, 0-4 hooks on lifecycle events with scripted reactions) of "
        "start/stop requests over 9 modes (40 % of the cases inside a device-less game with ball ends, player changes "
        "and game ends), driven through the real Mode/ModeController/ConfigPlayer code under a seeded "
        "scheduler; non-trivial = reached at least one reach probe (request during a transition, request from a lifecycle "
        "handler, hold on a queue event, op exactly on a pending MPF timer, registry compared after a completed stop ...); "
        "distinct = distinct sequence of observed event kinds")
PROBES = ["start_while_starting", "start_while_stopping", "stop_while_starting", "stop_while_stopping",
          "request_from_hook", "hook_same_mode_start_in_stopped", "hook_same_mode_stop_in_started",
          "hold_starting", "hold_stopping", "quick_clear", "op_on_timer", "registry_compared", "registry_after_cycles_5",
          "queue_start", "queue_start_wq", "burst", "trigger_while_stopping", "trigger_while_active",
          "stop_by_own_device", "refused_game_mode", "priority_override", "switch_while_active", "var_flip_while_active",
          "game_started", "game_ended", "ball_started", "game_drain", "game_add_player_request", "game_end_request",
          "ball_end_with_game_mode_active", "delayed_control_event_in_active", "delayed_control_event_in_stopping",
          "var_change_then_stop_hops_0", "var_change_then_stop_hops_1", "var_change_then_stop_hops_2",
          "var_change_then_stop_hops_3", "var_change_then_stop_hops_4",
          "stop_with_delayed_control_event_pending", "stop_accepted_while_starting", "stop_accepted_and_put_off", "wait_queue_run", "wait_queue_restart_same_instant", "registry_compared_in_game", "registry_after_game_mode_stop",
          "registry_compared_after_game"]
REAL = ["mpf.core.mode.Mode", "mpf.core.mode_controller.ModeController", "mpf.core.config_player.ConfigPlayer and the "
        "event/variable/light/show/coil/queue_relay players", "mpf.core.mode_device / logic blocks / timers / combo_switch",
        "mpf.core.events.EventManager", "mpf.core.delays.DelayManager", "mpf.core.switch_controller", "MachineController boot",
        "custom mode code (machines/c07/modes/coded/code/coded.py)", "mpf.modes.game / attract (device-less game)",
        "mpf.devices.shot / shot_group, EnableDisableMixin (persist_enable), persisted counter, timer in a game mode"]
STUBS = ["event loop (SimLoop: virtual time, stalls, tie order)", "clock (SimClock)", "virtual hardware platform",
         "in-memory data manager"]
ASSUMPTIONS = ["call_soon FIFO order is kept (asyncio guarantees it)",
               "time does not advance inside one loop iteration; lateness only through injected stalls",
               "games are played without ball devices (fake playfield.add_ball, drains through the ball_drain event); a game is "
               "only ended after its first ball started (end_game during game start is C06's finding F1)"]
STATE_ABSTRACTION = "(per mode last lifecycle event, number of outstanding holds, bus quiet?)"

TEST_MODES = ["plain", "hi", "lo", "wq", "dev", "players", "coded", "gm", "gshots"]
GAME_MODES = ("gm", "gshots")
WAIT_QUEUE_MODES = ("wq",)
PHASES = ["will_start", "starting", "started", "will_stop", "stopping", "stopped"]
NEXT = {None: "will_start", "will_start": "starting", "starting": "started", "started": "will_stop",
        "will_stop": "stopping", "stopping": "stopped", "stopped": "will_start"}
LIFE = re.compile(r"^mode_(%s)_(will_start|starting|started|will_stop|stopping|stopped)$" % "|".join(TEST_MODES))
HOLDS = [0, "soon", 0.001, 0.05, 0.3, 0.5]
HOLD_MAX = 0.5
DTS = [0.0, 0.0, 0.001, 0.01, 0.05, 0.1, 0.25, 0.4, 1.0]
TRIGGERS = {
    "players": ["ev_trigger", "ev_cond", "ev_inner", "ev_delayed", "ev_var", "ev_var_block", "ev_var_cond", "ev_light",
                "ev_light_off", "ev_show", "ev_show_stop", "ev_chirp", "ev_coil_on", "ev_coil_off", "ev_coil_pulse",
                "Q:q_in", "q_relay_done", "plain_gate_open"],
    "dev": ["dev_hit", "dev_hit", "dev_hit2", "dev_cnt_enable", "dev_cnt_disable", "dev_cnt_restart", "dev_cnt_reset",
            "dev_hit2_late", "dev_acc_reset", "dev_acc_disable", "dev_cnt_enable", "dev_cnt_reset", "dev_acc_1",
            "dev_acc_2", "dev_t_pause", "dev_t_add", "dev_t_restart", "dev_t_stop", "dev_t_start", "dev_t_reset",
            "dev_t2_start", "dev_t2_jump"],
    "coded": ["coded_ping", "coded_later", "coded_later", "coded_watch"],
    # redundant enables/restarts on shots that are already enabled are the point of these
    "gshots": ["gs_enable", "gs_enable", "gs_disable", "gs_restart", "gs_restart", "gs_reset", "gs_advance", "gs_hit",
               "gs2_enable", "gs_disable_late", "gs_reset_late", "gsg_restart_late", "gs_cnt_reset", "gs2_enable",
               "gsg_enable", "gsg_disable", "gsg_restart", "gsg_reset", "gsg_rotate", "gs_count",
               "gs_t_restart", "gs_t_pause"],
}
ALL_TRIGGERS = sorted(set(sum(TRIGGERS.values(), [])))
# device control events with a delay (event -> (mode, delay in s)): the call is scheduled on the mode's delay manager and has
# to die with the mode
DELAYED = {"dev_cnt_enable": ("dev", 0.15), "dev_cnt_restart": ("dev", 0.1), "dev_cnt_reset": ("dev", 0.5),
           "dev_hit2_late": ("dev", 0.3), "dev_acc_reset": ("dev", 0.4), "dev_acc_disable": ("dev", 0.2),
           "gs2_enable": ("gshots", 0.1), "gs_disable_late": ("gshots", 0.25), "gs_reset_late": ("gshots", 0.4),
           "gsg_restart_late": ("gshots", 0.3), "gs_cnt_reset": ("gshots", 0.5)}
SWITCHES = ["s_code", "s_code", "s_left", "s_right", "s_misc"]
GAME_SWITCHES = ["s_shot1", "s_shot1", "s_shot2", "s_shot3"]
GAME_OPS = [("g_drain", 5), ("g_add_player", 1), ("g_end", 1), ("g_start", 1.5)]


# ------------------------------------------------------------------------------------------------------------
# generation


def _gen_request(ch, focus, same=None):
    kind = ch.pick("req.kind", ["start", "stop"])
    if same is not None and ch.flag("req.same", 0.7):
        mode = same
    else:
        mode = ch.pick("req.mode", focus)
    via = ch.weighted("req.via", [("direct", 4), ("event", 4),
                                  ("queue", 0 if kind != "start" else 4 if mode == "wq" else 1)])
    r = {"kind": kind, "mode": mode, "via": via}
    if ch.flag("req.cb", 0.4) and via == "direct":
        r["cb"] = True
    if kind == "start" and via != "queue" and ch.flag("req.prio", 0.1):
        r["prio"] = ch.pick("req.prio_v", [1, 100, 150, 777])
    return r


def _gen_hook(ch, focus):
    # the custom-code mode has the most to lose from requests inside its own lifecycle events
    mode = ch.weighted("hook.mode", [(x, 3 if x == "coded" else 1) for x in focus])
    phase = ch.weighted("hook.phase", [("will_start", 1), ("starting", 2), ("started", 2), ("will_stop", 1),
                                       ("stopping", 2), ("stopped", 2)])
    prio = ch.pick("hook.prio", [1, 1000000, -1000000])
    script = []
    for _ in range(1 + ch.choice("hook.len", 4)):
        act = {}
        if phase in ("starting", "stopping") and ch.flag("hook.hold", 0.6):
            act["hold"] = ch.pick("hook.hold_d", HOLDS)
        if ch.flag("hook.req", 0.6):
            act["req"] = _gen_request(ch.sub("hook"), focus, same=mode)
        if ch.flag("hook.trig", 0.3):
            act["post"] = ch.pick("hook.trig_e", TRIGGERS.get(mode) or ALL_TRIGGERS)
        script.append(act)
    return {"mode": mode, "phase": phase, "prio": prio, "script": script}


def _gen_op(ch, focus, allow_burst=True):
    kind = ch.weighted("op", [("req", 10), ("trigger", 5), ("group", 1), ("var", 1),
                              ("switch", 3 if ("dev" in focus or "coded" in focus) else 1),
                              ("checkpoint", 0.7), ("burst", 1.5 if allow_burst else 0), ("clear_holds", 0.4),
                              ("restart", 1.5 if allow_burst else 0),
                              ("var_stop", 2.5 if ("players" in focus or "coded" in focus) else 0)])
    op = {"op": kind}
    if kind == "req":
        op.update(_gen_request(ch, focus))
    elif kind == "trigger":
        pool = [e for mname in focus for e in TRIGGERS.get(mname, [])] or ALL_TRIGGERS
        op["event"] = ch.pick("trig", pool)
    elif kind == "group":
        op["event"] = ch.pick("group", ["start_pair", "stop_pair", "start_all", "stop_all"])
    elif kind == "var":
        op["value"] = ch.choice("var", 2)
    elif kind == "switch":
        op["switch"] = ch.pick("sw", SWITCHES + (GAME_SWITCHES * 2 if "gshots" in focus else []))
        op["state"] = ch.choice("sw_state", 2)
    elif kind == "var_stop":
        # the subscribed machine variable changes and a stop request follows a few loop iterations (call_soon hops)
        # later: the subscription has fired, its task/done-callback chain is somewhere on its way
        op["mode"] = ch.pick("var_stop.mode", [x for x in focus if x in ("players", "coded")])
        op["hops"] = ch.choice("var_stop.hops", 7)
        op["via"] = ch.pick("var_stop.via", ["direct", "event"])
    elif kind == "restart":
        # stop and start again in one instant (either order), the wait-queue mode mostly through queue events
        mode = ch.weighted("restart.mode", [(x, 4 if x == "wq" else 1) for x in focus])
        stop = {"op": "req", "kind": "stop", "mode": mode, "via": ch.pick("restart.stop_via", ["direct", "event"])}
        start = {"op": "req", "kind": "start", "mode": mode,
                 "via": ch.weighted("restart.start_via", [("queue", 4 if mode == "wq" else 1), ("event", 2), ("direct", 1)])}
        if ch.flag("restart.cb", 0.3) and stop["via"] == "direct":
            stop["cb"] = True
        op["op"] = "burst"
        op["ops"] = [stop, start] if ch.flag("restart.order", 0.7) else [start, stop]
        if ch.flag("restart.twice", 0.2):
            op["ops"].append(dict(start))
    elif kind == "burst":
        # several things in one instant; half of the bursts stay with one mode (request + its own triggers)
        one = ch.pick("burst_mode", focus) if ch.flag("burst_one", 0.5) else None
        sub_focus = [one] if one else focus
        op["ops"] = [_gen_op(ch.sub("burst"), sub_focus, allow_burst=False) for _ in range(2 + ch.choice("burst_n", 3))]
        op["ops"] = [o for o in op["ops"] if o["op"] not in ("checkpoint",)]
    return op


def plan(ch, tier):
    knobs = draw_knobs(ch)
    nfocus = ch.weighted("nfocus", [(1, 3), (2, 3), (3, 2), (8, 2)])
    perm = ch.shuffle_perm("focus", len(TEST_MODES))
    focus = sorted(TEST_MODES[i] for i in perm[:nfocus])
    if focus == ["gm"]:
        focus = ["gm", "plain"]
    # a share of the runs plays a (device-less) game; the game mode with the persisted devices is then always in focus
    game = ch.flag("game", 0.4)
    if game:
        focus = sorted(set(focus) | {"gshots"})
    hooks = [_gen_hook(ch.sub("h%d" % i), focus) for i in range(ch.weighted("nhooks", [(0, 3), (1, 3), (2, 2), (4, 1)]))]
    if "players" in focus and ch.flag("players_restart_hook", 0.4):
        # restart from a handler of the mode's own `stopped` event (same pass as the stop)
        hooks.append({"mode": "players", "phase": "stopped", "prio": ch.pick("players_restart_prio", [1, 1000000, -1000000]),
                      "script": [{"req": {"kind": "start", "mode": "players",
                                          "via": ch.pick("players_restart_via", ["direct", "event"])}}
                                 for _ in range(1 + ch.choice("players_restart_n", 3))]})
    if "wq" in focus and ch.flag("wq_stopping_hook", 0.5):
        # with a handler on mode_wq_stopping the stop completes inside a dispatcher task: requests that are already
        # queued on the bus are then processed between `stopped` and the clean-up of the run
        act = {}
        if ch.flag("wq_stopping_hold", 0.3):
            act["hold"] = ch.pick("wq_stopping_hold_d", HOLDS)
        hooks.append({"mode": "wq", "phase": "stopping", "prio": ch.pick("wq_stopping_prio", [1, 1000000, -1000000]),
                      "script": [dict(act) for _ in range(1 + ch.choice("wq_stopping_n", 4))]})
    n = 3 + ch.choice("nops", 43)
    ops = []
    for _ in range(n):
        op = _gen_op(ch, focus)
        w = ch.weighted("when", [("rel", 5), ("timer", 3)])
        if w == "rel":
            op["when"] = ["rel", ch.pick("dt", DTS)]
        else:
            op["when"] = ["timer", ch.choice("timer_idx", 4), ch.pick("timer_delta", [0.0, 0.0, -0.001, 0.001])]
        ops.append(op)
        if op["op"] == "trigger" and op["event"] in DELAYED and ch.flag("late_stop", 0.5):
            # stop the owning mode while the delayed control event is pending (or exactly when it is due)
            owner, delay = DELAYED[op["event"]]
            ops.append({"op": "req", "kind": "stop", "mode": owner, "via": ch.pick("late_via", ["direct", "event"]),
                        "when": ["rel", ch.pick("late_dt", [0.0, 0.001, 0.01, 0.05, delay - 0.001, delay])]})
    if game:
        gops = [{"op": "g_start", "when": ["rel", ch.pick("g.dt0", [0.05, 0.0, 0.3])]}]
        for _ in range(ch.choice("g.n", 7)):
            gops.append({"op": ch.weighted("g.op", GAME_OPS), "when": ["rel", ch.pick("g.dt", [0.05, 0.0, 0.001, 0.3, 1.0, 2.0])]})
        pos = min(len(ops), ch.choice("g.pos0", 3))
        for g in gops:
            ops.insert(pos, g)
            pos = min(len(ops), pos + 1 + ch.choice("g.gap", 8))
    return {"knobs": knobs, "focus": focus, "hooks": hooks, "ops": ops, "game": game}


def shrink(plan):
    """Simplify hooks: drop a hook, drop the last action of a script, drop a hold/req of an action."""
    hooks = plan["hooks"]
    for i in range(len(hooks)):
        p = dict(plan)
        p["hooks"] = hooks[:i] + hooks[i + 1:]
        yield p
    for i, hk in enumerate(hooks):
        if len(hk["script"]) > 1:
            p = dict(plan)
            h2 = dict(hk)
            h2["script"] = hk["script"][:-1]
            p["hooks"] = hooks[:i] + [h2] + hooks[i + 1:]
            yield p
        for j, act in enumerate(hk["script"]):
            for key in ("hold", "req", "post"):
                if key in act:
                    a2 = {k: v for k, v in act.items() if k != key}
                    h2 = dict(hk)
                    h2["script"] = hk["script"][:j] + [a2] + hk["script"][j + 1:]
                    p = dict(plan)
                    p["hooks"] = hooks[:i] + [h2] + hooks[i + 1:]
                    yield p
    for i, op in enumerate(plan["ops"]):
        if op["when"] != ["rel", 0.05]:
            p = dict(plan)
            o2 = dict(op)
            o2["when"] = ["rel", 0.05]
            p["ops"] = plan["ops"][:i] + [o2] + plan["ops"][i + 1:]
            yield p


def warm():
    from sim.machine import preload
    preload("c07")


def on_crash(ctx, crash):
    import traceback
    exc = crash.exc
    tb = "".join(traceback.format_exception(type(exc), exc, exc.__traceback__)) if exc else ""
    chain = []
    e = exc
    while e is not None and len(chain) < 6:
        chain.append("%s: %s" % (type(e).__name__, e))
        e = e.__cause__ or e.__context__
    text = " <- ".join(chain)
    info = ctx.info.get("c07", {})
    if "Double lock" in text and info.get("wq_queue_start"):
        return ("liveness", "F-C02 use_wait_queue mode started by a queue event: outer queue forwarded to mode_wq_starting "
                "(Double lock)", text[:600])
    # where did it blow up?  the innermost mpf frame
    frames = [l.strip() for l in tb.splitlines() if l.strip().startswith("File ")]
    mpf_frames = [f for f in frames if "/mpf/" in f]
    where = ""
    if mpf_frames:
        mt = re.search(r'File ".*?/mpf/(.*?)", line \d+, in (\w+)', mpf_frames[-1])
        if mt:
            where = "%s:%s" % (mt.group(1), mt.group(2))
    innermost = frames[-1] if frames else ""
    if "/checks/" in innermost or "/sim/" in innermost:
        return None     # the harness itself failed
    return ("mpf_crash", "%s in %s" % (type(exc).__name__ if exc is not None else "?", where),
            "MPF stopped: %s\n%s" % (text[:500], tb[-1500:]))


# ------------------------------------------------------------------------------------------------------------
# execution


def _mark(fn):
    fn._c07 = True
    return fn


def _is_harness(cb):
    while True:
        if getattr(cb, "_c07", False):
            return True
        if not isinstance(cb, partial):
            return False
        cb = cb.func


def execute(ctx, plan):
    sim = ctx.new_sim("c07")
    sim.boot()
    m = sim.machine
    ev = m.events
    loop = sim.loop
    from sim.tap import tap_events

    info = ctx.info.setdefault("c07", {})
    modes = {n: m.modes[n] for n in TEST_MODES}
    st = {n: {"last": None, "count": {p: 0 for p in PHASES}, "cycles": 0, "wedged": False} for n in TEST_MODES}
    holds = {}              # hold id -> (queue, mode, phase)
    hold_seq = [0]
    tokens = []             # callback tokens: dict(kind, mode, accepted, calls)
    coded = modes["coded"]
    coded_seen = [0, 0]     # positions in coded.calls / coded.fired already judged
    abort = [False]
    in_request = [0]
    last_life = [0.0]
    stopped_at = {n: [] for n in TEST_MODES}
    pending_delayed = []    # (mode, due time) of delayed control events posted while their mode was running
    # wait-queue modes: which queue event (token) started the current run; tokens in posting order = dispatch order
    wq_run = {n: {"starter": None, "stopped": True} for n in WAIT_QUEUE_MODES}
    wq_owed = []            # starters of runs that have stopped: must be released (exactly once) by the next settle
    stops_owed = []         # accepted direct stops: the run they were issued in must have stopped by the next settle
    after_stop_check = []

    def now():
        return loop.time()

    def quiet_bus():
        return not ev.event_queue and not ev.callback_queue

    def flags(n):
        md = modes[n]
        return (bool(md.active), bool(md.starting), bool(md.stopping))

    # -- observation ------------------------------------------------------------------------------------
    def check_active_list(where):
        lst = m.mode_controller.active_modes
        names = sorted(x.name for x in lst)
        act = sorted(n for n, md in m.modes.items() if md.active)
        if names != act:
            ctx.violation("active_list", "membership", "at %s (t=%.6f): active_modes=%r but modes with active==True are %r"
                          % (where, now(), [x.name for x in lst], act))
        pr = [x.priority for x in lst]
        # R1: "ordered by priority" - ties may come in any order
        if any(pr[i] < pr[i + 1] for i in range(len(pr) - 1)):
            ctx.violation("active_list", "order", "at %s (t=%.6f): active_modes not sorted by priority: %r"
                          % (where, now(), [(x.name, x.priority) for x in lst]))

    def lifecycle(n, phase, kwargs):
        s = st[n]
        ctx.log("life", n, phase, t=now())
        if n in GAME_MODES and phase == "will_start" and not (m.game and modes[n].player):
            ctx.violation("refused", "game mode started outside a game",
                          "game mode %s posted will_start although no game/player turn is running" % n)
        exp = NEXT[s["last"]]
        if phase != exp:
            ctx.violation("event_order", "%s after %s" % (phase, s["last"]),
                          "mode %s posted %s after %s (expected %s) at t=%.6f" % (n, phase, s["last"], exp, now()))
        a, sg, sp = flags(n)
        want = {"will_start": (False, True), "starting": (False, True), "started": (True, False),
                "will_stop": (True, False), "stopping": (None, False), "stopped": (False, False)}[phase]
        # R2: a stopping mode may or may not count as active
        if (want[0] is not None and a != want[0]) or sg != want[1]:
            ctx.violation("flags", "%s: active=%s starting=%s" % (phase, a, sg),
                          "mode %s posts %s with active=%s starting=%s stopping=%s at t=%.6f" % (n, phase, a, sg, sp, now()))
        if n in WAIT_QUEUE_MODES:
            run = wq_run[n]
            if phase == "will_start":
                # Mode.start passes the kwargs of the event that started it on to its lifecycle events: the harness tags
                # its queue start events, so the run can be attributed to the queue event that started it
                tid = kwargs.get("c07_token") if kwargs.get("queue") is not None else None
                tok = tokens[tid] if isinstance(tid, int) and 0 <= tid < len(tokens) else None
                run["starter"], run["stopped"] = tok, False
                ctx.log("run_starter", n, tid, t=now())
                if tok is not None:
                    ctx.probe("wait_queue_run")
                    if st[n]["last"] == "stopped" and stopped_at[n] and abs(stopped_at[n][-1] - now()) < 1e-9:
                        ctx.probe("wait_queue_restart_same_instant")
                    if tok["calls"]:
                        ctx.violation("wait_queue", "start queue of %s released before its run started" % n,
                                      "mode %s starts a run at t=%.6f for the queue event posted at %.6f, but that queue "
                                      "event has already been released (use_wait_queue: it has to wait until the run "
                                      "has stopped)" % (n, now(), tok["t"]))
            elif phase == "stopped":
                run["stopped"] = True
                if run["starter"] is not None:
                    wq_owed.append(run["starter"])
        s["last"] = phase
        last_life[0] = now()
        s["count"][phase] += 1
        if phase == "stopped":
            if any(mn == n and due > now() + 1e-9 for mn, due in pending_delayed):
                ctx.probe("stop_with_delayed_control_event_pending")
            s["cycles"] += 1
            stopped_at[n].append(now())
            # "after every completed stop": look at the registries at the first later instant (see R3)
            if after_stop_check:
                sim.at(now() + 0.001, after_stop_check[0])
        if phase == "will_stop" and n == "dev" and not in_request[0]:
            ctx.probe("stop_by_own_device")

    games = [0, 0]      # started, ended
    balls_this_game = [0]

    def on_post(name, ev_type, callback, kwargs):
        if name == "game_started":
            games[0] += 1
            balls_this_game[0] = 0
            ctx.probe("game_started")
        elif name == "game_ended":
            games[1] += 1
            ctx.probe("game_ended")
            # the balls of an aborted game leave the (fake) playfield, as in MpfFakeGameTestCase.stop_game
            m.playfield.balls = 0
            m.playfield.available_balls = 0
        elif name == "ball_started":
            balls_this_game[0] += 1
            ctx.probe("ball_started")
        mt = LIFE.match(name)
        if mt:
            lifecycle(mt.group(1), mt.group(2), kwargs)
        check_active_list(name)

    tap_events(sim, on_post)

    # -- device-less game (as mpf/tests/MpfFakeGameTestCase.py) ------------------------------------------------------
    pf = m.playfield

    def _add_ball(**kwargs):
        pf.balls += 1
        pf.available_balls += 1
    pf.add_ball = _mark(_add_ball)
    m.ball_controller.num_balls_known = 3
    attract = m.modes["attract"]
    game_mode = m.modes["game"]

    def _drained(balls=0, **kwargs):
        pf.balls -= balls
        pf.available_balls -= balls
    _mark(_drained)

    def game_op(kind):
        g = m.game
        ctx.log("game_op", kind, g is not None, g.player.number if g and g.player else None,
                g.player.ball if g and g.player else None, t=now())
        if kind in ("g_start", "g_add_player"):
            if kind == "g_start" and g is None:
                ctx.probe("game_start_request")
            if kind == "g_add_player" and g is not None:
                ctx.probe("game_add_player_request")
            sim.hit_switch("s_start", 1)
            sim.hit_switch("s_start", 0)
        elif kind == "g_drain":
            if g is not None and g.balls_in_play > 0:
                ctx.probe("game_drain")
                if st["gshots"]["last"] == "started":
                    ctx.probe("ball_end_with_game_mode_active")
                ev.post_relay("ball_drain", callback=_drained, balls=1)
        elif kind == "g_end":
            # only once the first ball of the game has started: Game.end_game() while the game is still starting (no
            # player yet) wedges the game for good - a game lifecycle matter (C06), reported there, not judged here
            if g is not None and g.player is not None and balls_this_game[0] and not g.ending:
                ctx.probe("game_end_request")
                g.end_game()

    def pre_game_environment():
        """Everything outside the test modes is as it was when the base snapshot was taken: no game, attract settled."""
        return (m.game is None and attract.active and not attract.starting and not attract.stopping and
                not game_mode.active and not game_mode.starting and not game_mode.stopping)

    # -- callbacks tokens ----------------------------------------------------------------------------------
    def new_token(kind, n):
        tok = {"kind": kind, "mode": n, "accepted": None, "calls": 0, "t": now(), "id": len(tokens)}
        tokens.append(tok)

        def cb(**kwargs):
            tok["calls"] += 1
            ctx.log("cb", kind, n, tok["id"], t=now())
            if tok["calls"] > 1:
                ctx.violation("callbacks", "%s callback twice" % kind, "%s callback of mode %s (request at %.6f) called %d times"
                              % (kind, n, tok["t"], tok["calls"]))
            if tok["accepted"] is False:
                ctx.violation("callbacks", "%s callback of a refused request" % kind,
                              "%s callback of mode %s called although the request at %.6f was refused" % (kind, n, tok["t"]))
            if kind == "queue_start" and n in WAIT_QUEUE_MODES:
                run = wq_run[n]
                if run["starter"] is tok and not run["stopped"]:
                    ctx.violation("wait_queue", "start queue of %s released while its run is running" % n,
                                  "the queue event which started the current run of %s (posted at %.6f) was released at "
                                  "t=%.6f, before that run posted mode_%s_stopped (last event %s)"
                                  % (n, tok["t"], now(), n, st[n]["last"]))
            if kind == "start" and not modes[n].active and st[n]["last"] not in ("will_stop", "stopping", "stopped"):
                ctx.violation("callbacks", "start callback before active", "start callback of %s called while active=False" % n)
        return tok, _mark(cb)

    # -- requests ----------------------------------------------------------------------------------------------
    def settled(n):
        s = st[n]
        f = flags(n)
        if s["last"] in (None, "stopped") and f == (False, False, False):
            return "stopped"
        if s["last"] == "started" and f == (True, False, False):
            return "active"
        return None

    def expect_later(n, phase, what, hops=1):
        """by event: the handler runs inside the dispatch that the bus schedules with call_soon right now, so a check
        queued behind it sees the result; a queue event is dispatched by a task (two more loop iterations)."""
        before = st[n]["count"][phase]
        t0 = now()

        def check(left):
            if left > 0:
                loop.call_soon(_mark(partial(check, left - 1)))
                return
            if abort[0]:
                return
            if st[n]["count"][phase] == before:
                ctx.violation("request_ignored", "%s" % what,
                              "%s of mode %s at t=%.6f (bus quiet, mode settled) did not produce %s"
                              % (what, n, t0, phase))
        loop.call_soon(_mark(partial(check, hops - 1)))

    def request(r, origin):
        in_request[0] += 1
        try:
            _request(r, origin)
        finally:
            in_request[0] -= 1

    def _request(r, origin):
        n = r["mode"]
        md = modes[n]
        kind, via = r["kind"], r["via"]
        s = st[n]
        state = s["last"]
        # reach probes
        if kind == "start" and state in ("will_start", "starting"):
            ctx.probe("start_while_starting")
        if kind == "start" and state in ("will_stop", "stopping"):
            ctx.probe("start_while_stopping")
        if kind == "stop" and state in ("will_start", "starting"):
            ctx.probe("stop_while_starting")
        if kind == "stop" and state in ("will_stop", "stopping"):
            ctx.probe("stop_while_stopping")
        if origin != "op":
            ctx.probe("request_from_hook")
        quiet = origin == "op" and quiet_bus()
        sett = settled(n) if quiet else None
        must = None
        startable = n not in GAME_MODES or bool(m.game and md.player)
        if sett == "stopped" and kind == "start" and startable:
            must = "will_start"
        if sett == "active" and kind == "stop":
            must = "will_stop"
        ctx.log("req", origin, kind, n, via, state, quiet, t=now())
        kw = {}
        if "prio" in r and kind == "start":
            kw["mode_priority"] = r["prio"]
            ctx.probe("priority_override")
        if n in GAME_MODES and kind == "start" and not startable:
            ctx.probe("refused_game_mode")
        before = {p: s["count"][p] for p in ("will_start", "will_stop")}
        if via == "direct":
            tok = None
            if r.get("cb"):
                tok, cb = new_token(kind, n)
                kw["callback"] = cb
            if kind == "start":
                md.start(**kw)
                # a start that posts will_start at once is accepted; otherwise it may have been refused or put off
                # (the statement leaves that open): None = the callback may or may not come, at most once
                acc = True if s["count"]["will_start"] > before["will_start"] else None
                if acc is None and sett == "active":
                    acc = False     # a settled active mode has nothing to start: the callback must never come
            else:
                ret = md.stop(**kw)
                acc = bool(ret)
                if ret:
                    # "every accepted stop eventually completes": stop() said the mode is running and took the request
                    # (at once, or put off until a held start has completed): the run in progress has to reach `stopped`
                    if state in ("will_start", "starting"):
                        ctx.probe("stop_accepted_while_starting")
                    elif state == "started" and s["count"]["will_stop"] == before["will_stop"]:
                        ctx.probe("stop_accepted_and_put_off")
                    stops_owed.append({"mode": n, "cycles": s["cycles"], "t": now(), "state": state,
                                       "cb": bool(r.get("cb")), "origin": origin})
                if s["count"]["will_stop"] > before["will_stop"] and not ret:
                    ctx.violation("request_ignored", "stop() returned False but stopped the mode",
                                  "stop() of %s returned %r but posted will_stop" % (n, ret))
            if tok is not None:
                tok["accepted"] = acc
            if must and s["count"][must] == before[must]:
                ctx.violation("request_ignored", "direct %s" % kind,
                              "direct %s() of mode %s at t=%.6f (bus quiet, mode %s) did not post %s"
                              % (kind, n, now(), sett, must))
        elif via == "event":
            ev.post("%s_%s" % (kind, n), **kw)
            if must:
                expect_later(n, must, "%s by event" % kind)
        else:   # start by queue event
            ctx.probe("queue_start")
            if n == "wq":
                ctx.probe("queue_start_wq")
                info["wq_queue_start"] = True
            tok, cb = new_token("queue_start", n)
            tok["accepted"] = True
            if n in WAIT_QUEUE_MODES:
                ev.post_queue("start_%s" % n, callback=cb, c07_token=tok["id"])
            else:
                ev.post_queue("start_%s" % n, callback=cb)
            if must:
                expect_later(n, must, "start by queue event", hops=4)

    # -- hooks ----------------------------------------------------------------------------------------------------
    def clear_hold(hid):
        h = holds.pop(hid, None)
        if h is None:
            return
        q = h[0]
        ctx.log("hold_clear", h[1], h[2], hid, t=now())
        if q.waiter:
            q.clear()

    def do_action(act, queue, hk):
        if "hold" in act and queue is not None:
            hold_seq[0] += 1
            hid = hold_seq[0]
            ctx.probe("hold_" + hk["phase"])
            queue.wait()
            holds[hid] = (queue, hk["mode"], hk["phase"])
            d = act["hold"]
            ctx.log("hold", hk["mode"], hk["phase"], hid, d, t=now())
            if d == 0:
                ctx.probe("quick_clear")
                clear_hold(hid)
            elif d == "soon":
                loop.call_soon(_mark(partial(clear_hold, hid)))
            else:
                sim.at(now() + d, _mark(partial(clear_hold, hid)))
        if "req" in act:
            r = act["req"]
            if r["mode"] == hk["mode"] and r["kind"] == "start" and hk["phase"] == "stopped":
                ctx.probe("hook_same_mode_start_in_stopped")
            if r["mode"] == hk["mode"] and r["kind"] == "stop" and hk["phase"] == "started":
                ctx.probe("hook_same_mode_stop_in_started")
            request(r, "hook")
        if "post" in act:
            post_trigger(act["post"], "hook")

    def make_hook(idx, hk):
        pos = [0]

        def hook(**kwargs):
            i = pos[0]
            pos[0] += 1
            ctx.log("hook", idx, hk["mode"], hk["phase"], i, t=now())
            if abort[0] or i >= len(hk["script"]):
                return
            do_action(hk["script"][i], kwargs.get("queue") if hk["phase"] in ("starting", "stopping") else None, hk)
        return _mark(hook)

    for idx, hk in enumerate(plan["hooks"]):
        ev.add_handler("mode_%s_%s" % (hk["mode"], hk["phase"]), make_hook(idx, hk), priority=hk["prio"])

    # -- triggers ---------------------------------------------------------------------------------------------------
    def post_trigger(e, origin):
        for n in sorted(TRIGGERS):
            if e.replace("Q:", "") in [x.replace("Q:", "") for x in TRIGGERS[n]]:
                if st[n]["last"] in ("will_stop", "stopping"):
                    ctx.probe("trigger_while_stopping")
                elif st[n]["last"] == "started":
                    ctx.probe("trigger_while_active")
        if e in DELAYED and st[DELAYED[e][0]]["last"] in ("started", "will_stop", "stopping"):
            ctx.probe("delayed_control_event_in_" + ("stopping" if st[DELAYED[e][0]]["last"] != "started" else "active"))
            pending_delayed.append((DELAYED[e][0], now() + DELAYED[e][1]))
        ctx.log("trigger", origin, e, t=now())
        if e.startswith("Q:"):
            tok, cb = new_token("queue_trigger", "players")
            tok["accepted"] = True
            ev.post_queue(e[2:], callback=cb)
        else:
            ev.post(e)

    # -- custom code observation ---------------------------------------------------------------------------------------
    def judge_coded():
        calls, fired = coded.calls, coded.fired
        while coded_seen[1] < len(fired):
            what, active, stopping, t = fired[coded_seen[1]]
            coded_seen[1] += 1
            ctx.log("coded_fired", what, active, stopping, t=t)
            # R5: a stop is complete when mode_<m>_stopped has been dispatched, which happens in the instant in
            # which it is posted; until then the mode's handlers may still run
            if not active and not any(abs(t - ts) < 1e-9 for ts in stopped_at["coded"]):
                ctx.violation("fired_inactive", "coded.%s while mode not active" % what,
                              "%s registered by the custom code of mode coded ran at t=%.6f while coded.active was False "
                              "(mode_coded_stopped posted at %r)" % (what, t, stopped_at["coded"][-3:]))
        while coded_seen[0] < len(calls):
            what, active = calls[coded_seen[0]]
            coded_seen[0] += 1
            ctx.log("coded_hook", what, active)

    # -- registry ---------------------------------------------------------------------------------------------------------
    sim.run_quiet(0.2)
    base = H.snapshot(sim, _is_harness)
    ctx.log("base", H.digest(base))
    compared = [0]

    def all_stopped_quiet():
        if not quiet_bus() or holds:
            return False
        # R3: clean-up that needs a few more loop iterations at the instant of the stop (cancelled futures run their
        # done-callbacks through call_soon) is tolerated: compare from the first later instant on
        # ("later" means later by more than rounding: an op placed on `deadline - 0.001` can land one ulp after the
        # instant of the stop, in the middle of the loop iterations which that clean-up needs; the smallest step of the
        # workload is 1 ms and the registries are looked at 1 ms after every stop anyway)
        if now() <= last_life[0] + 1e-6:
            return False
        for n in TEST_MODES:
            if settled(n) != "stopped":
                return False
        for tok in tokens:
            if tok["accepted"] and tok["calls"] == 0:
                return False
        return True

    def norm_sig(line):
        line = re.sub(r"\d+ -> \d+$", "", line)
        line = re.sub(r"show_\d+", "show_<n>", line)
        return line.strip()[:150]

    owner_names = set(TEST_MODES)
    sections = {c.config_section for c in m.device_manager.collections.values()}
    for n in TEST_MODES:
        for section, cfg in modes[n].config.items():
            if section in sections and isinstance(cfg, dict):
                owner_names.update(str(k) for k in cfg.keys())
    owned = re.compile(r"(?<![A-Za-z0-9_])(%s)(?![A-Za-z0-9_])" % "|".join(sorted(re.escape(x) for x in owner_names)))
    base_owned = H.restrict(base, owned)

    def compare_registry(where):
        cur = H.snapshot(sim, _is_harness)
        compared[0] += 1
        ctx.probe("registry_compared")
        if max(st[n]["cycles"] for n in TEST_MODES) >= 5:
            ctx.probe("registry_after_cycles_5")
        if pre_game_environment():
            d = H.diff(base, cur)
            if games[0]:
                ctx.probe("registry_compared_after_game")
        else:
            # R7: while a game runs (or starts/ends) the rest of the machine legitimately differs from the snapshot
            # taken before the game; what belongs to the test modes and their devices must still be exactly as before
            d = H.diff(base_owned, H.restrict(cur, owned))
            where += " (in game: items of the test modes and their devices)"
            ctx.probe("registry_compared_in_game")
            if st["gshots"]["cycles"]:
                ctx.probe("registry_after_game_mode_stop")
        ctx.log("registry", where, H.digest(cur), len(d), t=now())
        if d:
            cyc = {n: st[n]["cycles"] for n in TEST_MODES if st[n]["cycles"]}
            # report the differences one by one so that a known one does not hide another
            for line in d:
                ctx.violation("registry", norm_sig(line),
                              "registries differ from the snapshot before the first start (%s, t=%.6f, completed cycles %r):\n  %s"
                              % (where, now(), cyc, "\n  ".join(d[:12])))

    def _after_stop_check():
        if not abort[0] and all_stopped_quiet():
            compare_registry("1 ms after a stop")
    after_stop_check.append(_mark(_after_stop_check))

    # -- ops -----------------------------------------------------------------------------------------------------------------
    def do_op(op, origin="op"):
        kind = op["op"]
        if origin == "op" and all_stopped_quiet():
            compare_registry("before op")
        judge_coded()
        ctx.state(tuple(st[n]["last"] for n in TEST_MODES), len(holds), quiet_bus())
        if kind == "req":
            request(op, origin)
        elif kind == "trigger":
            post_trigger(op["event"], origin)
        elif kind == "group":
            ctx.log("group", op["event"], t=now())
            ev.post(op["event"])
        elif kind == "var":
            if any(st[n]["last"] == "started" for n in ("players", "coded")):
                ctx.probe("var_flip_while_active")
            ctx.log("var", op["value"], t=now())
            m.variables.set_machine_var("c07_flag", op["value"])
        elif kind == "switch":
            if any(st[n]["last"] == "started" for n in ("dev", "coded", "gshots")):
                ctx.probe("switch_while_active")
            ctx.log("switch", op["switch"], op["state"], t=now())
            sim.hit_switch(op["switch"], op["state"])
        elif kind == "var_stop":
            cur = m.variables.get_machine_var("c07_flag")
            ctx.log("var_stop", op["mode"], op["hops"], op["via"], cur, t=now())
            if st[op["mode"]]["last"] == "started":
                ctx.probe("var_change_then_stop_hops_%d" % min(op["hops"], 4))
            m.variables.set_machine_var("c07_flag", 0 if cur else 1)
            r = {"kind": "stop", "mode": op["mode"], "via": op["via"]}

            def hop(left):
                if abort[0]:
                    return
                if left > 0:
                    loop.call_soon(_mark(partial(hop, left - 1)))
                else:
                    request(r, "op")
            if op["hops"] == 0:
                request(r, "op")
            else:
                loop.call_soon(_mark(partial(hop, op["hops"] - 1)))
        elif kind == "clear_holds":
            for hid in sorted(holds.keys()):
                clear_hold(hid)
        elif kind in ("g_start", "g_add_player", "g_drain", "g_end"):
            game_op(kind)
        elif kind == "burst":
            ctx.probe("burst")
            for sub in op["ops"]:
                do_op(sub, origin)

    ops = plan["ops"]
    idx = [0]
    chain = {"done": False, "checkpoint": False}

    def schedule_next():
        if idx[0] >= len(ops):
            chain["done"] = True
            return
        op = ops[idx[0]]
        if op["op"] == "checkpoint":
            chain["checkpoint"] = True
            return
        w = op["when"]
        t = now()
        if w[0] == "rel":
            t = t + w[1]
        else:
            pend = [x for x in loop.pending_timer_times() if x >= now()]
            if pend:
                t = max(now(), pend[w[1] % len(pend)] + w[2])
                if w[2] == 0.0:
                    ctx.probe("op_on_timer")
            else:
                t = t + 0.01
        sim.at(t, run_op)

    def run_op():
        if abort[0]:
            chain["done"] = True
            return
        op = ops[idx[0]]
        idx[0] += 1
        do_op(op)
        schedule_next()
    _mark(run_op)

    def wedge_fc02():
        """F-C02 (owned by C02): wq started through a queue event hangs in `starting` as soon as mode_wq_starting has a handler."""
        md = modes["wq"]
        if st["wq"]["last"] == "starting" and md.starting and md._mode_start_wait_queue is not None and \
                "mode_wq_starting" in ev.registered_handlers:
            return True
        return False

    def settle(why):
        """Run fault-free until nothing is held and nothing moves.  Bound: every hold is at most HOLD_MAX long and the
        hooks' scripts are finite, so (number of scripted actions + 2) * (HOLD_MAX + 0.1) covers the longest chain."""
        budget = 2 + sum(len(h["script"]) for h in plan["hooks"])
        for _ in range(budget):
            # the players mode relays q_in and mode_plain_starting until these events arrive (configured holds):
            # release them like the harness' own holds
            for e in ("q_relay_done", "plain_gate_open"):
                if e in ev.registered_handlers:
                    ev.post(e)
            sim.run_quiet(HOLD_MAX + 0.1)
            if not holds and quiet_bus() and all(settled(n) for n in TEST_MODES):
                break
        judge_coded()
        if not holds and quiet_bus():
            while stops_owed:
                so = stops_owed.pop(0)
                if st[so["mode"]]["cycles"] <= so["cycles"]:
                    ctx.violation("stop_lost", "accepted stop of %s (mode was %s) not carried out" % (so["mode"], so["state"]),
                                  "%s: stop() of mode %s at t=%.6f returned True (last lifecycle event then: %s, callback "
                                  "given: %s, issued from: %s) but the run has not stopped: no mode_%s_stopped since, last event "
                                  "now %s, flags(active,starting,stopping)=%r, nothing held, loop ran fault-free"
                                  % (why, so["mode"], so["t"], so["state"], so["cb"], so["origin"], so["mode"],
                                     st[so["mode"]]["last"], flags(so["mode"])))
            while wq_owed:
                tok = wq_owed.pop(0)
                if tok["calls"] != 1:
                    ctx.violation("wait_queue", "start queue of %s still held after its run stopped" % tok["mode"],
                                  "%s: the queue event which started a run of %s (posted at %.6f) was released %d times "
                                  "although that run has posted mode_%s_stopped and the loop ran fault-free since "
                                  "(stops at %r)" % (why, tok["mode"], tok["t"], tok["calls"], tok["mode"],
                                                     stopped_at[tok["mode"]][-3:]))
                    tok["calls"] = 1
        for n in TEST_MODES:
            if settled(n) is None and not holds:
                if n == "wq" and wedge_fc02():
                    ctx.violation("liveness", "F-C02 use_wait_queue mode started by a queue event hangs in starting when "
                                  "mode_wq_starting has a handler", "wq stuck: last=%s flags=%r" % (st[n]["last"], flags(n)))
                    abort[0] = True
                    return False
                ctx.violation("liveness", "%s stuck after %s" % (n, st[n]["last"]),
                              "%s: mode %s did not finish its transition: last event %s, flags(active,starting,stopping)=%r, "
                              "no hold outstanding, %d queue tasks pending, t=%.6f"
                              % (why, n, st[n]["last"], flags(n), len(ev._queue_tasks), now()))
                st[n]["wedged"] = True
                abort[0] = True
                return False
        return True

    def checkpoint(final=False):
        ctx.log("checkpoint", final, t=now())
        # holds clear themselves at their scheduled times
        if not settle("checkpoint"):
            return
        rounds = 0
        while any(settled(n) == "active" for n in TEST_MODES):
            rounds += 1
            if rounds > len(TEST_MODES) * (3 + sum(len(h["script"]) for h in plan["hooks"])):
                ctx.violation("liveness", "modes cannot be stopped", "modes still active after %d rounds of stop(): %r"
                              % (rounds, [n for n in TEST_MODES if settled(n) == "active"]))
                abort[0] = True
                return
            for n in TEST_MODES:
                # one at a time: the request is only judged (must be accepted) when the bus is quiet
                if settled(n) == "active" and quiet_bus():
                    request({"kind": "stop", "mode": n, "via": "direct"}, "op")
                    break
            if not settle("checkpoint stop"):
                return
        if quiet_bus() and not holds:
            for tok in tokens:
                if tok["accepted"] and tok["calls"] != 1:
                    ctx.violation("callbacks", "%s callback never called" % tok["kind"],
                                  "%s callback of mode %s (request at %.6f, accepted) called %d times although every mode "
                                  "is stopped and nothing is held" % (tok["kind"], tok["mode"], tok["t"], tok["calls"]))
                    tok["calls"] = 1
            if all_stopped_quiet():
                compare_registry("checkpoint")

    guard = 0
    schedule_next()
    while not chain["done"] and not abort[0]:
        if chain["checkpoint"]:
            chain["checkpoint"] = False
            idx[0] += 1
            checkpoint()
            if abort[0]:
                break
            schedule_next()
            continue
        sim.run(0.25)
        guard += 1
        if guard > 2000:
            raise AssertionError("op chain did not finish")
    if not abort[0]:
        checkpoint(final=True)
    if not abort[0] and not pre_game_environment():
        # end the game and wait for attract; bound: the game's ending queue events are only held by the hooks
        for i in range(8 + sum(len(h["script"]) for h in plan["hooks"])):
            g = m.game
            if g is not None and g.player is not None and balls_this_game[0] and not g.ending:
                g.end_game()
            sim.run_quiet(HOLD_MAX + 0.1)
            if pre_game_environment() and quiet_bus() and not holds:
                break
        if not pre_game_environment():
            ctx.violation("liveness", "game does not end", "the game did not end / attract did not come back: game=%r attract=%r"
                          % (m.game, (attract.active, attract.starting, attract.stopping)))
        checkpoint(final=True)
    if not abort[0]:
        # the longest thing a stopped mode could have left behind in this machine is a 5 s delay: let it show up
        sim.run_quiet(6.0)
        judge_coded()
        if all_stopped_quiet():
            compare_registry("final+6s")
    if plan.get("game") and games[0] == 0:
        pass
    info["compared"] = compared[0]
    info["cycles"] = {n: st[n]["cycles"] for n in TEST_MODES if st[n]["cycles"]}
