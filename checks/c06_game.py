"""C06 - Game lifecycle: turns, balls and lifecycle events are well-formed.

SUT (variant a of DESIGN section 5/C06): the real game mode (single coroutine game loop), attract, tilt (built-in mode,
for tilt / slam tilt requests), mode_controller (one ordinary game mode started with every ball), ball_controller
(start request gate, wait_until_playfields_are_empty), Player - in a device-less machine: balls are `ball_drain`
relay posts, exactly as mpf/tests/MpfFakeGameTestCase.py does it.

Oracle: a grammar automaton over the *posted* lifecycle events (tap on EventManager._post) with their player / ball
arguments, a small reference model of balls-in-play, of pending extra balls and of the roster, driven by the order in
which the loop processed requests and posts (never by intentions), bounded liveness of ball end / game end / restart.
Every rule is written from the property statement; every relaxation is a named `R-...` comment below.

Oracle rules (violation classes):
  grammar                 lifecycle events are posted in exactly the nesting order game(turn(ball+)*)
  args                    player / ball / is_extra_ball / balls_remaining of every turn and ball event; ball == round
  rotation                players are up in order 1..n, nobody skipped, nobody twice per ball number
  turn_count              no turn for a ball number above balls_per_game
  game_end_early          the game does not end before the last player played the last ball number
  turn_after_end_request  no new player turn once end_game / slam tilt was processed (before the previous turn ended)
  extra_ball              one more ball per awarded extra ball, none without award.  An award belongs to the turn when
                          it was processed before player_turn_will_end of that turn - in posting order for external
                          requests, in the handlers' view (dispatch order) for awards made inside a handler of a
                          lifecycle event of the turn (ball_ended, ball_ending, ...)
  ball_end_cause          a ball ends only if balls in play reached zero or an end was requested *for that ball*
  ball_not_ended/_late    ... and does end, within LIVE_BOUND, when it did (bounded liveness)
  bip_bounds / bip_model  0 <= balls_in_play <= num_balls_known at every tap; equals the reference model at lifecycle taps
  game_not_ended          after faults stop, holds ran out and all balls drain, the game reaches game_ended (bounded)
  game_not_none           machine.game is None after game_ended
  start_refused           a start request while no game is active (>= LIVE_BOUND after game_ended) starts a game
  add_gate / max_players  roster bookkeeping: consecutive numbers, only after a granted player_add_request, a request
                          during a ball-1 turn (below max_players, nothing in flight) is forwarded; never above max_players
                          (these two come from the documented gate in request_player_add, not from the statement sentence)
  current_player          game.player is the player of the running turn (checked when an extra ball is awarded)
  crash                   no exception reaches the event loop (on_crash)
Relaxations (statement leaves it open -> both accepted): R-end-before-first-turn, R-turn-without-ball,
R-extra-after-end, R-roster-in-progress, R-requests-while-ending, R-add-in-flight; an end request that arrives while no
ball is open is neither required nor allowed to end the *next* ball.
"""
from sim.harness import draw_knobs

ID = "C06"
LEVEL = "exploration"
RUNS = {"quick": 3000, "thorough": 100000}
WALL_CAP = {"quick": 75, "thorough": 1500}
RULE = ("one case = one generated history for 1-3 games: config swarm (balls_per_game 1-3, max_players 1-4, "
        "num_balls_known 1-5, wait_for_empty_playfields on/off, handler priority), a chain of timed requests (start "
        "button / start event, add-player button / event, drains of k balls, armed ball saves, extra-ball awards, "
        "balls_in_play += 1, end_ball / end_game by event or call, tilt / slam-tilt switches, add denials), requests "
        "anchored to the n-th occurrence of a lifecycle event (inside its handler, next loop iteration, or later), and "
        "holds (queue.wait() cleared by a timer) on the n-th game_starting / player_adding / player_turn_starting / "
        "ball_starting / ball_ending / player_turn_ending / game_ending; executed on the real game under a seeded "
        "scheduler (loop stalls, same-instant tie permutations). Non-trivial = reached at least one probe (request "
        "inside a held queue event, request between balls, late player, extra ball, clamp, ...); distinct = distinct "
        "sequence of observed lifecycle events and requests")
PROBES = ["game_completed", "second_game", "op_inside_hold", "add_inside_hold", "drain_inside_hold",
          "end_game_inside_hold", "end_ball_inside_hold", "slam_inside_hold", "request_between_balls",
          "extra_ball_played", "save_used", "bip_capped", "overdrain_clamped", "add_refused_after_ball1",
          "late_player_joined", "add_denied", "end_game_during_start", "slam_during_game", "tilt_during_ball",
          "four_players", "restart_after_end", "playfield_wait", "sync_handler_op", "multiball_drained",
          "end_game_midgame", "natural_game_end_multi_player", "hop_op", "award_in_ball_end_handler", "end_game_before_first_player",
          "hold_mode_summary_stopping", "game_end_waits_for_stopping_mode",
          "hold_game_starting", "hold_player_adding", "hold_player_turn_starting", "hold_ball_starting",
          "hold_ball_ending", "hold_player_turn_ending", "hold_game_ending"]
REAL = ["mpf.modes.game.code.game.Game (AsyncMode coroutine)", "mpf.modes.attract.code.attract.Attract",
        "mpf.modes.tilt.code.tilt.Tilt", "mpf.core.mode_controller.ModeController + two game modes (base: per ball; summary: ball_ended .. "
        "game_ending, its mode_summary_stopping queue held open by the harness)",
        "mpf.core.ball_controller.BallController (start gate, wait_until_playfields_are_empty)", "mpf.core.player.Player",
        "mpf.core.events.EventManager (queue / relay / boolean events)", "mpf.core.switch_controller", "MachineController boot"]
STUBS = ["event loop (SimLoop: virtual time, stalls, tie order)", "clock (SimClock)", "virtual hardware platform",
         "in-memory data manager", "playfield.add_ball replaced by a counter (no ball devices: variant (a) of the design)",
         "ball_controller.num_balls_known set by the harness"]
ASSUMPTIONS = ["call_soon FIFO order is kept (asyncio guarantees it)",
               "drains are `ball_drain` relay posts; physical ball handling (variant b) is out of scope here",
               "the lifecycle path contains no timers besides workload holds and the 1 s playfield poll, so a ball "
               "end that is due completes within the instant (bound used: 0.5 s simulated)"]
STATE_ABSTRACTION = "(lifecycle phase, round, current player, roster size, end/slam requested, balls in play) at every request"

QUEUE_EVENTS = ["game_starting", "player_adding", "player_turn_starting", "ball_starting", "ball_ending",
                "player_turn_ending", "game_ending"]
SEQ = ["game_will_start", "game_starting", "game_started",
       "player_turn_will_start", "player_turn_starting", "player_turn_started",
       "ball_will_start", "ball_starting", "ball_started", "ball_will_end", "ball_ending", "ball_ended",
       "player_turn_will_end", "player_turn_ending", "player_turn_ended",
       "game_will_end", "game_ending", "game_ended"]
LIFE = set(SEQ)
OTHER_TAPS = {"player_add_request", "player_will_add", "player_adding", "player_added", "balls_in_play", "tilt_clear",
              "ball_drain", "tilt", "slam_tilt", "game_start"}
# queue event of the extra game mode `summary` (started at ball_ended, stopped at game_ending / summary_stop)
SUMMARY_STOPPING = "mode_summary_stopping"
ANCHORS = SEQ + ["player_adding", "player_added", "player_add_request", SUMMARY_STOPPING]
# anchors are drawn with extra weight on the ball events (most requests refer to the ball in progress)
ANCHOR_PICK = ANCHORS + ["ball_will_start", "ball_starting", "ball_started", "ball_started", "ball_will_end", "ball_ending",
                         "ball_ended", "player_turn_started", "player_turn_ended", "player_turn_starting", "game_ended"]
TURN_PHASES = {"player_turn_will_start", "player_turn_starting", "player_turn_started", "ball_will_start",
               "ball_starting", "ball_started", "ball_will_end", "ball_ending", "ball_ended", "player_turn_will_end",
               "player_turn_ending"}
# lifecycle events of a turn whose handlers still see the turn open / events that close it
PRE_TURN_END = {"player_turn_will_start", "player_turn_starting", "player_turn_started", "ball_will_start", "ball_starting",
                "ball_started", "ball_will_end", "ball_ending", "ball_ended"}
TURN_CLOSED = {"player_turn_will_end", "player_turn_ending", "player_turn_ended", "game_will_end", "game_ending", "game_ended"}
LIVE_BOUND = 0.5
MAX_HOLD = 2.5


# ---------------------------------------------------------------------------------------------
# plan


def _gen_action(ch, prof):
    kinds = [(k, w) for k, w in prof if w > 0]
    a = ch.weighted("act", kinds)
    d = {"a": a}
    if a == "drain":
        d["k"] = ch.pick("drain_k", [1, 1, 1, 2, 3])
    elif a == "save":
        d["n"] = ch.pick("save_n", [1, 1, 2])
    elif a in ("end_ball", "end_game"):
        d["via"] = ch.pick("via", ["ev", "call"])
    return d


def plan(ch, tier):
    knobs = draw_knobs(ch)
    cfg = {"bpg": ch.pick("bpg", [1, 2, 2, 3]),
           "maxp": ch.pick("maxp", [4, 4, 1, 2, 3]),
           "nbk": ch.pick("nbk", [3, 1, 2, 5]),
           "wait_empty": ch.flag("wait_empty", 0.4),
           "prio": ch.pick("prio", [10000, -10000]),
           "auto_drain": None, "world_delays": [0.0, 0.3, 1.2]}
    if ch.flag("auto_drain", 0.55):
        # None = the drain is posted inside the ball_started handler itself
        cfg["auto_drain"] = [ch.pick("ad_delay", [0.0, 0.05, 0.2, 0.2, 0.7, 1.5, None]) for _ in range(4)]
        cfg["auto_k"] = ch.pick("ad_k", ["one", "all", "known"])
    # swarm over request kinds: a run uses a random subset (drains and starts always)
    prof = [("drain", 6.0), ("btn", 3.0), ("add_ev", 2.0 if ch.flag("p.add_ev", 0.7) else 0),
            ("start_ev", 1.0),
            ("end_ball", 2.0 if ch.flag("p.end_ball", 0.6) else 0),
            ("end_game", 1.2 if ch.flag("p.end_game", 0.5) else 0),
            ("slam", 0.8 if ch.flag("p.slam", 0.35) else 0),
            ("tilt", 0.8 if ch.flag("p.tilt", 0.35) else 0),
            ("eb", 2.0 if ch.flag("p.eb", 0.6) else 0),
            ("bip", 2.0 if ch.flag("p.bip", 0.5) else 0),
            ("save", 1.5 if ch.flag("p.save", 0.5) else 0),
            ("deny", 0.7 if ch.flag("p.deny", 0.3) else 0),
            ("sum_stop", 0.8 if ch.flag("p.sum_stop", 0.25) else 0)]
    if cfg["wait_empty"]:
        # the tilt mode counts playfield.available_balls and then waits for drain *devices*; without ball
        # devices (variant a) that combination has no physical meaning, so tilts only run with the counter off
        prof = [(k, 0 if k in ("tilt", "slam") else w) for k, w in prof]
    ops = [{"t": "op", "dt": ch.pick("dt0", [0.0, 0.1, 1.0]), "do": {"a": ch.pick("start_how", ["btn", "start_ev"])}}]
    # guided: the first player's own player_add_request is denied, the game is ended while it waits for a player
    if ch.flag("g_denied_first", 0.08):
        ops.insert(0, {"t": "op", "dt": 0.0, "do": {"a": "deny"}})
        ops.append({"t": "op", "dt": ch.pick("g_df_dt", [0.0, 0.01, 0.3]),
                    "do": {"a": "end_game", "via": ch.pick("g_df_via", ["ev", "call"])}})
    # players join early in a good share of runs
    for _ in range(ch.pick("early_adds", [0, 0, 1, 1, 2, 3, 4])):
        ops.append({"t": "op", "dt": ch.pick("dta", [0.0, 0.001, 0.05, 0.3]), "do": {"a": ch.pick("add_how", ["btn", "add_ev"])}})
    n = 4 + ch.choice("nops", 26)
    for _ in range(n):
        ops.append({"t": "op", "dt": ch.pick("dt", [0.0, 0.0, 0.001, 0.01, 0.2, 0.2, 0.5, 1.0, 1.0, 2.5]),
                    "do": _gen_action(ch, prof)})
    # holds, anchored requests, and requests placed inside a hold
    for _ in range(ch.choice("nholds", 9)):
        ev = ch.pick("hold_ev", QUEUE_EVENTS)
        h = {"t": "hold", "ev": ev, "n": ch.pick("hold_n", [0, 0, 1, 1, 2, 3, 4, 6]),
             "dur": ch.pick("hold_dur", ["sync", 0.0, 0.01, 0.3, 1.0, MAX_HOLD])}
        ops.append(h)
        if h["dur"] != "sync" and ch.flag("inside", 0.7):
            for _ in range(1 + ch.choice("ninside", 2)):
                frac = ch.pick("inside_at", [None, 0.0, 0.5, 0.5, 1.0])
                delay = None if frac is None else h["dur"] * frac
                ops.append({"t": "anch", "ev": ev, "n": h["n"], "delay": delay, "do": _gen_action(ch, prof), "in_hold": True})
    for _ in range(ch.choice("nanch", 9)):
        ops.append({"t": "anch", "ev": ch.pick("anch_ev", ANCHOR_PICK), "n": ch.pick("anch_n", [0, 0, 1, 1, 2, 3, 4, 6]),
                    "delay": ch.pick("anch_delay", [None, None, 0.0, 0.001, 0.1, 1.0, "h1", "h2", "h3", "h5"]), "do": _gen_action(ch, prof)})
    # guided: join requests in the gap between two turns (rotation, round change) and right at a ball boundary
    for _ in range(ch.pick("nguided", [0, 0, 1, 1, 2])):
        evn = ch.pick("g_ev", ["player_turn_ended", "player_turn_will_start", "player_turn_starting", "player_turn_started",
                               "player_turn_ending", "ball_ended"])
        ops.append({"t": "anch", "ev": evn, "n": ch.pick("g_n", [0, 1, 1, 2, 2, 3, 4]),
                    "delay": ch.pick("g_delay", [None, None, 0.0]), "do": {"a": ch.pick("g_how", ["add_ev", "btn"])}})
    # guided: extra balls awarded by handlers of the ball-end events (with and without a hold on ball_ending)
    if ch.flag("g_eb", 0.4):
        for _ in range(1 + ch.choice("g_eb_n", 2)):
            evn = ch.pick("g_eb_ev", ["ball_ended", "ball_ended", "ball_ended", "ball_ending", "ball_will_end", "ball_started"])
            k = ch.pick("g_eb_k", [0, 0, 1, 1, 2, 3, 5])
            ops.append({"t": "anch", "ev": evn, "n": k, "delay": ch.pick("g_eb_delay", [None, None, None, "h1", 0.0]),
                        "do": {"a": "eb"}})
            if evn == "ball_ending" and ch.flag("g_eb_hold", 0.5):
                ops.append({"t": "hold", "ev": "ball_ending", "n": k, "dur": ch.pick("g_eb_dur", [0.0, 0.3, 1.0])})
    # guided: the stop of the game mode `summary` (stopped by the ball_ending sweep, by game_ending, or by the workload
    # event summary_stop) is held open, so a ball end / the game end has to wait for a game mode that is still stopping
    if ch.flag("g_sum_hold", 0.4):
        durs = [ch.pick("g_sum_dur", [0.01, 0.3, 0.3, 1.0, MAX_HOLD]) for _ in range(3)]
        for i in range(8):
            if ch.flag("g_sum_on", 0.6):
                ops.append({"t": "hold", "ev": SUMMARY_STOPPING, "n": i, "dur": durs[i % 3]})
        if ch.flag("g_sum_stop", 0.4):
            ops.append({"t": "anch", "ev": ch.pick("g_sum_ev", ["ball_ended", "player_turn_will_end", "player_turn_ending",
                                                                "player_turn_ended", "game_will_end"]),
                        "n": ch.pick("g_sum_k", [0, 0, 1, 2, 3]), "delay": ch.pick("g_sum_delay", [None, 0.0, "h2", 0.1]),
                        "do": {"a": "sum_stop"}})
    # guided: a new start request in the instants around game_ended (attract restarts, the game mode stops)
    if ch.flag("g_restart", 0.3):
        ops.append({"t": "anch", "ev": ch.pick("gr_ev", ["game_ended", "game_ended", "game_ending", "player_turn_ended"]),
                    "n": ch.pick("gr_n", [0, 0, 1, 2]),
                    "delay": ch.pick("gr_delay", [None, 0.0, "h1", "h2", "h3", "h4", "h6", 0.001, 0.3]),
                    "do": {"a": ch.pick("gr_how", ["btn", "start_ev"])}})
    # guided: a player whose add is held open while the game ends and the next one starts
    if ch.flag("g_stale_add", 0.15):
        k = ch.pick("gs_n", [1, 1, 2, 3])
        ops.append({"t": "hold", "ev": "player_adding", "n": k, "dur": MAX_HOLD})
        ops.append({"t": "anch", "ev": "player_adding", "n": k, "delay": ch.pick("gs_d1", [0.0, 0.2, 0.5]),
                    "do": {"a": "end_game", "via": ch.pick("gs_via", ["ev", "call"])}, "in_hold": True})
        ops.append({"t": "anch", "ev": "game_ended", "n": ch.pick("gs_g", [0, 0, 1]), "delay": ch.pick("gs_d2", [0.001, 0.1, 0.5]),
                    "do": {"a": "btn"}})
    return {"knobs": knobs, "cfg": cfg, "ops": ops}


def shrink(plan):
    """Simpler variants: neutral config knobs, shorter holds, synchronous anchors, single-ball drains."""
    cfg = plan["cfg"]
    for key, val in (("auto_drain", None), ("wait_empty", False), ("nbk", 3), ("maxp", 4), ("prio", 10000), ("bpg", 1), ("bpg", 2)):
        if cfg.get(key) != val:
            p = dict(plan)
            p["cfg"] = dict(cfg)
            p["cfg"][key] = val
            yield p
    for i, op in enumerate(plan["ops"]):
        alts = []
        if op["t"] == "op" and op["dt"] not in (0.0, 1.0):
            alts.append(dict(op, dt=1.0))
        if op["t"] == "hold" and op["dur"] not in ("sync", 1.0):
            alts.append(dict(op, dur=1.0))
        if op["t"] == "anch" and op["delay"] is not None and not isinstance(op["delay"], str):
            alts.append(dict(op, delay=None))
        if op.get("do", {}).get("a") == "drain" and op["do"].get("k") != 1:
            alts.append(dict(op, do=dict(op["do"], k=1)))
        for a in alts:
            p = dict(plan)
            p["ops"] = plan["ops"][:i] + [a] + plan["ops"][i + 1:]
            yield p


def warm():
    from sim.machine import preload
    preload("c06")


def on_crash(ctx, crash):
    """Every operation of the workload is legal: an exception reaching the loop is a violation."""
    exc = crash.exc
    where = ""
    tb = exc.__traceback__ if exc is not None else None
    last = None
    while tb is not None:
        fn = tb.tb_frame.f_code.co_filename
        if "/mpf/" in fn:
            last = "%s:%s" % (fn.split("/mpf/", 1)[1], tb.tb_frame.f_code.co_name)
        tb = tb.tb_next
    where = last or "?"
    cause = exc
    while cause is not None and cause.__cause__ is not None:
        cause = cause.__cause__
    return ("crash", "%s in %s" % (type(cause).__name__ if cause is not None else "?", where),
            "exception reached the event loop during legal game operations: %s" % (crash,))


# ---------------------------------------------------------------------------------------------
# oracle


class Oracle:
    """Grammar automaton + reference model.  Every method is called in loop processing order."""

    def __init__(self, ctx, sim, cfg):
        self.ctx = ctx
        self.sim = sim
        self.bpg = cfg["bpg"]
        self.nbk = cfg["nbk"]
        self.maxp = cfg["maxp"]
        self.phase = "idle"
        self.games = 0
        self.completed = 0
        self.t_ended = None
        self.start_pending_t = None
        self.trace = []
        self.held = {"n": 0, "summary": 0, "t_release": -1.0}       # workload holds (set by execute)
        self.add_req_taps = 0
        self.add_req_taps0 = 0
        self.t_last_added = -1.0
        self.t_last_add_req = -1.0          # instant of the last player_add_request before the current request
        self.t_last_add_req_new = -1.0
        self.add_must = self.add_must_not = False
        self._reset_game()

    def _reset_game(self):
        self.active = False
        self.roster_hi = 0            # players whose add has begun (player_will_add posted)
        self.added = set()            # players whose add is complete (player_added posted)
        self.pending_adds = 0         # posted, not yet denied / consumed player_add_request events
        self.round = 0                # ball number of the current round
        self.cur = None               # player of the current / last turn
        self.extras = {}              # player -> awarded, not yet played extra balls
        self.end_game_req = False
        self.slam_req = False
        self.tilted = False           # tilt mode: a tilt is in effect (further tilts are ignored by the tilt mode)
        self.bip = 0
        self.ball_open = False        # ball_will_start .. ball_will_end
        self.in_ball = False          # ball_started .. ball_will_end
        self.cause_req = False        # an end was requested for the open ball
        self.bip_zero = False         # balls in play reached zero during the ball
        self.obl_t = None             # since when the ball is obliged to end
        self.ball_args = None
        self.turn_balls = 0

    # -- helpers ---------------------------------------------------------------------------
    def v(self, rule, sig, msg):
        tail = " | last events: %s" % " ".join(self.trace[-14:])
        self.ctx.violation(rule, sig, "%s (t=%.6f, game %d, round %d, player %s, roster %d/%s, end_game=%s slam=%s)%s"
                           % (msg, self.sim.now, self.games, self.round, self.cur, self.roster_hi, sorted(self.added),
                              self.end_game_req, self.slam_req, tail))

    def end_requested(self):
        return self.end_game_req or self.slam_req

    def in_turn(self):
        return self.active and self.phase in TURN_PHASES

    def abstract(self):
        return (self.phase, self.round, self.cur, self.roster_hi, self.end_game_req, self.slam_req, self.bip)

    # -- taps ------------------------------------------------------------------------------
    def on_event(self, t, name, kw):
        if name in LIFE:
            self.trace.append(self._short(name, kw))
            self._lifecycle(t, name, kw)
            self.check_bip("at %s" % name, exact=True)
            return
        if name == "player_add_request":
            self.add_req_taps += 1
            self.t_last_add_req_new = t
            if self.active:
                self.pending_adds += 1
        elif name == "player_will_add":
            self.trace.append("will_add(%s)" % kw.get("number"))
            self._player_will_add(kw)
        elif name == "player_added":
            self.added.add(kw.get("num"))
            self.t_last_added = t
            if self.roster_hi == 4:
                self.ctx.probe("four_players")
        elif name == "tilt_clear":
            self.tilted = False
        self.check_bip("at %s" % name, exact=False)

    @staticmethod
    def _short(name, kw):
        if name.startswith("player_turn"):
            return "%s(%s)" % (name[7:], kw.get("number"))
        if name in ("ball_will_start", "ball_starting", "ball_started"):
            return "%s(p%s,b%s%s)" % (name, kw.get("player"), kw.get("ball"), ",x" if kw.get("is_extra_ball") else "")
        return name

    def check_bip(self, where, exact):
        """Statement: 'balls in play always stays between zero and the number of balls known'."""
        g = self.sim.machine.game
        if g is None or not self.active:
            return
        val = g.balls_in_play
        if not 0 <= val <= self.nbk:
            self.v("bip_bounds", "balls_in_play out of [0, num_balls_known]",
                   "balls_in_play=%r with num_balls_known=%d %s" % (val, self.nbk, where))
        if exact and val != self.bip:
            self.v("bip_model", "balls_in_play differs from reference model",
                   "balls_in_play=%r, reference model says %d %s" % (val, self.bip, where))

    def _player_will_add(self, kw):
        num = kw.get("number")
        if not self.active:
            self.v("add_gate", "player added without active game", "player_will_add(%s) while no game is active" % num)
            return
        if self.pending_adds <= 0:
            self.v("add_gate", "player added without granted request",
                   "player_will_add(%s) without a pending, not denied player_add_request" % num)
        else:
            self.pending_adds -= 1
        if num != self.roster_hi + 1:
            self.v("add_gate", "player numbers not consecutive", "player_will_add(%s) but roster has %d" % (num, self.roster_hi))
        self.roster_hi = max(self.roster_hi, num or 0)
        if self.roster_hi > self.maxp:
            # documented gate of request_player_add: 'the current number of players must be less than the max number allowed'
            self.v("max_players", "more players than max_players", "player %r added, max_players is %d" % (num, self.maxp))
        if self.round >= 1 and self.cur is not None:
            self.ctx.probe("late_player_joined")

    def add_request_begin(self, deny_armed):
        """An add-player request is about to be handled by the game (same handler run, nothing interleaves)."""
        self.add_req_taps0 = self.add_req_taps
        self.t_last_add_req = self.t_last_add_req_new
        # Documented gate (request_player_add): during ball 1, below max_players, game not ending => the request
        # is forwarded as player_add_request.  Only the unambiguous window is required: a ball-1 turn in progress.
        # R-add-in-flight: while another player's add is still in progress (player_will_add .. player_added, or a
        # player_add_request posted in this very instant whose answer may still be outstanding) the request may be
        # refused or served.
        self.add_must = (self.active and self.round == 1 and not self.end_game_req and not self.slam_req
                         and self.roster_hi < self.maxp and self.roster_hi == len(self.added) and self.pending_adds == 0
                         and self.sim.now > self.t_last_added and self.sim.now > self.t_last_add_req
                         and self.phase in ("player_turn_started", "ball_will_start", "ball_starting", "ball_started",
                                            "ball_will_end", "ball_ending", "ball_ended"))
        self.add_must_not = self.active and self.round >= 2 and self.phase in (
            "player_turn_started", "ball_will_start", "ball_starting", "ball_started", "ball_will_end", "ball_ending",
            "ball_ended", "player_turn_will_end", "player_turn_ending")

    def add_request_end(self):
        got = self.add_req_taps - self.add_req_taps0
        if self.add_must and got == 0:
            self.v("add_gate", "add request during ball 1 refused", "add-player request during ball 1 with %d of %d players "
                   "was not forwarded as player_add_request" % (self.roster_hi, self.maxp))
        if self.add_must_not and got:
            # accepted relaxation of the design ('a player-add request arriving after ball 1 is refused') is what
            # the game documents; accepting it would break 'one turn per ball number' anyway
            self.ctx.probe("add_after_ball1_forwarded")
        self.add_must = self.add_must_not = False

    def add_denied(self):
        if self.active and self.pending_adds > 0:
            self.pending_adds -= 1

    # -- grammar ---------------------------------------------------------------------------
    def _allowed(self):
        ph = self.phase
        if ph == "idle":
            return {"game_will_start"}
        if ph == "game_starting":
            # Statement: the game events 'will-start/starting/started and will-end/ending/ended are posted in exactly
            # that nesting order'.  A game that is ended while it is starting (end_game inside a held game_starting /
            # first player_adding, or after a denied first player_add_request) still closes its start bracket:
            # game_started comes before game_will_end (it may have no player - see _on_game_started).
            return {"game_started"}
        if ph == "game_started":
            # R-end-before-first-turn: an end / slam-tilt request that arrived before the first turn: the first
            # turn may or may not be played.
            return {"player_turn_will_start", "game_will_end"} if self.end_requested() else {"player_turn_will_start"}
        if ph == "player_turn_started":
            # R-turn-without-ball: with an end / slam request pending the turn may close without a ball.
            return {"ball_will_start", "player_turn_will_end"} if self.end_requested() else {"ball_will_start"}
        if ph == "ball_ended":
            return {"ball_will_start", "player_turn_will_end"}      # conditions checked in _lifecycle
        if ph == "player_turn_ended":
            return {"player_turn_will_start", "game_will_end"}      # conditions checked in _lifecycle
        i = SEQ.index(ph)
        return {SEQ[i + 1]}

    def _lifecycle(self, t, name, kw):
        ph = self.phase
        if ph == "game_ended":
            ph = self.phase = "idle"
        if name not in self._allowed():
            self.v("grammar", "%s posted after %s" % (name, ph),
                   "lifecycle event %s posted in phase %s, allowed here: %s" % (name, ph, sorted(self._allowed())))
            # resync (known finding mode): accept the event
        getattr(self, "_on_" + name)(t, kw, ph)
        self.phase = name

    def _on_game_will_start(self, t, kw, ph):
        self._reset_game()
        self.active = True
        self.games += 1
        self.start_pending_t = None
        if self.games >= 2:
            self.ctx.probe("second_game")

    def _on_game_starting(self, t, kw, ph):
        pass

    def _on_game_started(self, t, kw, ph):
        if self.roster_hi < 1 and not self.end_game_req:
            self.v("grammar", "game_started without a player", "game_started posted before any player was added")

    def _on_player_turn_will_start(self, t, kw, ph):
        num = kw.get("number")
        prev = self.cur
        if prev is None:
            cands = {1: False}
        elif (prev + 1) in self.added:
            cands = {prev + 1: False}
        elif prev + 1 <= self.roster_hi:
            # R-roster-in-progress: a player whose add is still in progress (player_adding not complete) at the
            # rotation may or may not be counted.
            cands = {prev + 1: False, 1: True}
        else:
            cands = {1: True}
        if num not in cands:
            self.v("rotation", "wrong player is up", "player_turn_will_start(number=%r) after turn of player %r; "
                   "expected %s" % (num, prev, sorted(cands)))
            wrap = (num == 1)
        else:
            wrap = cands[num]
        if prev is not None and self.end_requested():
            self.v("turn_after_end_request", "new turn after %s" % ("end_game" if self.end_game_req else "slam tilt"),
                   "player_turn_will_start(%r) although the game end was requested before the previous turn ended" % num)
        if prev is None:
            self.round = 1
        elif wrap:
            self.round += 1
            if self.round > self.bpg:
                self.v("turn_count", "turn beyond balls_per_game",
                       "player %r starts a turn for ball number %d but balls_per_game is %d" % (num, self.round, self.bpg))
        self.cur = num
        self.turn_balls = 0

    def _turn_arg(self, name, kw):
        if kw.get("number") != self.cur:
            self.v("args", "%s with wrong player" % name, "%s(number=%r) during the turn of player %r" % (name, kw.get("number"), self.cur))
        p = kw.get("player")
        if p is not None and getattr(p, "number", None) != kw.get("number"):
            self.v("args", "%s player object mismatch" % name, "%s player object is player %r, number=%r"
                   % (name, getattr(p, "number", None), kw.get("number")))

    def _on_player_turn_starting(self, t, kw, ph):
        self._turn_arg("player_turn_starting", kw)

    def _on_player_turn_started(self, t, kw, ph):
        self._turn_arg("player_turn_started", kw)

    def _on_ball_will_start(self, t, kw, ph):
        extra = (ph == "ball_ended")
        if extra:
            if self.extras.get(self.cur, 0) <= 0:
                self.v("extra_ball", "extra ball without award", "player %r starts another ball in the same turn "
                       "without a pending extra ball" % self.cur)
            else:
                self.extras[self.cur] -= 1
            self.ctx.probe("extra_ball_played")
        exp = {"player": self.cur, "ball": self.round, "is_extra_ball": extra, "balls_remaining": self.bpg - self.round}
        got = {k: kw.get(k) for k in exp}
        if got != exp:
            self.v("args", "ball_will_start with wrong arguments", "ball_will_start%r, expected %r" % (got, exp))
        self.ball_args = got
        self.ball_open = True
        self.cause_req = False
        self.bip_zero = False
        self.obl_t = None
        self.turn_balls += 1

    def _same_ball_args(self, name, kw):
        got = {k: kw.get(k) for k in ("player", "ball", "is_extra_ball", "balls_remaining")}
        if got != self.ball_args:
            self.v("args", "%s arguments differ from ball_will_start" % name, "%s%r but ball_will_start%r" % (name, got, self.ball_args))

    def _on_ball_starting(self, t, kw, ph):
        self._same_ball_args("ball_starting", kw)

    def _on_ball_started(self, t, kw, ph):
        self._same_ball_args("ball_started", kw)
        self.in_ball = True
        self.bip = min(1, self.nbk)
        if self.cause_req:
            self.obl_t = t

    def _on_ball_will_end(self, t, kw, ph):
        # Statement: 'A ball ends exactly when balls in play reaches zero or an end is requested'.
        if not (self.bip_zero or self.cause_req):
            self.v("ball_end_cause", "ball ended without cause", "ball_will_end although balls in play is %d and no "
                   "end was requested for this ball" % self.bip)
        elif self.obl_t is not None and t - self.obl_t > LIVE_BOUND:
            self.v("ball_end_late", "ball ended late", "ball was due to end at %.6f, ball_will_end at %.6f" % (self.obl_t, t))
        self.in_ball = False
        self.ball_open = False
        self.obl_t = None
        self.bip = 0

    def _on_ball_ending(self, t, kw, ph):
        pass

    def _on_ball_ended(self, t, kw, ph):
        pass

    def _on_player_turn_will_end(self, t, kw, ph):
        self._turn_arg("player_turn_will_end", kw)
        if ph == "ball_ended" and self.extras.get(self.cur, 0) > 0 and not self.end_requested():
            # R-extra-after-end: 'whether pending extra balls are played after end_game' (and after a slam tilt) is open.
            self.v("extra_ball", "awarded extra ball not played", "turn of player %r closes with %d extra ball(s) pending"
                   % (self.cur, self.extras[self.cur]))

    def _on_player_turn_ending(self, t, kw, ph):
        self._turn_arg("player_turn_ending", kw)

    def _on_player_turn_ended(self, t, kw, ph):
        self._turn_arg("player_turn_ended", kw)

    def _on_game_will_end(self, t, kw, ph):
        if ph == "player_turn_ended" and not self.end_requested():
            if self.round < self.bpg or (self.cur + 1) in self.added:
                self.v("game_end_early", "game ends before all turns were played", "game_will_end after the turn of player "
                       "%r in round %d of %d, roster %d" % (self.cur, self.round, self.bpg, self.roster_hi))
            if self.roster_hi >= 2:
                self.ctx.probe("natural_game_end_multi_player")
        if self.end_requested() and self.round >= 1:
            self.ctx.probe("end_game_midgame")

    def _on_game_ending(self, t, kw, ph):
        pass

    def _on_game_ended(self, t, kw, ph):
        if self.held["summary"] > 0:
            self.ctx.probe("game_end_waits_for_stopping_mode")
        self.active = False
        self.t_ended = t
        self.completed += 1
        self.ctx.probe("game_completed")

    # -- requests (called when the loop processes them) -----------------------------------------
    def _end_request_for_ball(self, t):
        if self.ball_open:
            self.cause_req = True
            if self.in_ball and self.obl_t is None:
                self.obl_t = t
        elif self.active and self.phase not in ("game_will_start", "game_starting", "game_will_end", "game_ending"):
            self.ctx.probe("request_between_balls")

    def req_end_ball(self, t):
        if self.active:
            self._end_request_for_ball(t)

    def req_end_game(self, t):
        if not self.active:
            return
        if self.phase in ("game_will_start", "game_starting"):
            self.ctx.probe("end_game_during_start")
            if self.roster_hi == 0:
                self.ctx.probe("end_game_before_first_player")
        if self.phase not in ("game_will_end", "game_ending"):
            # R-requests-while-ending: requests arriving while the game is ending have no required effect
            self.end_game_req = True
        self._end_request_for_ball(t)

    def req_tilt(self, t, slam):
        if not self.active:
            return
        if slam:
            self.ctx.probe("slam_during_game")
            if self.phase not in ("game_will_end", "game_ending"):
                self.slam_req = True
        # the tilt mode ignores a tilt while one is in effect or while game.ending (documented tilt behaviour)
        if self.tilted or self.end_game_req or self.phase in ("game_will_end", "game_ending"):
            return
        self.tilted = True
        if self.in_ball:
            self.ctx.probe("tilt_during_ball")
        self._end_request_for_ball(t)

    def drain_processed(self, t, k):
        """k balls drained (after ball saves) - the game's own handler runs right after this."""
        if not self.in_ball or k <= 0:
            return
        if k > self.bip:
            self.ctx.probe("overdrain_clamped")
        if self.bip >= 2 and k >= 1:
            self.ctx.probe("multiball_drained")
        was = self.bip
        self.bip = max(0, self.bip - k)
        if was > 0 and self.bip == 0:
            self.bip_zero = True
            if self.obl_t is None:
                self.obl_t = t

    def bip_added(self):
        if self.bip + 1 > self.nbk:
            self.ctx.probe("bip_capped")
        self.bip = min(self.nbk, self.bip + 1)

    def quiet_after_end(self, t):
        """The game ended and every wait was cleared at least LIVE_BOUND ago (the game mode's own stop waits for game
        modes whose mode_<m>_stopping queue is held, so 'no game is active' is only due after those waits)."""
        return (not self.active and self.phase in ("idle", "game_ended") and self.held["n"] == 0
                and (self.t_ended is None or t - max(self.t_ended, self.held["t_release"]) > LIVE_BOUND))

    def check_obligations(self, t):
        if self.obl_t is not None and t - self.obl_t > LIVE_BOUND:
            self.v("ball_not_ended", "ball does not end although due",
                   "ball of player %r was due to end at %.6f (%s), no ball_will_end until %.6f"
                   % (self.cur, self.obl_t, "balls in play reached zero" if self.bip_zero else "end requested", t))
            self.obl_t = None
        if self.start_pending_t is not None and t - self.start_pending_t > LIVE_BOUND:
            self.v("start_refused", "start request not accepted while idle",
                   "start request at %.6f while no game was active was not followed by game_will_start" % self.start_pending_t)
            self.start_pending_t = None
        if self.t_ended is not None and self.quiet_after_end(t) and self.sim.machine.game is not None:
            self.v("game_not_none", "machine.game set after game_ended", "machine.game is still %r %.3f s after game_ended"
                   % (self.sim.machine.game, t - self.t_ended))


# ---------------------------------------------------------------------------------------------
# scenario


def execute(ctx, plan):
    from sim.tap import EventLog
    cfg = plan["cfg"]
    sim = ctx.new_sim("c06", patches={"game": {"balls_per_game": cfg["bpg"], "max_players": cfg["maxp"],
                                               "wait_for_empty_playfields_on_ball_start": bool(cfg["wait_empty"])}})
    sim.boot()
    m = sim.machine
    loop = sim.loop
    ev = m.events
    orc = Oracle(ctx, sim, cfg)
    m.ball_controller.num_balls_known = cfg["nbk"]
    track = bool(cfg["wait_empty"])
    world = {"pf": 0, "saves": 0, "deny": 0, "wd_i": 0, "ad_i": 0, "settling": False, "drain_sched": False}

    def add_ball_stub(*args, **kwargs):
        # MpfFakeGameTestCase: no ball devices, the playfield just counts
        world["pf"] += 1
        if track:
            m.playfield.available_balls = world["pf"]
    m.playfield.add_ball = add_ball_stub

    want = LIFE | OTHER_TAPS
    log = EventLog(sim, want=lambda n: n in want)

    def on_tap(t, name, kw):
        brief = tuple(sorted((k, v) for k, v in kw.items() if isinstance(v, (int, str, bool)) and k != "hold_time"))
        ctx.log("ev", name, brief, t=t)
        orc.on_event(t, name, kw)
        if name == "ball_will_start" and track and world["pf"] > 0:
            ctx.probe("playfield_wait")
            schedule_world_drain()
    log.listeners.append(on_tap)

    # -- the world: drains -------------------------------------------------------------------
    def after_drain(balls=0, **kwargs):
        world["pf"] = max(0, world["pf"] - balls)
        if track:
            m.playfield.available_balls = world["pf"]

    def post_drain(k):
        ev.post_relay("ball_drain", balls=k, callback=after_drain)

    def schedule_world_drain():
        if world["drain_sched"]:
            return
        world["drain_sched"] = True
        d = cfg["world_delays"][world["wd_i"] % len(cfg["world_delays"])]
        world["wd_i"] += 1

        def go():
            world["drain_sched"] = False
            if world["pf"] > 0 and not orc.in_ball:
                ctx.log("world_drain", world["pf"], t=loop.time())
                post_drain(world["pf"])
        sim.after(d, go)

    def save_handler(balls=0, **kwargs):
        """Ball-save style handler in front of the game's ball_drain handler."""
        saved = min(balls, world["saves"])
        world["saves"] -= saved
        k2 = balls - saved
        ctx.log("drain", balls, saved, t=loop.time())
        if saved:
            ctx.probe("save_used")
        orc.drain_processed(loop.time(), k2)
        if saved:
            return {"balls": k2}
        return None
    ev.add_handler("ball_drain", save_handler, priority=100000)

    def deny_handler(**kwargs):
        if world["deny"] > 0:
            world["deny"] -= 1
            ctx.log("deny_add", t=loop.time())
            ctx.probe("add_denied")
            orc.add_denied()
            return False
        return None
    ev.add_handler("player_add_request", deny_handler, priority=100000)

    # -- requests ------------------------------------------------------------------------------
    held = {"n": 0, "summary": 0, "t_release": -1.0}
    orc.held = held

    def do_action(do, how, at=None):
        now = loop.time()
        a = do["a"]
        if world["settling"]:
            return          # faults and requests stop in the settle phase (late anchored requests included)
        orc.check_obligations(now)
        ctx.state(*orc.abstract(), a)
        if held["n"] > 0 and how != "settle":
            ctx.probe("op_inside_hold")
            if a in ("btn", "add_ev") and orc.active:
                ctx.probe("add_inside_hold")
            elif a == "drain":
                ctx.probe("drain_inside_hold")
            elif a == "end_game":
                ctx.probe("end_game_inside_hold")
            elif a == "end_ball":
                ctx.probe("end_ball_inside_hold")
            elif a == "slam":
                ctx.probe("slam_inside_hold")
        if how == "sync":
            ctx.probe("sync_handler_op")
        ctx.log("req", a, do.get("k", do.get("n", do.get("via"))), how, orc.phase, t=now)
        g = m.game
        if a in ("btn", "start_ev", "add_ev"):
            if not orc.active and a != "add_ev":
                # 'after the game has ended no game is active and a new one can start': only required once the
                # machine had time to settle (attract restarts within the instant of game_ended)
                settled = orc.quiet_after_end(now)
                if settled and orc.start_pending_t is None:
                    orc.start_pending_t = now
                    if orc.games >= 1:
                        ctx.probe("restart_after_end")
            elif orc.active and a != "start_ev":
                if orc.round >= 2:
                    ctx.probe("add_refused_after_ball1")
            if a == "btn":
                sim.hit_switch("s_start", 1)
                sim.hit_switch("s_start", 0)
            elif a == "start_ev":
                ev.post("start_my_game")
            else:
                ev.post("add_my_player")
        elif a == "drain":
            post_drain(do["k"])
        elif a == "save":
            world["saves"] = min(3, world["saves"] + do["n"])
        elif a == "deny":
            world["deny"] = min(2, world["deny"] + 1)
        elif a == "eb":
            if how == "sync" and at in PRE_TURN_END and orc.active and orc.phase != at and orc.phase in TURN_CLOSED \
                    and not orc.end_requested():
                # Statement: a turn is 'one ball plus one more per extra ball awarded'.  An award made by a handler of
                # a lifecycle event of the turn that precedes player_turn_will_end (handlers' view: the turn is still
                # open) belongs to this turn.  If the game has already posted the closing events it decided the
                # turn's extra balls before the handlers of that event could run.
                ctx.probe("award_in_ball_end_handler")
                orc.v("extra_ball", "turn closed before the handlers of %s ran" % at,
                      "extra ball awarded inside a handler of %s, but the game has already posted %s: the award can "
                      "no longer be played in this turn" % (at, orc.phase))
            if how == "sync" and at in ("ball_ended", "ball_ending", "ball_will_end") and orc.in_turn():
                ctx.probe("award_in_ball_end_handler")
            if g is not None and orc.in_turn() and g.player is not None:
                if g.player.number != orc.cur:
                    orc.v("current_player", "game.player is not the player whose turn it is",
                          "game.player.number=%r during the turn of player %r" % (g.player.number, orc.cur))
                orc.extras[orc.cur] = orc.extras.get(orc.cur, 0) + 1
                g.player.extra_balls += 1
        elif a == "bip":
            if g is not None and orc.active:
                orc.bip_added()
                g.balls_in_play += 1
                orc.check_bip("after balls_in_play += 1", exact=True)
        elif a == "end_ball":
            if do["via"] == "ev":
                ev.post("end_ball")
            elif g is not None and orc.active:
                orc.req_end_ball(now)
                g.end_ball()
        elif a == "end_game":
            if do["via"] == "ev":
                # the handler runs when the event is processed: account for it there
                ev.post("end_game")
            elif g is not None and orc.active:
                orc.req_end_game(now)
                g.end_game()
        elif a == "sum_stop":
            ev.post("summary_stop")
        elif a in ("tilt", "slam") and not track:
            sw = "s_slam_tilt" if a == "slam" else "s_tilt"
            orc.req_tilt(now, a == "slam")
            sim.hit_switch(sw, 1)
            sim.hit_switch(sw, 0)

    # end_ball / end_game by event: the request is processed when the game's handler runs; a handler in front of
    # it keeps the model in processing order
    def pre_end_game(**kwargs):
        orc.req_end_game(loop.time())
    ev.add_handler("end_game", pre_end_game, priority=100000)

    def pre_end_ball(**kwargs):
        orc.req_end_ball(loop.time())
    ev.add_handler("end_ball", pre_end_ball, priority=100000)

    # add-player requests (event or start button): evaluated around the game's own handler
    def pre_add(**kwargs):
        orc.add_request_begin(world["deny"] > 0)

    def post_add(**kwargs):
        orc.add_request_end()
    for name in ("add_my_player", "sw_start"):
        ev.add_handler(name, pre_add, priority=100000)
        ev.add_handler(name, post_add, priority=-100000)

    # -- anchors and holds ------------------------------------------------------------------------
    anchors = {}
    holds = {}
    for op in plan["ops"]:
        if op["t"] == "anch":
            anchors.setdefault((op["ev"], op["n"]), []).append(op)
        elif op["t"] == "hold":
            holds[(op["ev"], op["n"])] = op["dur"]
    seen = {}

    def hop(k, do):
        if k <= 0:
            ctx.probe("hop_op")
            do_action(do, "hop")
        else:
            loop.call_soon(hop, k - 1, do)

    def make_anchor_handler(name):
        is_queue = name in QUEUE_EVENTS or name == SUMMARY_STOPPING

        def handler(queue=None, **kwargs):
            n = seen.get(name, 0)
            seen[name] = n + 1
            for op in (anchors.get((name, n), ()) if not world["settling"] else ()):
                if op["delay"] is None:
                    do_action(op["do"], "sync", name)
                elif isinstance(op["delay"], str):
                    hop(int(op["delay"][1:]), op["do"])      # "h3": three loop iterations later, same instant
                else:
                    sim.after(op["delay"], do_action, op["do"], "anch")
            if is_queue and queue is not None and not world["settling"]:
                dur = holds.get((name, n))
                if dur is not None:
                    ctx.probe("hold_" + name)
                    ctx.log("hold", name, n, dur, t=loop.time())
                    queue.wait()
                    if dur == "sync":
                        queue.clear()
                    else:
                        held["n"] += 1
                        if name == SUMMARY_STOPPING:
                            held["summary"] += 1

                        def release():
                            held["n"] -= 1
                            held["t_release"] = loop.time()
                            if name == SUMMARY_STOPPING:
                                held["summary"] -= 1
                            ctx.log("release", name, n, t=loop.time())
                            queue.clear()
                        sim.after(dur, release)
        return handler

    for name in ANCHORS:
        ev.add_handler(name, make_anchor_handler(name), priority=cfg["prio"])

    # auto drain: the ball drains some time after it started (a share of the runs)
    if cfg["auto_drain"]:
        def auto_drain(**kwargs):
            d = cfg["auto_drain"][world["ad_i"] % len(cfg["auto_drain"])]
            world["ad_i"] += 1

            def go():
                if orc.in_ball and not world.get("final"):
                    k = {"one": 1, "all": max(1, orc.bip), "known": cfg["nbk"]}[cfg["auto_k"]]
                    ctx.log("auto_drain", k, t=loop.time())
                    orc.check_obligations(loop.time())
                    post_drain(k)
            if d is None:
                if orc.in_ball and not world.get("final") and not world["settling"]:
                    ctx.probe("sync_handler_op")
                    ctx.log("auto_drain_sync", t=loop.time())
                    post_drain(1)
            else:
                sim.after(d, go)
        ev.add_handler("ball_started", auto_drain, priority=-20000)

    # -- timed chain -------------------------------------------------------------------------------
    timed = [op for op in plan["ops"] if op["t"] == "op"]
    idx = [0]
    done = [False]

    def schedule_next():
        if idx[0] >= len(timed):
            done[0] = True
            return
        sim.after(timed[idx[0]]["dt"], run_op)

    def run_op():
        op = timed[idx[0]]
        idx[0] += 1
        do_action(op["do"], "timed")
        schedule_next()

    schedule_next()
    guard = 0
    while not done[0]:
        sim.run(1.0)
        guard += 1
        if guard > 600:
            raise AssertionError("request chain did not finish")

    # -- settle: faults stop, holds run out, every ball drains; the game must come to its end ---------
    world["settling"] = True
    world["saves"] = 0
    world["deny"] = 0
    sim.run_quiet(MAX_HOLD + 0.5)
    orc.check_obligations(loop.time())
    awards = sum(1 for op in plan["ops"] if op.get("do", {}).get("a") == "eb")
    max_it = 4 * 3 + awards + 8
    it = 0
    while orc.active and it < max_it:
        it += 1
        if orc.in_ball:
            ctx.log("settle_drain", t=loop.time())
            post_drain(cfg["nbk"])
        elif world["pf"] > 0 and track:
            post_drain(world["pf"])
        elif orc.phase == "game_starting" and orc.roster_hi == 0 and not orc.end_game_req:
            # a denied first player: the game legitimately waits for somebody to join
            ev.post("add_my_player")
        sim.run_quiet(1.5)
        orc.check_obligations(loop.time())
    if orc.active:
        # Statement: 'A game always runs as start, then ... then end'
        orc.v("game_not_ended", "game stuck in phase %s%s" % (orc.phase, " after end_game" if orc.end_game_req else ""),
              "all holds released and every ball drained %d times, the game does not come to its end "
              "(phase %s, balls in play %d)" % (it, orc.phase, orc.bip))
        return
    sim.run_quiet(1.0)
    orc.check_obligations(loop.time())
    # after game_ended: no game active and a new one can start
    if m.game is not None:
        orc.v("game_not_none", "machine.game set after game_ended", "machine.game is %r after the game ended" % m.game)
    if world["pf"] > 0:
        post_drain(world["pf"])
        sim.run_quiet(0.1)
    world["final"] = True
    orc.start_pending_t = loop.time()
    ctx.log("final_start", t=loop.time())
    sim.hit_switch("s_start", 1)
    sim.hit_switch("s_start", 0)
    sim.run_quiet(1.0)
    orc.check_obligations(loop.time())
    if not orc.active or m.game is None:
        orc.v("start_refused", "no new game after game_ended",
              "start button after the game had ended: no new game (phase %s, machine.game %r, active modes %s)"
              % (orc.phase, m.game, sorted(x.name for x in m.mode_controller.active_modes)))
        return
    sim.run_quiet(2.5)
    if orc.phase != "ball_started":
        orc.v("game_not_ended", "restarted game does not reach its first ball", "new game after game_ended is in phase %s "
              "3.5 s after the start button" % orc.phase)
    ctx.probe("restart_after_end")
